#!/venv/bin/python
"""Maintain /verif/known_findings.json (hand-run; checks never write to it)."""
import json, os, sys
P = os.path.join(os.path.dirname(os.path.dirname(os.path.abspath(__file__))), 'known_findings.json')


def load():
    return json.load(open(P)) if os.path.exists(P) else {'format': 'entries are matched exactly on (rule, key); status open -> printed as KNOWN-FINDING while observed; status fixed -> suppresses nothing', 'findings': []}


def add(prop, rule, key, what, repro, status='open', commit=None):
    d = load()
    d['findings'] = [f for f in d['findings'] if not (f['rule'] == rule and f['key'] == key)]
    e = {'property': prop, 'rule': rule, 'key': key, 'what_fails': what, 'reproduction': repro, 'status': status}
    if commit:
        e['commit'] = commit
        e['line'] = f'fixed: property={prop} {commit} {what}'
    d['findings'].append(e)
    d['findings'].sort(key=lambda f: (f['property'], f['rule'], f['key']))
    json.dump(d, open(P, 'w'), indent=1)
    open(P, 'a').write('\n')


if __name__ == '__main__':
    add(*sys.argv[1:])
