#!/venv/bin/python
"""For every repaired defect (known_findings.json, status fixed) write seeded/<prop>_F<commit>/patch.diff = the reverse
of the fix commit, when it still applies to /repo's HEAD.  The thorough tier then checks that the property's rules
report the defect again if the fix is ever undone."""
import json, os, subprocess, tempfile, shutil, sys
VERIF = os.path.dirname(os.path.dirname(os.path.abspath(__file__)))
kf = json.load(open(os.path.join(VERIF, 'known_findings.json')))['findings']
seen = set()
for f in kf:
    c = f.get('commit')
    if f['status'] != 'fixed' or not c or (f['property'], c) in seen:
        continue
    seen.add((f['property'], c))
    sid = f"{f['property']}_F{c}"
    d = os.path.join(VERIF, 'seeded', sid)
    mp = os.path.join(d, 'meta.json')
    if os.path.exists(mp) and json.load(open(mp)).get('rebased'):
        print(sid, 'kept (re-expressed by hand on a later tree)'); continue
    diff = subprocess.run(['git', '-C', '/repo', 'diff', c, f'{c}~1', '--', 'bumble'], capture_output=True, text=True).stdout
    if not diff.strip():
        print(sid, 'empty diff'); continue
    tmp = tempfile.mkdtemp(prefix='rv_')
    try:
        subprocess.run(['rsync', '-a', '--exclude', '.git', '/repo/bumble', tmp + '/'], check=True)
        pf = os.path.join(tmp, 'p.diff'); open(pf, 'w').write(diff)
        r = subprocess.run(['patch', '-p1', '-s', '-f', '--dry-run', '-i', pf], cwd=tmp, capture_output=True, text=True)
        if r.returncode != 0:
            print(sid, 'does not apply any more (later changes touch the same lines)')
            if os.path.isdir(d): shutil.rmtree(d)
            continue
    finally:
        shutil.rmtree(tmp, ignore_errors=True)
    os.makedirs(d, exist_ok=True)
    open(os.path.join(d, 'patch.diff'), 'w').write(diff)
    json.dump({'id': sid, 'property': f['property'], 'kind': 'reverse of a fix commit', 'commit': c, 'what_failed': f['what_fails'], 'reproduction': f.get('reproduction'),
               'confirmed': True, 'what_was_run': 'the reproduction script named here exits 1 on the tree before the fix and 0 after it'}, open(os.path.join(d, 'meta.json'), 'w'), indent=1)
    print(sid, 'written')
