#!/venv/bin/python
"""Copy sub-agent output (/tmp/wt2/out/<id>/{patch.diff,demo.py,summary.txt}) into /verif/seeded/<id>/."""
import json, os, shutil, sys
VERIF = os.path.dirname(os.path.dirname(os.path.abspath(__file__)))
src = sys.argv[1]
for sid in sorted(os.listdir(src)):
    d = os.path.join(src, sid)
    if not os.path.exists(os.path.join(d, 'patch.diff')) or not os.path.exists(os.path.join(d, 'demo.py')):
        print(sid, 'incomplete'); continue
    t = os.path.join(VERIF, 'seeded', sid)
    if os.path.exists(t):
        continue
    os.makedirs(t)
    shutil.copy(os.path.join(d, 'patch.diff'), t)
    # demos were written to run from the worktree root with sys.path.insert(0, '.')
    shutil.copy(os.path.join(d, 'demo.py'), t)
    summary = open(os.path.join(d, 'summary.txt')).read() if os.path.exists(os.path.join(d, 'summary.txt')) else ''
    json.dump({'id': sid, 'property': sid.split('_')[0], 'round': (int(sid.split('_')[1]) + 1) // 2, 'author': 'independent sub-agent given only the property text and a scratch worktree', 'summary': summary}, open(os.path.join(t, 'meta.json'), 'w'), indent=1)
    print(sid, 'imported')
