#!/venv/bin/python
"""Confirm a seeded change in a scratch worktree: demo passes without it, fails with it,
the existing suite still passes with it.  Usage: tools/confirm_seed.py C03_1 [...]"""
import json, os, subprocess, sys, shutil, time

VERIF = os.path.dirname(os.path.dirname(os.path.abspath(__file__)))


def sh(cmd, cwd, timeout=900):
    r = subprocess.run(cmd, shell=True, cwd=cwd, capture_output=True, text=True, timeout=timeout)
    return r.returncode, (r.stdout + r.stderr)[-600:]


def confirm(sid):
    d = os.path.join(VERIF, 'seeded', sid)
    wt = f'/tmp/wt/confirm_{sid}'
    subprocess.run(['git', '-C', '/repo', 'worktree', 'remove', '--force', wt], capture_output=True)
    subprocess.run(['git', '-C', '/repo', 'worktree', 'add', '-q', wt, 'HEAD'], check=True)
    res = {}
    try:
        shutil.copy(os.path.join(d, 'demo.py'), os.path.join(wt, 'demo_seed.py'))
        res['demo_without'] = sh('/venv/bin/python demo_seed.py', wt, 300)[0]
        rc, out = sh(f'git apply --3way {d}/patch.diff || git apply {d}/patch.diff', wt)
        res['apply'] = rc
        if rc != 0:
            res['apply_out'] = out
            return res
        rc, out = sh('/venv/bin/python demo_seed.py', wt, 300)
        res['demo_with'] = rc
        res['demo_with_tail'] = out[-300:]
        rc, out = sh('/venv/bin/python -m pytest -q -p no:cacheprovider -n 8 --timeout=120 2>&1 | tail -1', wt)
        res['suite_with'] = out.strip()
        res['head'] = subprocess.run(['git', '-C', '/repo', 'rev-parse', '--short', 'HEAD'], capture_output=True, text=True).stdout.strip()
    finally:
        subprocess.run(['git', '-C', '/repo', 'worktree', 'remove', '--force', wt], capture_output=True)
    return res


if __name__ == '__main__':
    for sid in sys.argv[1:]:
        r = confirm(sid)
        ok = r.get('demo_without') == 0 and r.get('demo_with', 0) != 0 and ' passed' in r.get('suite_with', '') and 'failed' not in r.get('suite_with', '')
        print(sid, 'CONFIRMED' if ok else 'NOT-CONFIRMED', json.dumps(r)[:400])
        mp = os.path.join(VERIF, 'seeded', sid, 'meta.json')
        meta = json.load(open(mp)) if os.path.exists(mp) else {}
        meta.update({'id': sid, 'property': sid.split('_')[0], 'confirmed': ok, 'confirmation': r,
                     'what_was_run': 'scratch worktree of /repo HEAD: demo.py without the patch (exit 0 expected), git apply patch.diff, demo.py (non-zero expected), full pytest suite (all pass expected); worktree removed afterwards'})
        json.dump(meta, open(mp, 'w'), indent=1)
