"""Per-property claims (what each check decides) for MANIFEST.json."""
from tools.manifest import claim, NOT_APPLICABLE

NOTE = ('Trusted base: CPython ast, the analyser in /verif/sa. Decides only the structural clauses named; '
        'value-level and schedule-level parts of the property are not claimed. ')

claim('C03', 'static analysis: typestate path walk of the send path, registry x handler-path-summary x dispatcher composition (exactly-once reply), who-may-send census, must-reach-completion path rule',
      'Decided from source on every run: (1) Host._send_command holds the command semaphore and both pending slots before handing the command to the transport, and every normal and exceptional exit clears the slots and releases (or conditionally releases) the semaphore; no other site hands an HCI command to the transport (named driver exceptions). '
      '(2) For each of the ~197 registered command classes and for unknown opcodes, composing class kind, the handler\'s abstract path outcomes (reply calls per path, returns value/None) and the dispatcher\'s own branches yields exactly one Command Complete/Status carrying the command\'s opcode and a credit. '
      '(3) Each of 10 pending procedures reaches its completion event, an LL/LMP continuation or its pending slot on every path after acceptance; cancel concludes a pending LE connection. '
      'Not decided: response/opcode matching under arbitrary delivery delay; liveness when a peer disappears mid-procedure.',
      NOTE + 'Assumes asyncio run-to-completion between awaits; Controller.link non-None is re-proved from the assignment census on every run.',
      'DESIGN.md §3 C03')

for pid in ['C01', 'C02', 'C04', 'C05', 'C06', 'C07', 'C08', 'C09', 'C10', 'C11', 'C12', 'C13', 'C14', 'C15', 'C16', 'C17', 'C18', 'C19', 'C20']:
    NOT_APPLICABLE[pid] = 'check not built yet in this session (work in progress; see DESIGN.md §3 for the clauses that will be decided statically)'
