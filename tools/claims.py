"""Per-property claims (what each check decides) for MANIFEST.json."""
from tools.manifest import claim, NOT_APPLICABLE

NOTE = ('Trusted base: CPython ast, the analyser in /verif/sa. Decides only the structural clauses named; '
        'value-level and schedule-level parts of the property are not claimed. ')

claim('C03', 'static analysis: typestate path walk of the send path, registry x handler-path-summary x dispatcher composition (exactly-once reply), who-may-send census, must-reach-completion path rule',
      'Decided from source on every run: (1) Host._send_command holds the command semaphore and both pending slots before handing the command to the transport, and every normal and exceptional exit clears the slots and releases (or conditionally releases) the semaphore; no other site hands an HCI command to the transport (named driver exceptions). '
      '(2) For each of the ~197 registered command classes and for unknown opcodes, composing class kind, the handler\'s abstract path outcomes (reply calls per path, returns value/None) and the dispatcher\'s own branches yields exactly one Command Complete/Status carrying the command\'s opcode and a credit. '
      '(3) Each of 10 pending procedures reaches its completion event, an LL/LMP continuation or its pending slot on every path after acceptance; cancel concludes a pending LE connection. '
      'Not decided: response/opcode matching under arbitrary delivery delay; liveness when a peer disappears mid-procedure.',
      NOTE + 'Assumes asyncio run-to-completion between awaits; Controller.link non-None is re-proved from the assignment census on every run.',
      'DESIGN.md §3 C03')

claim('C04', 'static analysis: guard dominance and per-iteration effect counting in the send loop, must-call-before-exit (pump) path rule, producer/consumer end census over every deque attribute',
      'Decided: every hand-over in DataPacketQueue._check_queue is dominated by `_in_flight < max_in_flight` and pairs one pop, one send of that packet and one increment of each counter; every queue method that frees credits or adds packets reaches _check_queue() on all normal exits (no stall, incl. flush); all 8 deque attributes in bumble/ are consumed from the end opposite to the producer (FIFO); the drained event is set where a connection\'s in-flight count reaches 0 or its state is discarded; the flow-control pipe writes each dequeued packet once with matching byte accounting; completion/disconnection events are wired to the queue. '
      'Not decided: accounting over whole histories with over-reported completions.',
      NOTE, 'DESIGN.md §3 C04')
claim('C07', 'static analysis: guard dominance + per-iteration effect counting (credits), slice-bound extraction (MPS/MTU), writer/reader agreement of the SDU header, table-key consistency, constructor slot binding',
      'Decided: every data frame is sent under `credits > 0` and consumes exactly one credit; a frame is out_sdu[:peer_mps], SDU payload chunks are cut to peer_mtu - len(payload), the 2-byte SDU length written is the one on_pdu reads and compares; the receiver returns peer_max_credits - peer_credits for its own source CID at/below the threshold and resets; on_credits adds and resumes; le_coc_channels is keyed by destination CID at all 4 inserts and looked up by the credit packet\'s CID; negotiated mtu/mps/credits flow into the right constructor parameters on both server paths and both client paths and equal what is announced to the peer. '
      'Not decided: byte-stream equality and progress for all write patterns.',
      NOTE, 'DESIGN.md §3 C07')
claim('C08', 'static analysis: bit-layout extraction parse vs serialise, modulus vs field width, single-writer and who-may-call rules for the transmit window, stride/slice agreement, flag-paired FCS accounting',
      'Decided: I-/S-frame control-field bit layouts agree between from_bytes and __bytes__ with no overlapping serialised fields; MAX_SEQ_NUM == 1 << width(tx_seq) == 1 << width(req_seq), one writer of the transmit sequence number, all sequence arithmetic mod MAX_SEQ_NUM; I-frames are sent only inside an islice bounded by peer_tx_window_size - len(_tx_window) and acknowledgements remove exactly the (bounded) acknowledged prefix; segmentation stride == slice width == peer_mps with SAR derived from offsets and the SDU-length field written/skipped only for START; FCS counted, appended and stripped under the same flag; both OPEN transitions resolve the connection result; mode mismatch aborts and disconnects. '
      'Not decided: exactly-once in-order delivery, wrap-around behaviour at run time.',
      NOTE, 'DESIGN.md §3 C08')
claim('C09', 'static analysis: insert-set vs remove-set per channel class (partial evaluation of on_channel_closed), per-connection table census, failure-path must-remove rule, identifier-keying rule, waiter census with teardown settle analysis, allocator/table agreement',
      'Decided: for each channel class the tables it is inserted into (extracted from 8 insert sites) are all removed by on_channel_closed on every path and with the key they were stored under; on_disconnection drops every per-connection table and aborts all channels; failed create_* coroutines remove what they registered; every identifier-keyed table access also carries the connection handle; every bare await in l2cap.py is wrapped or settled by its owner\'s teardown on all paths; CID allocators scan the table they insert into and ranges equal the specification; every transition to a closed state is paired with removal. '
      'Not decided: exactness of tables after arbitrary histories.',
      NOTE, 'DESIGN.md §3 C09')

for pid in ['C01', 'C02', 'C05', 'C06', 'C10', 'C11', 'C12', 'C13', 'C14', 'C15', 'C16', 'C17', 'C18', 'C19', 'C20']:
    NOT_APPLICABLE[pid] = 'check not built yet in this session (work in progress; see DESIGN.md §3 for the clauses that will be decided statically)'
