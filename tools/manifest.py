#!/venv/bin/python
"""Regenerate /verif/MANIFEST.json from the table below and validate it."""
import importlib
import json
import os
import subprocess
import sys

VERIF = os.path.dirname(os.path.dirname(os.path.abspath(__file__)))
sys.path.insert(0, VERIF)

BASELINE_OFF = 'cd /repo && /venv/bin/python -m pytest -ra -q -p no:cacheprovider --timeout=900 --continue-on-collection-errors'

# property -> (technique, level text, level note, design ref)
CLAIMS = {}
NOT_APPLICABLE = {}


def claim(pid, technique, text, note, ref):
    CLAIMS[pid] = (technique, text, note, ref)


def load():
    from tools import claims  # noqa: F401  (fills CLAIMS / NOT_APPLICABLE)


def main():
    import tools.manifest as M

    M.load()
    CLAIMS, NOT_APPLICABLE = M.CLAIMS, M.NOT_APPLICABLE
    checks = []
    for pid in sorted(CLAIMS):
        technique, text, note, ref = CLAIMS[pid]
        mod = importlib.import_module(f'sa.props.{pid.lower()}')
        text = text + ' Rules armed (each explained in evidence coverage.explanation and RULES.md): ' + ', '.join(r for r, _ in mod.RULES) + '.'
        checks.append({
            'property_id': pid,
            'quick_cmd': f'/venv/bin/python -m sa.check {pid} --tier quick',
            'thorough_cmd': f'/venv/bin/python -m sa.check {pid} --tier thorough',
            'evidence_file': f'/verif/evidence/{pid}.json',
            'replay_cmd_template': '/venv/bin/python -m sa.check --explain {path}',
            'engine': 'sa',
            'level_claimed': {'category': 'other', 'text': text, 'design_ref': ref},
            'level_note': note,
            'technique': technique,
        })
    na = [{'property_id': k, 'reason': v} for k, v in sorted(NOT_APPLICABLE.items()) if k not in CLAIMS]
    m = {
        'version': 1,
        'setup_cmd': "/venv/bin/python -c \"import ast, sys; assert sys.version_info >= (3, 10); print('sa: stdlib-only static analyser, nothing to build')\"",
        'hooks': {
            'guard': 'GOOGLE_BUMBLE_VERIF',
            'enable': 'no hooks: the analysis reads source text; GOOGLE_BUMBLE_VERIF is not consulted by any code in /repo',
            'baseline_off_cmd': BASELINE_OFF,
            'source_commits': [],
            'add_only': True,
        },
        'engines': [
            {'name': 'sa', 'path': '/verif/sa', 'serves_properties': sorted(CLAIMS),
             'kind_free_text': 'repository-specific static analyser on stdlib ast: program model, call/registry resolution, syntax-directed abstract interpreter (counting / typestate / guard domains), bit-layout and struct-format extraction, field-spec evaluator, table and def-use rules'},
        ],
        'checks': checks,
        'not_applicable': na,
        'notes': 'Every check decides structural necessary conditions of its property from /repo\'s current source (no execution, no solver); level_claimed.text states which clauses are decided and which are not. See DESIGN.md and RULES.md. Genuine defects found are either repaired in /repo ("fix:" commits) or listed in known_findings.json.',
    }
    with open(os.path.join(VERIF, 'MANIFEST.json'), 'w') as f:
        json.dump(m, f, indent=1)
        f.write('\n')
    r = subprocess.run(['python3-vt', '-c', '''
import json, jsonschema, sys
m = json.load(open("/verif/MANIFEST.json"))
s = json.load(open("/root/.vp/MANIFEST.schema.json"))
jsonschema.validate(m, s)
print("MANIFEST.json valid:", len(m["checks"]), "checks,", len(m.get("not_applicable", [])), "not applicable")
'''])
    return r.returncode


if __name__ == '__main__':
    sys.exit(main())
