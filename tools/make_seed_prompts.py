#!/venv/bin/python
"""Write the prompt files for a round of seeding agents: tools/make_seed_prompts.py <round> <workdir>
(e.g. 11 /tmp/wt11 -> <workdir>/prompts/Cxx.txt, seeds named Cxx_<2r-1> / Cxx_<2r>).  The agents get the property JSON, their
own scratch worktree and the list of sites earlier rounds explored (from seeded/*/meta.json and the patch hunk headers) -
nothing else of /verif."""
import glob, json, os, re, sys

rnd, wd = int(sys.argv[1]), sys.argv[2]
VERIF = os.path.dirname(os.path.dirname(os.path.abspath(__file__)))
os.makedirs(f'{wd}/props', exist_ok=True)
os.makedirs(f'{wd}/prompts', exist_ok=True)
os.makedirs(f'{wd}/out', exist_ok=True)
for l in open(f'{VERIF}/properties.jsonl'):
    d = json.loads(l)
    json.dump(d, open(f"{wd}/props/{d['id']}.json", 'w'), indent=1)


def enclosing(patch):
    out, f = [], None
    for l in patch.splitlines():
        if l.startswith('+++ b/'):
            f = l[6:]
        m = re.match(r'@@ [^@]*@@ ?(.*)', l)
        if m and f:
            out.append((f, m.group(1).strip()))
    return out


KINDS = open(f'{VERIF}/tools/seed_kinds.txt').read().strip()
LEFT = open(f'{VERIF}/tools/seed_left.txt').read().strip()
for pf in sorted(os.listdir(f'{wd}/props')):
    pid = pf[:-5]
    explored = []
    for d in sorted(glob.glob(f'{VERIF}/seeded/{pid}_*')):
        sid = os.path.basename(d)
        if '_F' in sid:
            continue
        try:
            meta = json.load(open(d + '/meta.json'))
        except Exception:
            continue
        summ = (meta.get('summary') or '').replace('\n', ' ')[:170]
        enc = enclosing(open(d + '/patch.diff').read())
        f, c = enc[0] if enc else ('?', '?')
        explored.append(f'  - {f} [{c}] {summ}')
    n1, n2 = f'{pid}_{2 * rnd - 1}', f'{pid}_{2 * rnd}'
    text = open(f'{VERIF}/tools/seed_prompt.tmpl').read().format(pid=pid, wd=wd, n1=n1, n2=n2, explored='\n'.join(explored), kinds=KINDS, left=LEFT, rounds=rnd - 1, ordinal=rnd)
    open(f'{wd}/prompts/{pid}.txt', 'w').write(text)
print('prompts written to', f'{wd}/prompts')
