#!/venv/bin/python
"""Behaviour-preserving whole-repository rewrites, to look for false alarms.

usage: tools/benign_stress.py <transform> [Cxx ...]
  transforms: return_temp | unparse | pass | flip_if | aug | swap_cmp | demorgan | rename | strip_ann | interleave | logcalls | all

A scratch copy of /repo (without .git) is rewritten under $TMPDIR, every check is run against it
(SA_REPO), and any VIOLATION / ANALYSIS-ERROR is printed.  The scratch copy is removed afterwards.
Not a registered check: a development aid (the rewrites keep behaviour, so every report is a false alarm
of the analyser, to be fixed in the rule).
"""
import ast
import os
import shutil
import subprocess
import sys
import tempfile

VERIF = os.path.dirname(os.path.dirname(os.path.abspath(__file__)))


class Pass(ast.NodeTransformer):
    def _f(self, node):
        self.generic_visit(node)
        i = 1 if node.body and isinstance(node.body[0], ast.Expr) and isinstance(node.body[0].value, ast.Constant) and isinstance(node.body[0].value.value, str) else 0
        node.body.insert(i, ast.Pass())
        return node
    visit_FunctionDef = _f
    visit_AsyncFunctionDef = _f


class FlipIf(ast.NodeTransformer):
    """if c: A else: B  ->  if not c: B else: A   (plain if/else only, no elif chains)"""

    def visit_If(self, node):
        self.generic_visit(node)
        if node.orelse and not (len(node.orelse) == 1 and isinstance(node.orelse[0], ast.If)):
            # do not touch `if` that is itself an elif arm of its parent: handled by the parent test above
            node.test, node.body, node.orelse = ast.UnaryOp(op=ast.Not(), operand=node.test), node.orelse, node.body
        return node

    def visit_IfExp(self, node):
        self.generic_visit(node)
        node.test, node.body, node.orelse = ast.UnaryOp(op=ast.Not(), operand=node.test), node.orelse, node.body
        return node


class Aug(ast.NodeTransformer):
    """x += e -> x = x + e   (simple name / attribute targets; evaluation order unchanged)"""

    def visit_AugAssign(self, node):
        self.generic_visit(node)
        if isinstance(node.target, (ast.Name, ast.Attribute)) and not isinstance(node.op, (ast.MatMult,)):
            import copy
            load = copy.deepcopy(node.target)
            for n in ast.walk(load):
                if hasattr(n, 'ctx'):
                    n.ctx = ast.Load()
            return ast.Assign(targets=[node.target], value=ast.BinOp(left=load, op=node.op, right=node.value), lineno=node.lineno)
        return node


SWAP = {ast.Lt: ast.Gt, ast.Gt: ast.Lt, ast.LtE: ast.GtE, ast.GtE: ast.LtE, ast.Eq: ast.Eq, ast.NotEq: ast.NotEq}


class SwapCmp(ast.NodeTransformer):
    """a < b -> b > a, a == b -> b == a  (both operands free of calls, so evaluation order is irrelevant)"""

    def visit_Compare(self, node):
        self.generic_visit(node)
        if len(node.ops) == 1 and type(node.ops[0]) in SWAP and not any(isinstance(x, (ast.Call, ast.Await, ast.NamedExpr)) for x in ast.walk(node)):
            return ast.Compare(left=node.comparators[0], ops=[SWAP[type(node.ops[0])]()], comparators=[node.left])
        return node


class DeMorgan(ast.NodeTransformer):
    """`a and b` in an if-test -> not (not a or not b)"""

    def visit_If(self, node):
        self.generic_visit(node)
        t = node.test
        if isinstance(t, ast.BoolOp) and isinstance(t.op, ast.And):
            node.test = ast.UnaryOp(op=ast.Not(), operand=ast.BoolOp(op=ast.Or(), values=[ast.UnaryOp(op=ast.Not(), operand=v) for v in t.values]))
        return node


class RenameLocals(ast.NodeTransformer):
    """every local variable of every top-level function / method gets a new name (parameters, globals,
    nonlocals, attributes and keyword names untouched)"""

    def _f(self, node):
        # only outermost functions: nested ones share their enclosing function's renaming
        params = set()
        assigned = set()
        blocked = set()
        for n in ast.walk(node):
            if isinstance(n, (ast.FunctionDef, ast.AsyncFunctionDef, ast.Lambda)):
                a = n.args
                for x in a.posonlyargs + a.args + a.kwonlyargs + ([a.vararg] if a.vararg else []) + ([a.kwarg] if a.kwarg else []):
                    params.add(x.arg)
                if n is not node and not isinstance(n, ast.Lambda):
                    blocked.add(n.name)
            elif isinstance(n, (ast.Global, ast.Nonlocal)):
                blocked |= set(n.names)
            elif isinstance(n, ast.ClassDef):
                blocked.add(n.name)
                for x in ast.walk(n):
                    if isinstance(x, ast.Name) and isinstance(x.ctx, ast.Store):
                        blocked.add(x.id)
            elif isinstance(n, ast.Name) and isinstance(n.ctx, (ast.Store, ast.Del)):
                assigned.add(n.id)
            elif isinstance(n, (ast.Import, ast.ImportFrom)):
                for al in n.names:
                    blocked.add((al.asname or al.name).split('.')[0])
            elif isinstance(n, ast.ExceptHandler) and n.name:
                blocked.add(n.name)
            elif isinstance(n, ast.MatchAs) and n.name:
                blocked.add(n.name)
            elif isinstance(n, ast.MatchStar) and n.name:
                blocked.add(n.name)
            elif isinstance(n, ast.MatchMapping) and n.rest:
                blocked.add(n.rest)
        ren = {x for x in assigned if x not in params and x not in blocked and not (x.startswith('__') and x.endswith('__'))}
        for n in ast.walk(node):
            if isinstance(n, ast.Name) and n.id in ren:
                n.id = n.id + '_r'
        return node
    visit_FunctionDef = _f
    visit_AsyncFunctionDef = _f


class StripAnn(ast.NodeTransformer):
    """x: T = e -> x = e inside functions (and parameter / return annotations removed)"""

    def __init__(self):
        self.depth = 0

    def _f(self, node):
        self.depth += 1
        self.generic_visit(node)
        self.depth -= 1
        return node
    visit_FunctionDef = _f
    visit_AsyncFunctionDef = _f

    def visit_ClassDef(self, node):
        d, self.depth = self.depth, 0
        self.generic_visit(node)
        self.depth = d
        return node

    def visit_AnnAssign(self, node):
        self.generic_visit(node)
        if self.depth and node.value is not None:
            return ast.copy_location(ast.Assign(targets=[node.target], value=node.value), node)
        return node


class Interleave(ast.NodeTransformer):
    """a `pass` between any two statements of every block inside functions (as an added log line would sit)"""

    def __init__(self):
        self.depth = 0

    def _f(self, node):
        self.depth += 1
        self.generic_visit(node)
        self.depth -= 1
        return node
    visit_FunctionDef = _f
    visit_AsyncFunctionDef = _f

    def visit_ClassDef(self, node):
        d, self.depth = self.depth, 0
        self.generic_visit(node)
        self.depth = d
        return node

    def generic_visit(self, node):
        super().generic_visit(node)
        if self.depth and not isinstance(node, ast.ClassDef):
            for fld in ('body', 'orelse', 'finalbody'):
                blk = getattr(node, fld, None)
                if isinstance(blk, list) and len(blk) > 1 and all(isinstance(x, ast.stmt) for x in blk):
                    out = []
                    for i, st in enumerate(blk):
                        if i and not (i == 1 and isinstance(blk[0], ast.Expr) and isinstance(blk[0].value, ast.Constant)):
                            out.append(ast.Pass())
                        out.append(st)
                    setattr(node, fld, out)
        return node


class LogCalls(Interleave):
    """like interleave, with `logger.debug('trace')` instead of pass (modules that define `logger`)"""

    def generic_visit(self, node):
        super().generic_visit(node)
        for fld in ('body', 'orelse', 'finalbody'):
            blk = getattr(node, fld, None)
            if isinstance(blk, list):
                for i, st in enumerate(blk):
                    if isinstance(st, ast.Pass) and len(blk) > 1:
                        blk[i] = ast.Expr(value=ast.Call(func=ast.Attribute(value=ast.Name(id='logger', ctx=ast.Load()), attr='debug', ctx=ast.Load()), args=[ast.Constant('trace')], keywords=[]))
        return node


class ReturnTemp(ast.NodeTransformer):
    """return <expr>  ->  _ret = <expr>; return _ret   (expr not a plain name / constant; not in lambdas)"""

    def _f(self, node):
        self.generic_visit(node)
        return node
    visit_FunctionDef = _f
    visit_AsyncFunctionDef = _f

    def generic_visit(self, node):
        super().generic_visit(node)
        for fld in ('body', 'orelse', 'finalbody'):
            blk = getattr(node, fld, None)
            if isinstance(blk, list) and all(isinstance(x, ast.stmt) for x in blk):
                out = []
                for st in blk:
                    if isinstance(st, ast.Return) and st.value is not None and not isinstance(st.value, (ast.Name, ast.Constant)):
                        out.append(ast.Assign(targets=[ast.Name(id='_ret', ctx=ast.Store())], value=st.value, lineno=st.lineno))
                        out.append(ast.Return(value=ast.Name(id='_ret', ctx=ast.Load())))
                    else:
                        out.append(st)
                setattr(node, fld, out)
        return node


TRANSFORMS = {'unparse': None, 'interleave': Interleave, 'logcalls': LogCalls, 'rename': RenameLocals, 'strip_ann': StripAnn, 'pass': Pass, 'flip_if': FlipIf, 'aug': Aug, 'swap_cmp': SwapCmp, 'demorgan': DeMorgan, 'return_temp': ReturnTemp}


def run(name, props):
    tmp = tempfile.mkdtemp(prefix=f'benign_{name}_')
    try:
        subprocess.run(['rsync', '-a', '--exclude', '.git', '/repo/', tmp + '/'], check=True)
        n = 0
        for root, _, files in os.walk(os.path.join(tmp, 'bumble')):
            for f in files:
                if f.endswith('.py'):
                    path = os.path.join(root, f)
                    tree = ast.parse(open(path).read())
                    if TRANSFORMS[name] is not None:
                        tree = TRANSFORMS[name]().visit(tree)
                        ast.fix_missing_locations(tree)
                    out = ast.unparse(tree)
                    compile(out, path, 'exec')
                    open(path, 'w').write(out + '\n')
                    n += 1
        alarms = 0
        for pid in props:
            env = dict(os.environ, SA_REPO=tmp, SA_EVIDENCE_DIR=os.path.join(tmp, '_ev'))
            c = subprocess.run(['/venv/bin/python', '-m', 'sa.check', pid], cwd=VERIF, capture_output=True, text=True, env=env)
            lines = c.stdout.splitlines()
            for i, line in enumerate(lines):
                if line.startswith('VIOLATION') and i + 1 < len(lines):
                    print(f'[{name}] {lines[i + 1].strip()[:300]}')
                    alarms += 1
                if line.startswith('ANALYSIS-ERROR'):
                    print(f'[{name}] {pid} {line[:300]}')
                    alarms += 1
        print(f'[{name}] {n} files rewritten, {len(props)} checks, {alarms} alarm(s)')
        return alarms
    finally:
        shutil.rmtree(tmp, ignore_errors=True)


if __name__ == '__main__':
    which = sys.argv[1] if len(sys.argv) > 1 else 'all'
    props = sys.argv[2:] or [f'C{i:02d}' for i in range(1, 21)]
    names = list(TRANSFORMS) if which == 'all' else [which]
    total = sum(run(n, props) for n in names)
    sys.exit(1 if total else 0)
