#!/bin/sh
# run every claimed check once (quick tier); prints one line per property
cd /verif
for i in 01 02 03 04 05 06 07 08 09 10 11 12 13 14 15 16 17 18 19 20; do
  [ -f sa/props/c$i.py ] && /venv/bin/python -m sa.check C$i | tail -1
done
