#!/venv/bin/python
"""Write controls/alpha.json: per function of /repo's bumble package, the alpha-hash of its canonical AST
and its local names in first-binding order (see sa/alpha.py).  Re-run after every accepted change to /repo."""
import ast, json, os, sys
VERIF = os.path.dirname(os.path.dirname(os.path.abspath(__file__)))
sys.path.insert(0, VERIF)
from sa import alpha, normalize

root = os.environ.get('SA_REPO', '/repo')
out = {}
for dirpath, dirnames, files in os.walk(os.path.join(root, 'bumble')):
    dirnames[:] = sorted(d for d in dirnames if d != '__pycache__')
    for f in sorted(files):
        if not f.endswith('.py'):
            continue
        path = os.path.join(dirpath, f)
        rel = os.path.relpath(path, root)
        name = rel[:-3].replace(os.sep, '.')
        if name.endswith('.__init__'):
            name = name[:-9]
        tree = normalize.canonical(ast.parse(open(path).read()))
        seen = {}
        for q, fn in alpha.functions(tree, name):
            k = seen.get(q, 0)
            seen[q] = k + 1
            h, names = alpha.signature(fn)
            if names:
                out[q if k == 0 else f'{q}#{k}'] = {'h': h, 'n': names}
os.makedirs(os.path.join(VERIF, 'controls'), exist_ok=True)
json.dump(out, open(alpha.REF_PATH, 'w'), separators=(',', ':'), sort_keys=True)
print(len(out), 'functions with locals recorded in', alpha.REF_PATH)
