#!/venv/bin/python
"""Parallel seed table: each worker owns a scratch worktree of /repo HEAD under /tmp/sw/<n>, applies one seeded patch there,
runs the property's quick check against that tree (SA_REPO), undoes the patch.  /repo itself is never touched.
Usage: tools/run_seeds_par.py [-j N] [seed ids...]   (no ids = whole table)."""
import json, os, subprocess, sys, shutil
from concurrent.futures import ThreadPoolExecutor
import queue

VERIF = os.path.dirname(os.path.dirname(os.path.abspath(__file__)))


def sh(cmd, **kw):
    return subprocess.run(cmd, shell=True, capture_output=True, text=True, **kw)


def main():
    args = sys.argv[1:]
    jobs = 8
    if args[:1] == ['-j']:
        jobs = int(args[1]); args = args[2:]
    ids = args or sorted(os.listdir(os.path.join(VERIF, 'seeded')))
    ids = [i for i in ids if os.path.exists(os.path.join(VERIF, 'seeded', i, 'patch.diff'))]
    pool = queue.Queue()
    for n in range(jobs):
        wt = f'/tmp/sw/{n}'
        sh(f'git -C /repo worktree remove --force {wt}')
        r = sh(f'git -C /repo worktree add -q --detach {wt} HEAD')
        assert r.returncode == 0, r.stderr
        # the working tree of /repo may hold uncommitted fixes being developed: the table always runs on HEAD
        pool.put(wt)

    def one(sid):
        wt = pool.get()
        try:
            d = os.path.join(VERIF, 'seeded', sid)
            prop = sid.split('_')[0]
            mp = os.path.join(d, 'meta.json')
            meta = json.load(open(mp)) if os.path.exists(mp) else {}
            r = sh(f'git -C {wt} apply {d}/patch.diff 2>/dev/null || git -C {wt} apply --3way {d}/patch.diff')
            if r.returncode != 0:
                sh(f'git -C {wt} reset -q; git -C {wt} checkout -- .')
                return sid, 'PATCH-DOES-NOT-APPLY', [r.stderr[-120:]]
            fired = []
            try:
                for pr in meta.get('check_with', [prop]):
                    env = dict(os.environ, SA_REPO=wt, SA_EVIDENCE_DIR=f'/tmp/sw/ev{os.path.basename(wt)}')
                    c = subprocess.run(['/venv/bin/python', '-m', 'sa.check', pr, '--tier', 'quick'], cwd=VERIF, capture_output=True, text=True, env=env)
                    lines = c.stdout.splitlines()
                    for i, l in enumerate(lines):
                        if l.startswith('VIOLATION') and i + 1 < len(lines):
                            fired.append(lines[i + 1].strip()[:150])
                    if c.returncode == 2:
                        fired.append('ANALYSIS-ERROR ' + c.stdout[-200:])
            finally:
                sh(f'git -C {wt} reset -q; git -C {wt} checkout -- .')
            verdict = 'ANALYSIS-ERROR' if any(f.startswith('ANALYSIS-ERROR') for f in fired) else ('DETECTED' if fired else 'missed')
            meta['detected_by'] = fired
            if os.path.exists(mp):
                json.dump(meta, open(mp, 'w'), indent=1)
            return sid, verdict, fired
        finally:
            pool.put(wt)
    bad = 0
    with ThreadPoolExecutor(jobs) as ex:
        for sid, verdict, fired in ex.map(one, ids):
            if verdict != 'DETECTED':
                bad += 1
            print(sid, verdict, '|', ' || '.join(fired[:2]), flush=True)
    for n in range(jobs):
        sh(f'git -C /repo worktree remove --force /tmp/sw/{n}')
    shutil.rmtree('/tmp/sw', ignore_errors=True)
    sh('git -C /repo worktree prune')
    print(f'{len(ids)} seeds, {bad} not detected')
    return 1 if bad else 0


if __name__ == '__main__':
    sys.exit(main())
