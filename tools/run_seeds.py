#!/venv/bin/python
"""Apply each seeded change to /repo, run the property's quick check, undo it. Prints a detection table."""
import json, os, subprocess, sys

VERIF = os.path.dirname(os.path.dirname(os.path.abspath(__file__)))


def main():
    ids = sys.argv[1:] or sorted(os.listdir(os.path.join(VERIF, 'seeded')))
    assert subprocess.run(['git', '-C', '/repo', 'status', '--porcelain', '--untracked-files=no'], capture_output=True, text=True).stdout.strip() == '', '/repo not clean'
    for sid in ids:
        d = os.path.join(VERIF, 'seeded', sid)
        if not os.path.exists(os.path.join(d, 'patch.diff')):
            continue
        prop = sid.split('_')[0]
        meta = json.load(open(os.path.join(d, 'meta.json'))) if os.path.exists(os.path.join(d, 'meta.json')) else {}
        props = meta.get('check_with', [prop])
        r = subprocess.run(f'git -C /repo apply {d}/patch.diff 2>/dev/null || git -C /repo apply --3way {d}/patch.diff', shell=True, capture_output=True, text=True)
        if r.returncode != 0:
            print(sid, 'PATCH-DOES-NOT-APPLY', r.stderr[-200:])
            subprocess.run('git -C /repo reset -q ; git -C /repo checkout -- .', shell=True)
            continue
        try:
            fired = []
            for pr in props:
                env = dict(os.environ, SA_EVIDENCE_DIR='/tmp/sa_seed_evidence')
                c = subprocess.run(['/venv/bin/python', '-m', 'sa.check', pr, '--tier', 'quick'], cwd=VERIF, capture_output=True, text=True, env=env)
                lines = c.stdout.splitlines()
                for i, l in enumerate(lines):
                    if l.startswith('VIOLATION') and i + 1 < len(lines):
                        fired.append(lines[i + 1].strip()[:150])
                if c.returncode == 2:
                    fired.append('ANALYSIS-ERROR ' + c.stdout[-200:])
            verdict = 'ANALYSIS-ERROR' if any(f.startswith('ANALYSIS-ERROR') for f in fired) else ('DETECTED' if fired else 'missed')
            print(sid, verdict, '|', ' || '.join(fired[:3]))
            meta['detected_by'] = fired
            if os.path.exists(os.path.join(d, 'meta.json')):
                json.dump(meta, open(os.path.join(d, 'meta.json'), 'w'), indent=1)
        finally:
            subprocess.run('git -C /repo reset -q ; git -C /repo checkout -- .', shell=True)


if __name__ == '__main__':
    main()
