import asyncio
from bumble import controller, hci, link
class Sink:
    def __init__(self): self.pk=[]
    def on_packet(self,p): self.pk.append(hci.HCI_Packet.from_bytes(p))
async def main():
    s=Sink()
    c=controller.Controller('C', host_sink=s, link=link.LocalLink())
    for cmd in [hci.HCI_Reset_Command(), hci.HCI_Inquiry_Command(lap=0x9E8B33, inquiry_length=1, num_responses=0),
                hci.HCI_LE_Read_Local_P_256_Public_Key_Command(),
                hci.HCI_Command(b'', op_code=0xFCFF),
                hci.HCI_Disconnect_Command(connection_handle=0x123, reason=0x13),
                hci.HCI_LE_Create_Connection_Cancel_Command()]:
        n=len(s.pk)
        c.on_packet(bytes(cmd))
        await asyncio.sleep(0.01)
        print(cmd.name, '->', [type(p).__name__ for p in s.pk[n:]])
asyncio.run(main())
