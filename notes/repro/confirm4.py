import asyncio, logging, sys
sys.path.insert(0,'/repo')
logging.disable(logging.CRITICAL)
from tests.test_utils import TwoDevices, Devices, async_barrier
from bumble import l2cap, att, gatt, hci, core, device as dev_mod, avdtp, avctp, rfcomm, crypto
from bumble.crypto import builtin
from bumble.transport.common import PacketParser, StreamPacketSource

async def c06_public():
    d=TwoDevices()
    for dev in d.devices: await dev.power_on()
    await d[1].start_advertising(advertising_interval_min=1.0)
    got=[]
    try:
        conn=await asyncio.wait_for(d[0].connect(d[1].random_address, own_address_type=hci.OwnAddressType.PUBLIC),3)
    except Exception as e:
        print('C06 connect public failed', repr(e)); return
    await async_barrier()
    c1=d.connections.get(1)
    d[1].l2cap_channel_manager.register_fixed_channel(0x3F, lambda h,p: got.append(p))
    conn.send_l2cap_pdu(0x3F, b'hello')
    await asyncio.sleep(0.05)
    print('C06 public-address central -> peripheral fixed channel got', got, 'peer sees', c1.peer_address if c1 else None)

def c14():
    k=builtin.EccKey.generate()
    try:
        s=k.dh((5).to_bytes(32,'big'), (7).to_bytes(32,'big'))
        print('C14 builtin accepted off-curve point, secret', s.hex()[:16])
    except Exception as e: print('C14 builtin rejected', repr(e))
    try:
        from bumble.crypto import cryptography as cg
        k2=cg.EccKey.generate(); k2.dh((5).to_bytes(32,'big'), (7).to_bytes(32,'big'))
        print('C14 cryptography accepted')
    except Exception as e: print('C14 cryptography rejected', type(e).__name__)

def c02():
    class S:
        def __init__(self): self.p=[]
        def on_packet(self,p): self.p.append(p)
    # emulate tcp server: shared source, two clients
    import bumble.transport.tcp_server as ts
    src=None
    async def run():
        s=S()
        source=StreamPacketSource(); source.set_packet_sink(s)
        source.data_received(bytes([0x04,0x0e,0x04,0x01]))  # client 1 cut mid-packet
        # client 2 connects: nothing resets in TcpServerProtocol.connection_made
        source.data_received(bytes([0x04,0x0e,0x04,0x01,0x03,0x0c,0x00]))
        print('C02 packets after reconnect', [p.hex() for p in s.p])
    asyncio.run(run())

def c19_avdtp():
    out=[]
    class Ch: 
        peer_mtu=48
        def write(self,b): out.append(bytes(b))
    class M:
        message_type=0; signal_identifier=1
        def __init__(self,n): self.payload=bytes(range(n))
        def __str__(self): return 'M'
    p=avdtp.Protocol.__new__(avdtp.Protocol); p.l2cap_channel=Ch()
    got=[]
    asm=avdtp.MessageAssembler(lambda label,msg: got.append(msg))
    import unittest.mock as mock
    for n in (45,46,47):
        out.clear()
        avdtp.Protocol.send_message(p,3,M(n))
        print('C19 avdtp payload',n,'-> packets',[ (len(x), (x[0]>>2)&3) for x in out])

def c19_avctp():
    got=[]
    asm=avctp.MessageAssembler(lambda *a: got.append(a))
    # START (pt=1) count=2 pid=0x110e payload 'ab'; END (pt=3) payload 'cdef' (no pid per spec)
    asm.on_pdu(bytes([0x10|(1<<2), 2, 0x11,0x0e])+b'ab')
    asm.on_pdu(bytes([0x10|(3<<2)])+b'cdef')
    print('C19 avctp reassembled', got)

def c17_hfp():
    from bumble import hfp
    class FakeDlc:
        sink=None
        class multiplexer:
            class l2cap_channel:
                EVENT_CLOSE='close'
                @staticmethod
                def on(*a): pass
        def write(self,d): self.out.append(d)
        out=[]
    dlc=FakeDlc()
    async def run():
        ag=hfp.AgProtocol(dlc, hfp.AgConfiguration(supported_ag_features=[], supported_ag_indicators=[], supported_hf_indicators=[], supported_ag_call_hold_operations=[], supported_audio_codecs=[hfp.AudioCodec.CVSD]))
        for line in (b'AT+"\r', b'AT+CMEE=1\r'):
            try: ag._read_at(line)
            except Exception as e: print('  C17 AG raised', type(e).__name__)
        print('C17 AG buffer after bad line then good line:', bytes(ag.read_buffer), 'replies', dlc.out)
    asyncio.run(run())

asyncio.run(c06_public())
c14(); c02(); c19_avdtp(); c19_avctp(); c17_hfp()
