import asyncio, logging, sys
sys.path.insert(0,'/repo')
logging.disable(logging.CRITICAL)
from tests.test_utils import TwoDevices, Devices, async_barrier
from bumble import l2cap, att, gatt, hci, core, device as dev_mod, rfcomm
from bumble.gatt import Service, Characteristic
from bumble.att import Attribute

async def c16_transport():
    d=TwoDevices()
    ch=Characteristic('11111111-1111-1111-1111-111111111111', Characteristic.Properties.NOTIFY|Characteristic.Properties.READ, Attribute.READABLE, b'v')
    d[1].add_service(Service('33333333-3333-3333-3333-333333333333',[ch]))
    await d.setup_connection()
    peer=dev_mod.Peer(d.connections[0]); await peer.discover_services(); await peer.discover_characteristics()
    c=peer.get_characteristics_by_uuid(ch.uuid)[0]; await c.subscribe(lambda v: None)
    d[1].create_l2cap_server(l2cap.LeCreditBasedChannelSpec(psm=0x81))
    await d.connections[0].create_l2cap_channel(l2cap.LeCreditBasedChannelSpec(psm=0x81))
    dev=d[1]
    dev.host.on_transport_lost()
    await asyncio.sleep(0.05)
    print('C16 after transport loss on device1: device.connections', dict(dev.connections), 'host.connections', list(dev.host.connections),
          'gatt subscribers', len(dev.gatt_server.subscribers), 'l2cap channels', {k:list(v) for k,v in dev.l2cap_channel_manager.channels.items()},
          'queue state', dict(dev.host.le_acl_packet_queue._connection_state))

async def c03_block():
    d=TwoDevices()
    for dev in d.devices: await dev.power_on()
    h=d[0].host
    t=asyncio.create_task(h.send_async_command(hci.HCI_Inquiry_Command(lap=0x9E8B33, inquiry_length=1, num_responses=0), check_status=False))
    await asyncio.sleep(0.05)
    try:
        await asyncio.wait_for(h.send_sync_command(hci.HCI_Read_BD_ADDR_Command()),1)
        print('C03 later command ok')
    except asyncio.TimeoutError:
        print('C03 later command BLOCKED behind unanswered Inquiry; first task done?', t.done())
    t.cancel()

async def c20_disc():
    from tests.rfcomm_test import test_connection_and_disconnection  # just to check the module imports
asyncio.run(c16_transport()); asyncio.run(c03_block())
