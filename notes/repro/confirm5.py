import asyncio, logging, sys
sys.path.insert(0,'/repo')
logging.disable(logging.CRITICAL)
from tests.test_utils import TwoDevices, Devices, async_barrier
from bumble import l2cap, att, gatt, hci, core, device as dev_mod, rfcomm, smp, pairing, keys as keys_mod
from bumble.gatt import Service, Characteristic
from bumble.att import Attribute

async def c12_indicate():
    d=TwoDevices()
    ch=Characteristic('11111111-1111-1111-1111-111111111111', Characteristic.Properties.INDICATE|Characteristic.Properties.READ, Attribute.READABLE, b'v')
    d[1].add_service(Service('33333333-3333-3333-3333-333333333333',[ch]))
    await d.setup_connection()
    seen=[]
    orig=d[1].gatt_server.send_gatt_pdu
    d[1].gatt_server.send_gatt_pdu=lambda bearer,pdu:(seen.append(att.ATT_PDU.from_bytes(pdu).name), orig(bearer,pdu))
    await asyncio.wait_for(d[1].gatt_server.indicate_subscriber(d.connections[1], ch, b'x', force=True),2)
    print('C12 indicate_subscriber(force) sent', seen)

async def c13_ltk():
    d=TwoDevices()
    for dev in d.devices:
        dev.keystore=keys_mod.MemoryKeyStore()
        dev.pairing_config_factory=lambda c: pairing.PairingConfig(sc=False, mitm=False, bonding=True)
    await d.setup_connection()
    await asyncio.wait_for(d[0].pair(d.connections[0]),5)
    await asyncio.sleep(0.1)
    k0=await d[0].keystore.get_all(); k1=await d[1].keystore.get_all()
    kc=k0[0][1]; kp=k1[0][1]
    central_uses=(kc.ltk_central.value.hex(), kc.ltk_central.ediv, kc.ltk_central.rand.hex())
    # what peripheral would answer after reconnection (no session): role PERIPHERAL
    print('C13 central would use', central_uses)
    print('C13 peripheral store: ltk_central', kp.ltk_central.value.hex(), kp.ltk_central.ediv, ' ltk_peripheral', kp.ltk_peripheral.value.hex(), kp.ltk_peripheral.ediv)
    # simulate: drop sessions then ask
    d[1].smp_manager.sessions.clear()
    ans=await d[1].get_long_term_key(d.connections[1].handle, kc.ltk_central.rand, kc.ltk_central.ediv)
    print('C13 peripheral answers', ans.hex() if ans else None, 'match' if ans and ans.hex()==central_uses[0] else 'MISMATCH')

async def c16_eatt():
    d=TwoDevices()
    ch=Characteristic('11111111-1111-1111-1111-111111111111', Characteristic.Properties.NOTIFY|Characteristic.Properties.READ, Attribute.READABLE, b'v')
    d[1].add_service(Service('33333333-3333-3333-3333-333333333333',[ch]))
    await d.setup_connection()
    d[1].gatt_server.register_eatt()
    from bumble.gatt_client import Client
    client=await Client.connect_eatt(d.connections[0])
    await client.discover_services(); 
    for s in client.services: await s.discover_characteristics()
    c=client.get_characteristics_by_uuid(ch.uuid)[0]
    await c.subscribe(lambda v: None)
    print('C16 subscribers before', [type(k).__name__ for k in d[1].gatt_server.subscribers])
    await d.connections[0].disconnect()
    await asyncio.sleep(0.1)
    print('C16 subscribers after disconnect', [type(k).__name__ for k in d[1].gatt_server.subscribers], 'l2cap tables', d[1].l2cap_channel_manager.channels, d[1].l2cap_channel_manager.le_coc_channels)

async def c06_incoming():
    d=Devices(3)
    for dev in d.devices: await dev.power_on()
    # device0 advertises (peripheral) and at the same time tries to connect to absent address; device1 connects to device0
    await d[0].start_advertising(advertising_interval_min=1.0)
    t=asyncio.create_task(d[0].connect(hci.Address('AA:AA:AA:AA:AA:AA'), timeout=2))
    await asyncio.sleep(0.05)
    await d[1].connect(d[0].random_address)
    try:
        conn=await asyncio.wait_for(t,3)
        print('C06 connect_le to AA:.. returned', conn.peer_address, conn.role_name)
    except Exception as e: print('C06 connect_le raised', repr(e))

for f in (c12_indicate,c13_ltk,c16_eatt,c06_incoming):
    try: asyncio.run(f())
    except Exception as e:
        import traceback; print(f.__name__,'ERR',repr(e)); traceback.print_exc(limit=3)
