import asyncio, logging, sys
sys.path.insert(0,'/repo')
logging.disable(logging.CRITICAL)
from tests.test_utils import TwoDevices, Devices, async_barrier
from bumble import l2cap, att, gatt, hci, core, device as dev_mod
from bumble.gatt import Service, Characteristic
from bumble.att import Attribute

async def c09_c07():
    d=await TwoDevices.create_with_connection()
    srv_chans=[]
    d[1].create_l2cap_server(l2cap.LeCreditBasedChannelSpec(psm=0x81), handler=srv_chans.append)
    c0=d.connections[0]
    ch=await c0.create_l2cap_channel(l2cap.LeCreditBasedChannelSpec(psm=0x81))
    await ch.disconnect()
    await async_barrier()
    m0=d[0].l2cap_channel_manager; m1=d[1].l2cap_channel_manager
    print('C09 after close: client tables', {k:dict(v) for k,v in m0.channels.items()}, {k:dict(v) for k,v in m0.le_coc_channels.items()})
    print('C09 after close: server tables', {k:dict(v) for k,v in m1.channels.items()}, {k:dict(v) for k,v in m1.le_coc_channels.items()})
    try:
        ch2=await asyncio.wait_for(c0.create_l2cap_channel(l2cap.LeCreditBasedChannelSpec(psm=0x81)),2)
        print('C09 reopen ok', ch2)
    except Exception as e:
        print('C09 reopen FAILED', repr(e))

async def c10_c11():
    d=TwoDevices()
    secret=Characteristic('11111111-1111-1111-1111-111111111111', Characteristic.Properties.READ,
                          Attribute.READABLE|Attribute.READ_REQUIRES_ENCRYPTION, b'secret')
    hidden=Characteristic('22222222-2222-2222-2222-222222222222', Characteristic.Properties.WRITE,
                          Attribute.Permissions(0), b'hidden-value')
    d[1].add_service(Service('33333333-3333-3333-3333-333333333333',[secret,hidden]))
    await d.setup_connection()
    peer=dev_mod.Peer(d.connections[0])
    client=peer.gatt_client
    # C11: read attribute that is not READABLE
    try:
        v=await asyncio.wait_for(client.read_value(hidden.handle),2)
        print('C11 read of non-readable attribute returned', v)
    except Exception as e: print('C11 read refused', repr(e))
    try:
        await asyncio.wait_for(client.write_value(secret.handle, b'x', with_response=True),2)
        print('C11 write to non-writeable attribute accepted; value now', secret.value)
    except Exception as e: print('C11 write refused', repr(e))
    # C10: read multiple including protected attribute
    try:
        r=await asyncio.wait_for(client.send_request(att.ATT_Read_Multiple_Request(set_of_handles=[hidden.handle, secret.handle])),2)
        print('C10 read multiple response', r)
    except Exception as e: print('C10 read multiple: NO RESPONSE', repr(e))

asyncio.run(c09_c07())
asyncio.run(c10_c11())
