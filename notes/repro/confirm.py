import asyncio, collections
from bumble import utils, l2cap, core, host, hci, rfcomm, sdp
# 1 pipe
async def t1():
    out=[]
    p=utils.FlowControlAsyncPipe(lambda:None, lambda:None, write_to_sink=out.append, threshold=100)
    for i in range(4): p.write(bytes([i]))
    p.start()
    await asyncio.sleep(0.05)
    p.stop()
    print('1 pipe order', out)
asyncio.run(t1())
# 2 poll bit
f=l2cap.SupervisoryEnhancedControlField(supervision_function=0, poll=1, req_seq=3, final=0)
g=l2cap.EnhancedControlField.from_bytes(bytes(f))
print('2 sframe', f, g)
# 3 uuid width
u16=core.UUID.from_16_bits(0x180F)
full=bytes(core.UUID('0000180F-0000-1000-8000-00805F9B34FB'))
p=core.UUID.from_bytes(full)
print('3 uuid', len(full), len(bytes(p)))
# 4 flush stall
sent=[]
q=host.DataPacketQueue(max_packet_size=27, max_in_flight=2, send=sent.append)
q.enqueue('a1',1); q.enqueue('a2',1); q.enqueue('b1',2)
q.flush(1)
print('4 after flush sent=',sent,'in_flight',q._in_flight,'waiting',len(q._packets))
# 5 rfcomm uih credits
fr=rfcomm.RFCOMM_Frame.uih(c_r=1, dlci=2, information=bytes([5])+bytes(127), p_f=1)
b=bytes(fr); fr2=rfcomm.RFCOMM_Frame.from_bytes(b)
print('5 rfcomm roundtrip equal', bytes(fr2)==b, len(b), len(bytes(fr2)))
# 6 sdp match any/all
class D: pass
srv=sdp.Server(D())
A=core.UUID.from_16_bits(0x1101); B=core.UUID.from_16_bits(0x1102)
srv.service_records={1:[sdp.ServiceAttribute(1, sdp.DataElement.sequence([sdp.DataElement.uuid(A)]))]}
m=srv.match_services(sdp.DataElement.sequence([sdp.DataElement.uuid(A), sdp.DataElement.uuid(B)]))
print('6 sdp match A&B on record with only A ->', list(m))
# 9 parse_mcc 2-byte length
try:
    print('9 parse_mcc', rfcomm.RFCOMM_Frame.parse_mcc(bytes([0x83, 0x00, 0x01, 0x00])+bytes(10)))
except Exception as e: print('9', repr(e))
