import ast,sys,re
src=open('bumble/hci.py').read()
t=ast.parse(src)
cmds={}
for n in t.body:
    if isinstance(n,ast.ClassDef):
        decs=[ast.unparse(d) for d in n.decorator_list]
        kind=None
        for d in decs:
            if d.startswith('HCI_Command.command'): kind='cmd'
            if d.startswith('HCI_SyncCommand.sync_command'): kind='sync'
        if kind:
            bases=[ast.unparse(b) for b in n.bases]
            cmds[n.name]=(kind,bases)
ctl=ast.parse(open('bumble/controller.py').read())
handlers={}
for n in ast.walk(ctl):
    if isinstance(n,ast.ClassDef) and n.name=='Controller':
        for f in n.body:
            if isinstance(f,ast.FunctionDef) and f.name.startswith('on_hci_') and f.name.endswith('_command'):
                handlers[f.name]=f
import collections
c=collections.Counter()
for name,(kind,bases) in cmds.items():
    h='on_'+name.lower()
    isasync = any('Async' in b for b in bases)
    has = h in handlers
    c[(kind, 'async' if isasync else ('sync' if any('Sync' in b for b in bases) else 'plain'), has)]+=1
    if isasync:
        rets=None
        if has:
            f=handlers[h]
            rets=ast.unparse(f.returns) if f.returns else None
        print(name, bases, 'handler' if has else 'NOHANDLER', rets)
print(c)
print([h for h in handlers if not any('on_'+n.lower()==h for n in cmds)])
