import ast, glob, collections
n=0; wrapped=0; rows=[]
for f in sorted(glob.glob('/repo/bumble/**/*.py', recursive=True)):
    t=ast.parse(open(f).read())
    for node in ast.walk(t):
        if isinstance(node, ast.Await):
            v=node.value
            txt=ast.unparse(v)
            # await of a bare attribute/name (future) or .wait()
            if isinstance(v,(ast.Attribute,ast.Name)) or (isinstance(v,ast.Call) and isinstance(v.func,ast.Attribute) and v.func.attr=='wait' and not v.args):
                n+=1; rows.append((f.replace('/repo/bumble/',''),node.lineno,txt))
            elif isinstance(v,ast.Call) and ('cancel_on_disconnection' in txt or 'cancel_on_event' in txt or 'wait_for' in txt):
                wrapped+=1
print(n, wrapped)
for r in rows: print(r)
