import ast,sys,collections
files="l2cap att smp sdp rfcomm avdtp avctp avrcp avc rtp core hci a2dp data_types".split()
tot=0
for f in files:
    t=ast.parse(open(f'bumble/{f}.py').read())
    rows=[]
    for n in ast.walk(t):
        if isinstance(n,ast.ClassDef):
            meths={m.name for m in n.body if isinstance(m,(ast.FunctionDef,ast.AsyncFunctionDef))}
            parse=[m for m in meths if m in('from_bytes','parse_from_bytes','from_parameters','from_pdu','from_data') or m.startswith('parse')]
            ser=[m for m in meths if m in('__bytes__','to_bytes','payload','serialize') or m.startswith('serialize')]
            decs=[ast.unparse(d) for d in n.decorator_list]
            hasmeta=any('metadata' in ast.unparse(s) for s in n.body if isinstance(s,ast.AnnAssign))
            if parse or ser or hasmeta:
                rows.append((n.name,sorted(parse),sorted(ser),hasmeta,[d for d in decs if 'dataclass' not in d]))
    custom=[r for r in rows if (r[1] or r[2]) ]
    meta=[r for r in rows if r[3]]
    print(f"== {f}: {len(rows)} codec classes, {len(meta)} metadata-driven, {len(custom)} with custom parse/serialize")
    for r in custom:
        print("   ",r[0],r[1],r[2], 'META' if r[3] else '')
    tot+=len(rows)
print(tot)
