import ast
mods="l2cap att smp sdp rfcomm hfp at avdtp avctp avrcp avc core hci a2dp data_types transport/common host".split()
for m in mods:
    t=ast.parse(open(f'/repo/bumble/{m}.py').read())
    for fn in ast.walk(t):
        if isinstance(fn,(ast.FunctionDef,ast.AsyncFunctionDef)):
            for n in ast.walk(fn):
                if isinstance(n,ast.While):
                    has_await=any(isinstance(x,ast.Await) for x in ast.walk(n))
                    print(f'{m}.py:{n.lineno} {fn.name}: while {ast.unparse(n.test)[:70]}' + ('  [await]' if has_await else ''))
