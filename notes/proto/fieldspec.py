import ast, sys, collections
SRC='/repo/bumble/hci.py'
t=ast.parse(open(SRC).read())
consts={}
for n in t.body:
    if isinstance(n,ast.Assign) and len(n.targets)==1 and isinstance(n.targets[0],ast.Name):
        consts[n.targets[0].id]=n.value
def spec_of(call):
    """call: the value of metadata=...; returns (desc, list_begin, list_end)"""
    lb=le=False
    if not isinstance(call, ast.Call): return ('?'+ast.unparse(call),lb,le)
    f=ast.unparse(call.func)
    for kw in call.keywords:
        if kw.arg=='list_begin': lb=ast.literal_eval(kw.value)
        if kw.arg=='list_end': le=ast.literal_eval(kw.value)
    if f.endswith('type_metadata'):
        size=ast.literal_eval(call.args[0])
        return (('enum',f[:-14],size),lb,le)
    if f in ('metadata','hci.metadata'):
        a=call.args[0]
        return (classify(a),lb,le)
    return ('?'+f,lb,le)
def classify(a):
    if isinstance(a,ast.Constant): return ('lit',a.value)
    if isinstance(a,ast.UnaryOp) and isinstance(a.op,ast.USub): return ('lit',-a.operand.value)
    if isinstance(a,ast.Name) and a.id in consts: return ('named',a.id,classify(consts[a.id]))
    if isinstance(a,ast.Dict):
        keys=[k.value for k in a.keys]
        d=dict(zip(keys,a.values))
        if 'size' in d: return ('dict-size',ast.literal_eval(d['size']),tuple(sorted(keys)))
        return ('dict',tuple(sorted(keys)))
    if isinstance(a,ast.Attribute):
        return ('callable',ast.unparse(a))
    if isinstance(a,ast.Call):
        f=ast.unparse(a.func)
        if f.endswith('type_spec'): return ('enum',f[:-10],ast.literal_eval(a.args[0]))
        return ('call',f)
    return ('?',ast.unparse(a))
kinds=collections.Counter()
problems=[]
nclasses=0
def visit_class(c, prefix=''):
    global nclasses
    fields=[]
    for s in c.body:
        if isinstance(s,ast.ClassDef): visit_class(s,prefix+c.name+'.')
        if isinstance(s,ast.AnnAssign) and isinstance(s.value,ast.Call) and ast.unparse(s.value.func) in('field','dataclasses.field'):
            md=[kw.value for kw in s.value.keywords if kw.arg=='metadata']
            if md:
                fields.append((s.target.id,)+spec_of(md[0]))
    if not fields: return
    nclasses+=1
    depth=0
    for i,(name,desc,lb,le) in enumerate(fields):
        kinds[desc[0] if desc[0]!='lit' else ('lit',desc[1]) if isinstance(desc[1],str) else 'lit-int']+=1
        if lb: depth+=1
        if depth>1: problems.append((c.name,name,'nested list'))
        star = desc==('lit','*')
        if star and (i!=len(fields)-1 or depth>0):
            problems.append((prefix+c.name,name,'* not last / in list', i, len(fields)))
        if desc[0]=='callable' and desc[1].endswith('parse_address_preceded_by_type'):
            prev=fields[i-1] if i>0 else None
            ok = prev and (prev[1] in (('lit',1),) or (prev[1][0]=='enum' and prev[1][2]==1) or (prev[1][0]=='named' and prev[1][2][0]=='dict-size' and prev[1][2][1]==1) or (prev[1][0]=='dict-size' and prev[1][1]==1) or (prev[1][0]=='callable' and 'ADDRESS_TYPE_SPEC' in prev[1][1]))
            if not ok: problems.append((prefix+c.name,name,'preceded_by_type w/o 1-byte predecessor',prev))
        if le: depth-=1
    if depth!=0: problems.append((prefix+c.name,'unbalanced list markers'))
for n in t.body:
    if isinstance(n,ast.ClassDef): visit_class(n)
print(nclasses, dict(kinds))
for p in problems: print(p)
