import ast, sys
sys.path.insert(0,'/tmp/proto')
from pathcount import Analyzer
# ATT handlers
t=ast.parse(open('/repo/bumble/gatt_server.py').read())
srv=[c for c in t.body if isinstance(c,ast.ClassDef) and c.name=='Server'][0]
def is_resp(call):
    f=call.func
    return 1 if isinstance(f,ast.Attribute) and f.attr=='send_response' else 0
A=Analyzer(is_resp)
print('--- ATT')
for fn in srv.body:
    if isinstance(fn,(ast.FunctionDef,ast.AsyncFunctionDef)) and fn.name.startswith('on_att_'):
        r=A.function(fn)
        print(fn.name, 'normal-exit counts', sorted(r['none']|r['val']), 'raise', sorted(r['raise']))
# AG handlers
t=ast.parse(open('/repo/bumble/hfp.py').read())
ag=[c for c in t.body if isinstance(c,ast.ClassDef) and c.name=='AgProtocol'][0]
def is_final(call):
    f=call.func
    return 1 if isinstance(f,ast.Attribute) and f.attr in('send_ok','send_error','send_cme_error') else 0
A=Analyzer(is_final)
print('--- AG')
for fn in ag.body:
    if isinstance(fn,(ast.FunctionDef,ast.AsyncFunctionDef)) and fn.name.startswith('_on_'):
        r=A.function(fn)
        c=sorted(r['none']|r['val'])
        if c!=[1]: print(fn.name, fn.lineno, 'counts', c)
print('done')
