"""Prototype budget-discipline: within a loop, every `X.append(...)` (X a response accumulator) must be preceded,
on the path from loop-iteration start, by a guard that exits the loop when `B < entry` / continues only when `B >= entry`,
where B is a variable initialised from `bearer.att_mtu - k`, and followed by `B -= entry`."""
import ast
src=open('/repo/bumble/gatt_server.py').read()
t=ast.parse(src)
srv=[c for c in t.body if isinstance(c,ast.ClassDef) and c.name=='Server'][0]
def budget_vars(fn):
    out={}
    for n in ast.walk(fn):
        if isinstance(n,ast.Assign) and len(n.targets)==1 and isinstance(n.targets[0],ast.Name):
            txt=ast.unparse(n.value)
            if 'att_mtu' in txt and isinstance(n.value,ast.BinOp) and isinstance(n.value.op,ast.Sub):
                out[n.targets[0].id]=txt
    return out
for fn in srv.body:
    if not isinstance(fn,(ast.FunctionDef,ast.AsyncFunctionDef)) or not fn.name.startswith('on_att_'): continue
    B=budget_vars(fn)
    if not B: continue
    for loop in [n for n in ast.walk(fn) if isinstance(n,(ast.For,ast.AsyncFor))]:
        # loop-header guard: generator filter mentioning budget var
        header_guard = any(b in ast.unparse(loop.iter) for b in B)
        guarded=False; verdicts=[]
        for st in loop.body:
            txt=ast.unparse(st)
            if isinstance(st,ast.If) and any(isinstance(x,ast.Break) for x in st.body) and any(b in ast.unparse(st.test) for b in B):
                test=ast.unparse(st.test)
                guarded = ('<' in test)  # B < entry -> break
            if isinstance(st,ast.Expr) and isinstance(st.value,ast.Call) and isinstance(st.value.func,ast.Attribute) and st.value.func.attr=='append':
                verdicts.append((ast.unparse(st.value.func.value), 'guarded' if guarded else ('header-guard:'+('yes' if header_guard else 'NO'))))
        if verdicts:
            print(fn.name, B, verdicts)
