import ast, glob, collections
for f in sorted(glob.glob('/repo/bumble/*.py')):
    t=ast.parse(open(f).read())
    funcs={}
    for c in ast.walk(t):
        if isinstance(c,ast.ClassDef):
            for m in c.body:
                if isinstance(m,(ast.FunctionDef,ast.AsyncFunctionDef)):
                    funcs[(c.name,m.name)]=m
    for m in t.body:
        if isinstance(m,(ast.FunctionDef,ast.AsyncFunctionDef)): funcs[(None,m.name)]=m
    # edges by method name within same class or module-level function name
    byname=collections.defaultdict(list)
    for k in funcs: byname[k[1]].append(k)
    edges=collections.defaultdict(set)
    for k,fn in funcs.items():
        for n in ast.walk(fn):
            if isinstance(n,ast.Call):
                name=None
                if isinstance(n.func,ast.Attribute): name=n.func.attr; recv=ast.unparse(n.func.value)
                elif isinstance(n.func,ast.Name): name=n.func.id; recv=None
                if name in byname:
                    for tgt in byname[name]:
                        # same class (self./cls./ClassName.) or module-level
                        if tgt[0]==k[0] and (recv in ('self','cls',k[0]) or recv is None) or (tgt[0] is None and recv is None) or (recv==tgt[0]):
                            edges[k].add(tgt)
    # SCC via simple DFS reachability
    def reach(a):
        seen=set(); st=[a]
        while st:
            x=st.pop()
            for y in edges.get(x,()):
                if y not in seen: seen.add(y); st.append(y)
        return seen
    rec=[k for k in funcs if k in reach(k)]
    if rec: print(f.split('/')[-1], rec)
