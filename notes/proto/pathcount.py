"""Prototype: syntax-directed 'effect count' abstract interpreter.
State = set of counts in {0,1,2} (2 == 'two or more') reachable at a program point.
Outcome of a block = dict: 'fall' -> set(counts), 'return_none' -> set, 'return_val' -> set, 'raise' -> set
"""
import ast, sys, itertools

CAP=2
def add(s, n): return {min(CAP, c+n) for c in s}

class Analyzer:
    def __init__(self, is_effect, infeasible_test=lambda t: None):
        self.is_effect=is_effect      # Call node -> int count contributed
        self.infeasible=infeasible_test  # test expr -> True (always true) / False (always false)/ None

    def expr_effects(self, node):
        n=0
        for sub in ast.walk(node):
            if isinstance(sub,(ast.Lambda,ast.FunctionDef,ast.AsyncFunctionDef)) and sub is not node:
                continue
            if isinstance(sub, ast.Call):
                n+=self.is_effect(sub)
        return n

    def block(self, stmts, inset):
        out={'fall':set(inset),'ret_none':set(),'ret_val':set(),'raise':set(),'break':set(),'continue':set()}
        cur=set(inset)
        for s in stmts:
            if not cur: break
            r=self.stmt(s,cur)
            for k in ('ret_none','ret_val','raise','break','continue'):
                out[k]|=r[k]
            cur=r['fall']
        out['fall']=cur
        return out

    def stmt(self, s, cur):
        E={'fall':set(),'ret_none':set(),'ret_val':set(),'raise':set(),'break':set(),'continue':set()}
        if isinstance(s,(ast.FunctionDef,ast.AsyncFunctionDef,ast.ClassDef)):
            E['fall']=set(cur); return E
        if isinstance(s, ast.Return):
            n=self.expr_effects(s.value) if s.value is not None else 0
            after=add(cur,n)
            if s.value is None or (isinstance(s.value,ast.Constant) and s.value.value is None):
                E['ret_none']=after
            elif isinstance(s.value, ast.Call) and self.is_effect(s.value)>0:
                E['ret_none']=after   # `return self._send_hci_command_status(...)` idiom: returns None
            else:
                E['ret_val']=after
            return E
        if isinstance(s, ast.Raise):
            E['raise']=set(cur); return E
        if isinstance(s, ast.Break):
            E['break']=set(cur); return E
        if isinstance(s, ast.Continue):
            E['continue']=set(cur); return E
        if isinstance(s, ast.If):
            n=self.expr_effects(s.test)
            c=add(cur,n)
            feas=self.infeasible(s.test)
            outs=[]
            if feas is not False:
                outs.append(self.block(s.body,c))
            if feas is not True:
                outs.append(self.block(s.orelse,c))
            for o in outs:
                for k in E: E[k]|=o[k]
            return E
        if isinstance(s,(ast.For,ast.AsyncFor,ast.While)):
            # iterate to fixpoint over count sets
            head=set(cur); seen=set()
            exit_=set()
            while True:
                new=head-seen
                if not new: break
                seen|=new
                o=self.block(s.body,new)
                for k in ('ret_none','ret_val','raise'): E[k]|=o[k]
                exit_|=o['break']
                head|=o['fall']|o['continue']
            # loop may exit normally from any head state (unless while True)
            is_true=isinstance(s,ast.While) and isinstance(s.test,ast.Constant) and s.test.value is True
            normal=set() if is_true else set(seen)
            if s.orelse:
                o=self.block(s.orelse,normal)
                for k in ('ret_none','ret_val','raise','break','continue'): E[k]|=o[k]
                normal=o['fall']
            E['fall']=normal|exit_
            return E
        if isinstance(s,(ast.With,ast.AsyncWith)):
            n=sum(self.expr_effects(i.context_expr) for i in s.items)
            return self.block(s.body, add(cur,n))
        if isinstance(s, ast.Try):
            o=self.block(s.body,cur)
            for k in ('ret_none','ret_val','break','continue'): E[k]|=o[k]
            # exceptions: any state seen inside body may reach handlers (approx: cur .. all)
            exc_in=set(cur)|o['fall']|o['raise']|o['ret_none']|o['ret_val']
            fall=set(o['fall'])
            if s.orelse:
                oo=self.block(s.orelse,fall)
                for k in ('ret_none','ret_val','raise','break','continue'): E[k]|=oo[k]
                fall=oo['fall']
            for h in s.handlers:
                ho=self.block(h.body,exc_in)
                for k in ('ret_none','ret_val','raise','break','continue'): E[k]|=ho[k]
                fall|=ho['fall']
            if not s.handlers: E['raise']|=o['raise']
            if s.finalbody:
                fo=self.block(s.finalbody,fall)
                fall=fo['fall']
            E['fall']=fall
            return E
        if isinstance(s, ast.Match):
            n=self.expr_effects(s.subject); c=add(cur,n)
            exhaustive=False
            for case in s.cases:
                o=self.block(case.body,c)
                for k in E: E[k]|=o[k]
                if isinstance(case.pattern,ast.MatchAs) and case.pattern.pattern is None and case.guard is None:
                    exhaustive=True
            if not exhaustive: E['fall']|=c
            return E
        # simple statement
        n=self.expr_effects(s)
        E['fall']=add(cur,n)
        return E

    def function(self, fn):
        o=self.block(fn.body,{0})
        res={'none':o['ret_none']|o['fall'],'val':o['ret_val'],'raise':o['raise']}
        return res

if __name__=='__main__':
    src=open('/repo/bumble/controller.py').read()
    t=ast.parse(src)
    ctl=[n for n in t.body if isinstance(n,ast.ClassDef) and n.name=='Controller'][0]
    def is_status(call):
        f=call.func
        return 1 if isinstance(f,ast.Attribute) and f.attr=='_send_hci_command_status' else 0
    def infeasible(test):
        txt=ast.unparse(test)
        if txt=='self.link is None': return False
        if txt=='not self.link': return False
        if txt=='self.link': return True
        return None
    for mode in ('naive','pruned'):
        A=Analyzer(is_status, infeasible if mode=='pruned' else (lambda t: None))
        bad=0; n=0
        for f in ctl.body:
            if isinstance(f,ast.FunctionDef) and f.name.startswith('on_hci_') and f.name.endswith('_command'):
                n+=1
                r=A.function(f)
                kind='sync' if r['val'] and not r['none'] else ('async' if r['none'] and not r['val'] else 'mixed')
                ok = (kind=='sync' and r['val']=={0}) or (kind=='async' and r['none']=={1})
                if not ok:
                    bad+=1
                    print(mode, f.name, f.lineno, kind, r)
        print(mode,'handlers',n,'flagged',bad)
