import ast, glob, collections, sys
def parse_side(fn):
    """returns {field: (byteidx, shift, mask)} from exprs like (data[i] >> s) & m"""
    out={}
    def analyse(expr):
        shift=0; mask=None; e=expr
        # strip calls like Enum(...)/bool(...)
        while isinstance(e,ast.Call) and len(e.args)==1 and not e.keywords:
            e=e.args[0]
        if isinstance(e,ast.BinOp) and isinstance(e.op,ast.BitAnd):
            l,r=e.left,e.right
            if isinstance(r,ast.Constant): mask=r.value; e=l
            elif isinstance(l,ast.Constant): mask=l.value; e=r
            else: return None
        if isinstance(e,ast.BinOp) and isinstance(e.op,ast.RShift) and isinstance(e.right,ast.Constant):
            shift=e.right.value; e=e.left
            # pattern data[1] >> 1 & 1 parses as data[1] >> (1 & 1)? no: >> binds tighter than &
        if isinstance(e,ast.Subscript) and isinstance(e.slice,ast.Constant) and isinstance(e.slice.value,int):
            return (e.slice.value, shift, mask)
        return None
    for node in ast.walk(fn):
        if isinstance(node,ast.keyword) and node.arg:
            r=analyse(node.value)
            if r: out[node.arg]=r
        if isinstance(node,ast.Assign) and len(node.targets)==1 and isinstance(node.targets[0],ast.Name):
            r=analyse(node.value)
            if r: out[node.targets[0].id]=r
    return out
def ser_side(fn):
    """returns {field: (byteidx, shift)} from bytes([ a | self.f << s ... ])"""
    out={}
    for node in ast.walk(fn):
        if isinstance(node,ast.Call) and isinstance(node.func,ast.Name) and node.func.id=='bytes' and node.args and isinstance(node.args[0],ast.List):
            for idx,el in enumerate(node.args[0].elts):
                terms=[]
                def flat(e):
                    if isinstance(e,ast.BinOp) and isinstance(e.op,ast.BitOr): flat(e.left); flat(e.right)
                    else: terms.append(e)
                flat(el)
                for t in terms:
                    shift=0; e=t
                    if isinstance(e,ast.BinOp) and isinstance(e.op,ast.LShift) and isinstance(e.right,ast.Constant):
                        shift=e.right.value; e=e.left
                    if isinstance(e,ast.BinOp) and isinstance(e.op,ast.BitAnd): e=e.left
                    if isinstance(e,ast.Attribute) and isinstance(e.value,ast.Name) and e.value.id=='self':
                        out[e.attr]=(idx,shift)
    return out
npairs=0
for f in sorted(glob.glob('/repo/bumble/*.py')):
    t=ast.parse(open(f).read())
    for c in ast.walk(t):
        if not isinstance(c,ast.ClassDef): continue
        m={x.name:x for x in c.body if isinstance(x,ast.FunctionDef)}
        p=m.get('from_bytes'); s=m.get('__bytes__') or m.get('to_bytes')
        if not (p and s): continue
        P=parse_side(p); S=ser_side(s)
        common=set(P)&set(S)
        if not common: continue
        npairs+=1
        for k in sorted(common):
            ok = P[k][0]==S[k][0] and P[k][1]==S[k][1]
            print(('OK  ' if ok else 'BAD ')+f"{f.split('/')[-1]}:{c.name}.{k} parse={P[k]} ser={S[k]}")
print('pairs',npairs)
