import ast, sys
sys.path.insert(0,'/tmp/proto')
from pathcount import Analyzer
def run(path, cls, prefix, effects, suffix=''):
    t=ast.parse(open(path).read())
    c=[x for x in ast.walk(t) if isinstance(x,ast.ClassDef) and x.name==cls][0]
    def eff(call):
        f=call.func
        return 1 if isinstance(f,ast.Attribute) and f.attr in effects else 0
    A=Analyzer(eff)
    for fn in c.body:
        if isinstance(fn,(ast.FunctionDef,ast.AsyncFunctionDef)) and fn.name.startswith(prefix) and fn.name.endswith(suffix):
            r=A.function(fn)
            counts=sorted(r['none']|r['val'])
            print(f'{cls}.{fn.name}:{fn.lineno}', counts)
print('--- L2CAP requests'); run('/repo/bumble/l2cap.py','ChannelManager','on_l2cap_',{'send_control_frame','on_connection_request','on_disconnection_request','on_configure_request'},'_request')
print('--- SDP'); run('/repo/bumble/sdp.py','Server','on_sdp_',{'send_response'})
print('--- SMP session: pairing_failed sends'); run('/repo/bumble/smp.py','Session','on_smp_',{'send_pairing_failed'})
