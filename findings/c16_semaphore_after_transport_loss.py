"""C16: the controller answers a command with Num_HCI_Command_Packets = 0 (the host must wait before sending another one),
then the transport is lost.  The command semaphore stayed locked with nobody left to release it: every later send_command
waited on acquire() for ever instead of failing with TransportLostError.
Run from a bumble checkout: exit 0 when the command issued after the loss ends with an error, 1 when it hangs."""
import asyncio, logging, sys
logging.disable(logging.CRITICAL)
from bumble import hci
from bumble.host import Host


class Ctl:
    def __init__(self):
        self.sent = []

    def on_packet(self, packet):
        self.sent.append(packet)


async def main():
    host = Host()
    host.hci_sink = Ctl()
    host.ready = True
    t = asyncio.ensure_future(host.send_sync_command_raw(hci.HCI_LE_Rand_Command()))
    await asyncio.sleep(0.02)
    host.on_packet(bytes(hci.HCI_Command_Complete_Event(num_hci_command_packets=0, command_opcode=hci.HCI_LE_RAND_COMMAND, return_parameters=hci.HCI_LE_Rand_ReturnParameters(status=0, random_number=bytes(8)))))
    await asyncio.wait_for(t, 1)
    host.on_transport_lost()
    t2 = asyncio.ensure_future(host.send_sync_command_raw(hci.HCI_Read_BD_ADDR_Command()))
    await asyncio.wait([t2], timeout=1.0)
    if not t2.done():
        t2.cancel()
        print('FAIL: a command issued after the transport was lost is still waiting for the command semaphore')
        return 1
    print('ok: ended with', type(t2.exception()).__name__ if t2.exception() else 'a result')
    return 0


sys.exit(asyncio.run(main()))
