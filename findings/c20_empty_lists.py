"""C20: the service-level connection must complete when the gateway's call-hold operation list or HF-indicator list is
empty although the corresponding feature bits are set on both sides. Exit 1 if defect present."""
import asyncio, logging, sys
sys.path.insert(0, '/repo')
logging.disable(logging.CRITICAL)
from bumble import hfp

bad = []
class FakeChannel:
    EVENT_CLOSE = 'close'
    def on(self, *a): pass
class FakeMux: l2cap_channel = FakeChannel()
class D:
    def __init__(self): self.sink = None; self.peer = None; self.multiplexer = FakeMux()
    def write(self, d):
        d = d.encode() if isinstance(d, str) else d
        asyncio.get_running_loop().call_soon(lambda: self.peer.sink(d))

async def slc(ag_feats, hf_feats, chld, hf_inds, label):
    a, b = D(), D(); a.peer, b.peer = b, a
    ag = hfp.AgProtocol(a, hfp.AgConfiguration(supported_ag_features=ag_feats, supported_ag_indicators=[hfp.AgIndicatorState.call()], supported_hf_indicators=hf_inds, supported_ag_call_hold_operations=chld, supported_audio_codecs=[]))
    hf = hfp.HfProtocol(b, hfp.HfConfiguration(supported_hf_features=hf_feats, supported_hf_indicators=[hfp.HfIndicator.BATTERY_LEVEL], supported_audio_codecs=[]))
    try:
        await asyncio.wait_for(hf.initiate_slc(), 2)
    except Exception as e:
        bad.append(f'{label}: service-level connection fails with {type(e).__name__}: {e}')

async def main():
    await slc([hfp.AgFeature.THREE_WAY_CALLING], [hfp.HfFeature.THREE_WAY_CALLING], [], [], 'three-way calling on both sides, empty call-hold operation list')
    await slc([hfp.AgFeature.HF_INDICATORS], [hfp.HfFeature.HF_INDICATORS], [], [], 'HF indicators on both sides, gateway supports none')
    print('DEFECTS:')
    for b in bad: print('  -', b)
    return 1 if bad else 0
sys.exit(asyncio.run(main()))
