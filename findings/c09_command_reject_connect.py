"""C09: a peer that does not support LE credit-based channels answers the connection request with Command Reject.
ChannelManager.on_l2cap_command_reject only logged it: create_l2cap_channel() waited until the link dropped, and the
allocated CID and the request entry stayed taken.  A refusal must end the open, and the next open must succeed.
Run from a bumble checkout (cwd): exit 0 when the refused open fails promptly and leaves nothing behind, 1 otherwise."""
import asyncio, logging, sys
logging.disable(logging.CRITICAL)
sys.path.insert(0, 'tests')
from bumble import l2cap
from test_utils import TwoDevices  # type: ignore


async def main():
    devices = await TwoDevices.create_with_connection()
    peer = devices[1].l2cap_channel_manager
    orig = peer.on_l2cap_le_credit_based_connection_request

    def reject(connection, cid, request):
        peer.send_control_frame(connection, cid, l2cap.L2CAP_Command_Reject(identifier=request.identifier, reason=l2cap.L2CAP_Command_Reject.Reason.COMMAND_NOT_UNDERSTOOD, data=b''))
    peer.on_l2cap_le_credit_based_connection_request = reject
    t = asyncio.ensure_future(devices.connections[0].create_l2cap_channel(l2cap.LeCreditBasedChannelSpec(psm=0x80)))
    await asyncio.wait([t], timeout=1.0)
    mgr = devices[0].l2cap_channel_manager
    problems = []
    if not t.done():
        t.cancel()
        problems.append('create_l2cap_channel() still waiting 1 s after the peer sent Command Reject')
        await asyncio.sleep(0.05)
    if mgr.le_coc_requests:
        problems.append(f'le_coc_requests keeps {list(mgr.le_coc_requests)}')
    left = {h: list(t_) for h, t_ in mgr.channels.items() if t_}
    if left:
        problems.append(f'channels keeps {left}')
    # the peer now supports it: a new open works and gets the first dynamic CID
    peer.on_l2cap_le_credit_based_connection_request = orig
    devices[1].create_l2cap_server(l2cap.LeCreditBasedChannelSpec(psm=0x80), handler=lambda ch: None)
    try:
        ch = await asyncio.wait_for(devices.connections[0].create_l2cap_channel(l2cap.LeCreditBasedChannelSpec(psm=0x80)), 1)
        if ch.source_cid != 0x40:
            problems.append(f'the next open got CID 0x{ch.source_cid:02X}, 0x40 is still taken')
    except Exception as e:
        problems.append(f'the next open failed: {e!r}')
    if problems:
        print('FAIL: ' + '; '.join(problems))
        return 1
    print('ok: refused open failed with', repr(t.exception()))
    return 0


sys.exit(asyncio.run(main()))
