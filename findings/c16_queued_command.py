"""C16: an HCI command waiting behind the pending one when the transport is lost (and any command issued after the loss)
must end with an error instead of waiting forever.  Exit 1 if defect present."""
import asyncio, logging, sys
sys.path.insert(0, '/repo'); sys.path.insert(0, '/repo/tests')
logging.disable(logging.CRITICAL)
from bumble import hci
from test_utils import TwoDevices

bad = []
async def main():
    d = TwoDevices()
    await d.setup_connection()
    host = d.devices[0].host
    # the controller stops answering, then the transport is lost
    host.hci_sink = type('Dead', (), {'on_packet': lambda self, p: None})()
    t1 = asyncio.create_task(host.send_command(hci.HCI_Read_BD_ADDR_Command()))
    t2 = asyncio.create_task(host.send_command(hci.HCI_Read_BD_ADDR_Command()))
    await asyncio.sleep(0.05)
    host.on_transport_lost()
    await asyncio.sleep(0.2)
    t3 = asyncio.create_task(host.send_command(hci.HCI_Read_BD_ADDR_Command()))
    await asyncio.sleep(0.2)
    for name, t in (('pending', t1), ('queued', t2), ('issued after the loss', t3)):
        if not t.done():
            bad.append(f'the {name} command is still waiting after the transport was lost')
            t.cancel()
    await asyncio.sleep(0.05)
    for t in (t1, t2, t3):
        if t.done() and not t.cancelled():
            t.exception()
    print('DEFECTS:')
    for b in bad: print('  -', b)
    return 1 if bad else 0
sys.exit(asyncio.run(main()))
