"""C03: a controller configured with lmp_features_max_page_number = 0 (as tests/host_test.py does) whose host then writes
Simple Pairing Mode / LE Host Support gets page-1 LMP feature bits; lmp_features_bytes converted the whole mask into
(max_page + 1) * 8 bytes and overflowed, so Read Local Supported Features was never answered.
Run from a bumble checkout: exit 0 when the command is concluded, 1 otherwise."""
import asyncio, logging, sys
logging.disable(logging.CRITICAL)
from bumble import hci
from bumble.controller import Controller
from bumble.link import LocalLink


class Sink:
    def __init__(self):
        self.packets = []

    def on_packet(self, packet):
        self.packets.append(hci.HCI_Packet.from_bytes(packet))


async def main():
    sink = Sink()
    c = Controller('C', link=LocalLink(), public_address='F0:F1:F2:F3:F4:F5')
    c.host = sink
    c.lmp_features_max_page_number = 0
    for cmd in (hci.HCI_Write_Simple_Pairing_Mode_Command(simple_pairing_mode=1), hci.HCI_Write_LE_Host_Support_Command(le_supported_host=1, simultaneous_le_host=0)):
        try:
            c.on_packet(bytes(cmd))
        except Exception as e:
            print('  (raised', type(e).__name__, ')')
    await asyncio.sleep(0.02)
    sink.packets.clear()
    try:
        c.on_packet(bytes(hci.HCI_Read_Local_Supported_Features_Command()))
    except Exception as e:
        print('  (handler raised', type(e).__name__, e, ')')
    await asyncio.sleep(0.05)
    done = [p for p in sink.packets if isinstance(p, (hci.HCI_Command_Complete_Event, hci.HCI_Command_Status_Event)) and p.command_opcode == hci.HCI_READ_LOCAL_SUPPORTED_FEATURES_COMMAND]
    if len(done) != 1:
        print(f'FAIL: Read Local Supported Features got {len(done)} replies')
        return 1
    print('ok')
    return 0


sys.exit(asyncio.run(main()))
