"""C11: an attribute with READ_REQUIRES_AUTHENTICATION must be refused (Insufficient Authentication) on a link whose key
came from Just Works pairing (no MITM protection).  Device.on_pairing and Device.on_connection_encryption_change set
connection.authenticated = True for every pairing / every encrypted LE link.
Run from a bumble checkout (cwd): exit 0 when the read is refused, 1 when the value is disclosed."""
import asyncio, logging, sys
logging.disable(logging.CRITICAL)
sys.path.insert(0, 'tests')
from bumble import att
from bumble.gatt import Characteristic, Service
from bumble.pairing import PairingConfig, PairingDelegate
from test_utils import TwoDevices  # type: ignore


async def main():
    devices = await TwoDevices.create_with_connection()
    ch = Characteristic('1234', Characteristic.Properties.READ, Characteristic.Permissions.READABLE | Characteristic.Permissions.READ_REQUIRES_AUTHENTICATION, b'secret')
    devices[1].add_service(Service('ABCD', [ch]))
    for d in devices.devices:
        d.pairing_config_factory = lambda connection: PairingConfig(sc=True, mitm=False, bonding=True, delegate=PairingDelegate(PairingDelegate.NO_OUTPUT_NO_INPUT))
    await devices.connections[0].pair()
    await asyncio.sleep(0.1)
    srv_conn = devices.connections[1]
    client = devices.connections[0].gatt_client
    await client.discover_services()
    sp = client.get_services_by_uuid(Service('ABCD', []).uuid)[0]
    await sp.discover_characteristics()
    cp = sp.get_characteristics_by_uuid(ch.uuid)[0]
    try:
        v = await cp.read_value()
    except att.ATT_Error as e:
        print(f'ok: refused with {e.error_code!r} (server side authenticated={srv_conn.authenticated})')
        return 0
    print(f'FAIL: after Just Works pairing the server considers the link authenticated={srv_conn.authenticated} and disclosed {bytes(v)!r}')
    return 1


sys.exit(asyncio.run(main()))
