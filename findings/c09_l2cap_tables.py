"""C09/C07: L2CAP channel tables and waiters.  Exit 1 if any defect is present."""
import asyncio, logging, sys
sys.path.insert(0, '/repo')
logging.disable(logging.CRITICAL)
from tests.test_utils import TwoDevices, Devices, async_barrier
from bumble import l2cap, hci, core

bad = []

async def reopen_after_close():
    d = await TwoDevices.create_with_connection()
    d[1].create_l2cap_server(l2cap.LeCreditBasedChannelSpec(psm=0x81), handler=lambda c: None)
    c0 = d.connections[0]
    ch = await c0.create_l2cap_channel(l2cap.LeCreditBasedChannelSpec(psm=0x81))
    await ch.disconnect()
    await async_barrier()
    m1 = d[1].l2cap_channel_manager
    stale = {k: list(v) for k, v in m1.le_coc_channels.items() if v}
    print('server le_coc_channels after close:', stale)
    try:
        await asyncio.wait_for(c0.create_l2cap_channel(l2cap.LeCreditBasedChannelSpec(psm=0x81)), 2)
    except Exception as e:
        bad.append(f'C09 re-open after close fails: {e!r}')

async def enhanced_credit_routing():
    # the peer's (client's) source CID differs from the CID the server allocates for the same channel
    d = await TwoDevices.create_with_connection()
    server_side = []
    d[1].create_l2cap_server(l2cap.LeCreditBasedChannelSpec(psm=0x81, max_credits=2, mtu=100, mps=50), handler=server_side.append)
    c0 = d.connections[0]
    m0 = d[0].l2cap_channel_manager
    m0.channels.setdefault(c0.handle, {})[0x40] = None      # client allocates 0x41, server will allocate 0x40
    chans = await m0.create_enhanced_credit_based_channels(c0, l2cap.LeCreditBasedChannelSpec(psm=0x81, max_credits=2, mtu=100, mps=50), 1)
    rx = []
    chans[0].sink = rx.append
    await async_barrier()
    sch = server_side[0]
    print('enhanced: client cids', chans[0].source_cid, '->', chans[0].destination_cid, ' server cids', sch.source_cid, '->', sch.destination_cid)
    data = bytes(range(200)) * 3
    sch.write(data)                                          # server -> client; client returns credits with cid=its source CID
    try:
        await asyncio.wait_for(sch.drain(), 2)
    except asyncio.TimeoutError:
        bad.append(f'C07 enhanced channel with differing CIDs stalls: client received {sum(map(len, rx))} of {len(data)} bytes (returned credits are not routed to the channel)')

async def drain_on_link_loss():
    d = await TwoDevices.create_with_connection()
    d[1].create_l2cap_server(l2cap.LeCreditBasedChannelSpec(psm=0x81, max_credits=1), handler=lambda c: None)
    c0 = d.connections[0]
    ch = await c0.create_l2cap_channel(l2cap.LeCreditBasedChannelSpec(psm=0x81))
    d[1].l2cap_channel_manager.on_l2cap_le_flow_control_credit  # server never consumes: no sink -> credits not returned
    ch.write(bytes(5000))
    t = asyncio.ensure_future(ch.drain())
    await asyncio.sleep(0.05)
    await c0.disconnect()
    await async_barrier()
    try:
        await asyncio.wait_for(t, 1)
    except asyncio.TimeoutError:
        bad.append('C09 LeCreditBasedChannel.drain() still waiting after the link was disconnected')
    except (Exception, asyncio.CancelledError):
        pass

async def cross_link_identifier():
    d = Devices(3)
    for dev in d.devices:
        await dev.power_on()
    await d[1].start_advertising(auto_restart=False)
    await d[2].start_advertising(auto_restart=False)
    ca = await d[0].connect(d[1].random_address)
    cb = await d[0].connect(d[2].random_address)
    m = d[0].l2cap_channel_manager
    # same signalling identifier on both links
    m.identifiers[ca.handle] = 7; m.identifiers[cb.handle] = 7
    d[2].create_l2cap_server(l2cap.LeCreditBasedChannelSpec(psm=0x81), handler=lambda c: None)
    # link A: the peer is slow to answer -> pending request with identifier 8
    d[1].l2cap_channel_manager.on_l2cap_le_credit_based_connection_request = lambda *a: None
    ta = asyncio.ensure_future(ca.create_l2cap_channel(l2cap.LeCreditBasedChannelSpec(psm=0x99)))
    await asyncio.sleep(0.01)
    try:
        await asyncio.wait_for(cb.create_l2cap_channel(l2cap.LeCreditBasedChannelSpec(psm=0x81)), 2)
    except Exception as e:
        bad.append(f'C09 request on link B blocked/failed because link A uses the same identifier: {e!r}')
    ta.cancel()

async def classic_disconnect_on_link_loss():
    d = TwoDevices()
    d.devices[0].classic_enabled = True; d.devices[1].classic_enabled = True
    for dev in d.devices:
        await dev.power_on()
    await d[1].set_connectable(True); await d[1].set_discoverable(True)
    d[1].create_l2cap_server(l2cap.ClassicChannelSpec(psm=0x1001), handler=lambda c: None)
    conn = await d[0].connect(d[1].public_address, transport=core.PhysicalTransport.BR_EDR)
    ch = await conn.create_l2cap_channel(l2cap.ClassicChannelSpec(psm=0x1001))
    # drop the peer's answer: disconnect the ACL right after asking for channel disconnection
    t = asyncio.ensure_future(ch.disconnect())
    await asyncio.sleep(0)
    d[1].l2cap_channel_manager.on_l2cap_disconnection_request = lambda *a: None   # peer never answers
    await asyncio.sleep(0.05)
    await conn.disconnect()
    await async_barrier()
    try:
        await asyncio.wait_for(t, 1)
    except asyncio.TimeoutError:
        bad.append('C09 ClassicChannel.disconnect() still waiting after the link was disconnected')
    except (Exception, asyncio.CancelledError):
        pass

async def main():
    for f in (reopen_after_close, enhanced_credit_routing, drain_on_link_loss, cross_link_identifier, classic_disconnect_on_link_loss):
        try:
            await asyncio.wait_for(f(), 20)
        except Exception as e:
            print(f.__name__, 'harness error', repr(e))
    print('DEFECTS:')
    for b in bad: print('  -', b)
    return 1 if bad else 0

sys.exit(asyncio.run(main()))
