"""C17: an SDP data element whose declared length runs past the end of the sequence that contains it makes the parser
move its offset backwards, so the tail is parsed again by every enclosing level: 2^k re-parses for k nested units.
Run from a bumble checkout: exits 0 when parsing ends promptly (value or ordinary exception), 1 when it takes > 2 s."""
import sys, time, multiprocessing


def work(k, q):
    import logging
    logging.disable(logging.CRITICAL)
    from bumble import sdp
    tail = b''.join(b'\x08\x01' for _ in range(700))
    # unit: outer SEQUENCE of length 3 that covers only the header of an inner SEQUENCE extending to the end of the data
    data = tail
    for _ in range(k):
        data = b'\x35\x03\x36' + len(data).to_bytes(2, 'big') + data
    t = time.time()
    try:
        sdp.DataElement.from_bytes(data)
        r = 'value'
    except Exception as e:
        r = type(e).__name__
    q.put((r, time.time() - t))


if __name__ == '__main__':
    q = multiprocessing.Queue()
    p = multiprocessing.Process(target=work, args=(14, q))
    p.start()
    p.join(2.0)
    if p.is_alive():
        p.terminate()
        print('FAIL: DataElement.from_bytes of a 1.5 KB element still running after 2 s (exponential re-parsing)')
        sys.exit(1)
    r, dt = q.get()
    print(f'ok: {r} after {dt:.3f}s')
    sys.exit(0)
