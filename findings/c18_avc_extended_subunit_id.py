"""C18: an AV/C frame with an extended subunit id parses but cannot be serialised again.

Frame.from_bytes accepts the extended subunit-id forms (id 5 + extension byte(s)); Frame.to_bytes packed
`subunit_type << 3 | subunit_id` into one byte whatever the id: for ids >= 8 the subunit type bits are overwritten, or
bytes() raises ValueError.  Expected: bytes(Frame.from_bytes(x)) == x for well-formed extended frames (the second one is
the frame of tests/avrcp_test.py::test_frame_parser).
"""
import sys
from bumble import avc

bad = 0
for hx in ('014f08', '014dff0108', '014d0608', '014dfe08', '014dffff08'):
    data = bytes.fromhex(hx)
    frame = avc.Frame.from_bytes(data)
    try:
        out = bytes(frame)
    except Exception as e:  # noqa
        out = e
    ok = out == data
    print(hx, 'subunit_id', frame.subunit_id, '->', out.hex() if isinstance(out, bytes) else repr(out), 'OK' if ok else 'MISMATCH')
    bad += not ok
sys.exit(1 if bad else 0)
