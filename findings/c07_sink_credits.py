"""C07: frames that arrive before the application installs a sink must still be charged to the peer's credits
(and credits returned), otherwise the sender's and receiver's ledgers diverge and the channel deadlocks.
Exit 1 if defect present."""
import asyncio, logging, sys
sys.path.insert(0, '/repo'); sys.path.insert(0, '/repo/tests')
logging.disable(logging.CRITICAL)
from bumble import l2cap
from test_utils import TwoDevices

bad = []
async def main():
    d = TwoDevices()
    await d.setup_connection()
    chans = []
    d.devices[1].create_l2cap_server(spec=l2cap.LeCreditBasedChannelSpec(psm=0x80, max_credits=4, mtu=23, mps=23), handler=chans.append)
    ch = await d.connections[0].create_l2cap_channel(spec=l2cap.LeCreditBasedChannelSpec(psm=0x80))
    await asyncio.sleep(0.02)
    srv = chans[0]                      # no sink installed yet
    ch.write(bytes(100))
    await asyncio.sleep(0.1)
    got = []
    srv.sink = got.append
    ch.write(b'hello')
    try:
        await asyncio.wait_for(ch.drain(), 1)
    except asyncio.TimeoutError:
        bad.append(f'sender stuck: credits={ch.credits}, receiver still believes the peer has {srv.peer_credits} credits; drain() never completes even after a sink is installed')
    print('DEFECTS:')
    for b in bad: print('  -', b)
    return 1 if bad else 0
sys.exit(asyncio.run(main()))
