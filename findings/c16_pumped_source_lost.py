"""C16: transports built on PumpedPacketSource (ws-client, android emulator / netsim) read with a pump task.  When the read
fails (the peer closed the socket) the pump records the error in `terminated` and stops -- but never tells its sink, so
the host is not told that the transport is lost: pending HCI commands wait for ever, no link is torn down.
Run from a bumble checkout: exit 0 when the sink is told, 1 otherwise."""
import asyncio, sys, logging
logging.disable(logging.CRITICAL)
from bumble.transport.common import PumpedPacketSource


class Probe:
    lost = 0

    def on_packet(self, packet):
        pass

    def on_transport_lost(self):
        self.lost += 1


async def main():
    calls = {'n': 0}

    async def receive():
        calls['n'] += 1
        if calls['n'] == 1:
            return bytes([0x04, 0x0E, 0x04, 0x01, 0x03, 0x0C, 0x00])     # one good event first
        raise ConnectionError('closed by the peer')
    src = PumpedPacketSource(receive)
    probe = Probe()
    src.set_packet_sink(probe)
    src.start()
    await asyncio.sleep(0.1)
    if probe.lost != 1:
        print(f'FAIL: the read failed (terminated={src.terminated.done()}), the sink was told {probe.lost} time(s)')
        return 1
    print('ok: the sink is told that the transport is lost')
    return 0


sys.exit(asyncio.run(main()))
