"""C20: bytes written to an RFCOMM data link whose receiver has not attached its sink yet are lost.

While no sink is attached a DLC keeps received frames in a deque bounded to 32 entries - and kept replenishing the
peer's credits as if the frames had been consumed.  A sender that writes more than 32 frames before the receiver sets its
sink makes the deque drop the oldest ones silently: the receiver then gets the tail of the stream only.
Expected: the bytes received equal the bytes written (flow control holds the sender back).
"""
import asyncio
import logging
import sys

from bumble.rfcomm import Client, Server
from tests.test_utils import TwoDevices

logging.disable(logging.CRITICAL)


async def scenario():
    d = TwoDevices()
    await d.setup_connection()
    accepted = asyncio.get_running_loop().create_future()
    channel = Server(d[0]).listen(acceptor=accepted.set_result)
    mux = await Client(d.connections[1]).start()
    peer, dlc = await asyncio.gather(accepted, mux.open_dlc(channel))
    size = dlc.mtu  # one frame per write
    written = b''.join(bytes([i]) * size for i in range(60))
    for i in range(60):
        dlc.write(written[size * i:size * (i + 1)])
    await asyncio.sleep(0.5)
    got = bytearray()
    peer.sink = got.extend
    await asyncio.sleep(0.5)
    print(f'received {len(got)} of {len(written)} bytes, first byte {got[0] if got else None}')
    return bytes(got) == written


async def main():
    try:
        return await asyncio.wait_for(scenario(), 15)
    except asyncio.TimeoutError:
        print('timeout')
        return False


sys.exit(0 if asyncio.run(main()) else 1)
