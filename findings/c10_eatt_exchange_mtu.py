"""C10: an Exchange MTU Request is not permitted on an enhanced ATT bearer (its ATT_MTU is fixed by the L2CAP channel).
The server accepted it and raised the bearer's att_mtu above the channel MTU: the next Read Response is longer than the
channel can carry in one SDU and reaches the client cut into several "PDUs".
Run from a bumble checkout: exit 0 when the request is refused (or the response still fits), 1 otherwise."""
import asyncio, logging, sys
logging.disable(logging.CRITICAL)
sys.path.insert(0, 'tests')
from bumble import att, gatt_client, l2cap
from bumble.gatt import Characteristic, Service
from test_utils import TwoDevices  # type: ignore


async def main():
    devices = await TwoDevices.create_with_connection()
    devices[1].gatt_server.register_eatt()
    ch = Characteristic('1234', Characteristic.Properties.READ, Characteristic.Permissions.READABLE, bytes(range(200)))
    devices[1].add_service(Service('ABCD', [ch]))
    spec = l2cap.LeCreditBasedChannelSpec(psm=att.EATT_PSM, mtu=64)
    client = await gatt_client.Client.connect_eatt(devices.connections[0], spec)
    seen = []
    inner = client.bearer.sink
    client.bearer.sink = lambda pdu: (seen.append(bytes(pdu)), inner(pdu))
    try:
        response = await asyncio.wait_for(client.send_request(att.ATT_Exchange_MTU_Request(client_rx_mtu=517)), 2)
    except Exception as e:
        response = e
    refused = getattr(response, 'op_code', None) == att.Opcode.ATT_ERROR_RESPONSE
    seen.clear()
    try:
        await asyncio.wait_for(client.send_request(att.ATT_Read_Request(attribute_handle=ch.handle)), 2)
    except Exception:
        pass
    longest = max((len(x) for x in seen), default=0)
    server_bearers = [b for b in devices[1].gatt_server.subscribers] or []
    print(f'exchange mtu on the enhanced bearer: {"refused" if refused else "accepted"}; read response arrived as {len(seen)} SDU(s), first {len(seen[0]) if seen else 0} bytes')
    if not refused and (len(seen) != 1 or longest > 64):
        print('FAIL: the server raised ATT_MTU above what the bearer carries; the 200-byte value was sent as a PDU longer than the channel MTU of 64')
        return 1
    return 0


sys.exit(asyncio.run(main()))
