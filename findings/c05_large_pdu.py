"""C05: an L2CAP PDU with a payload near 65535 bytes must cross the virtual link. Exit 1 if defect present."""
import asyncio, logging, sys
sys.path.insert(0, '/repo')
logging.disable(logging.CRITICAL)
from tests.test_utils import TwoDevices, async_barrier

async def main():
    d = await TwoDevices.create_with_connection()
    got = []
    d[1].l2cap_channel_manager.register_fixed_channel(0x3F, lambda handle, pdu: got.append(pdu))
    bad = []
    for n in (65531, 65532, 65535):
        got.clear()
        payload = bytes([n & 0xFF]) * n
        try:
            d.connections[0].send_l2cap_pdu(0x3F, payload)
            for _ in range(200):
                await asyncio.sleep(0.01)
                if got: break
        except Exception as e:
            print('send raised', repr(e))
        ok = got == [payload]
        print(f'payload {n}: delivered={ok}')
        if not ok: bad.append(n)
    print('DEFECTS:', bad)
    return 1 if bad else 0
sys.exit(asyncio.run(main()))
