"""C03/C16: HCI Disconnect on a link whose peer controller has left the (virtual) link must still be concluded by a
Disconnection Complete event. Exit 1 if defect present."""
import asyncio, logging, sys
sys.path.insert(0, '/repo'); sys.path.insert(0, '/repo/tests')
logging.disable(logging.CRITICAL)
from test_utils import TwoDevices

bad = []
async def main():
    d = TwoDevices()
    await d.setup_connection()
    d.link.remove_controller(d.controllers[1])       # the peer is switched off
    try:
        await asyncio.wait_for(d.connections[0].disconnect(), 1.0)
    except asyncio.TimeoutError:
        bad.append('disconnect() never completes after the peer left the link: Command Status PENDING, then no Disconnection Complete; the connection stays in the controller and device tables')
    except Exception as e:
        bad.append(f'disconnect() raised {type(e).__name__}: {e}')
    if d.controllers[0].le_connections:
        bad.append('controller still lists the connection')
    print('DEFECTS:')
    for b in bad: print('  -', b)
    return 1 if bad else 0
sys.exit(asyncio.run(main()))
