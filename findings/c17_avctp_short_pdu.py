"""C17: an empty or truncated AVCTP PDU must leave the message assembler usable: a well-formed fragmented message that
follows has to be delivered.  Exit 1 if defect present."""
import logging, sys
sys.path.insert(0, '/repo')
logging.disable(logging.CRITICAL)
from bumble import avctp

bad = []
def case(junk, label):
    got = []
    asm = avctp.MessageAssembler(lambda *a: got.append(a))
    try:
        asm.on_pdu(junk)
    except Exception:
        pass
    # START (2 packets) + END, transaction label 1, command, pid 0x110E (layout used by bumble: PID in every fragment)
    start = bytes([(1 << 4) | (avctp.Protocol.PacketType.START << 2), 2, 0x11, 0x0E]) + b'ab'
    end = bytes([(1 << 4) | (avctp.Protocol.PacketType.END << 2), 0x11, 0x0E]) + b'cd'
    try:
        asm.on_pdu(start); asm.on_pdu(end)
    except Exception as e:
        bad.append(f'{label}: well-formed message raises {e!r}')
        return
    if [g[-1] for g in got] != [b'abcd']:
        bad.append(f'{label}: the well-formed fragmented message that follows is dropped (delivered: {[g[-1] for g in got]})')
case(b'', 'empty PDU')
case(bytes([0x10, 0x11]), '2-byte PDU')
case(bytes([(1 << 4) | (avctp.Protocol.PacketType.START << 2), 2, 0x11]), 'START cut before the PID')
print('DEFECTS:')
for b in bad: print('  -', b)
sys.exit(1 if bad else 0)
