"""C20: RFCOMM teardown parity, HFP negotiated state and final result codes. Exit 1 if a defect is present."""
import asyncio, logging, sys
sys.path.insert(0, '/repo')
logging.disable(logging.CRITICAL)
from bumble import rfcomm, hfp

bad = []


class Chan:
    """Back-to-back L2CAP channel stub: write() delivers to the peer's sink on the next loop turn."""
    EVENT_CLOSE = 'close'

    def __init__(self, mtu=1024):
        self.peer_mtu = mtu
        self.sink = None
        self.peer = None
        self.connection = type('C', (), {'peer_address': 'x'})()

    def on(self, *a):
        pass

    def write(self, data):
        asyncio.get_running_loop().call_soon(lambda: self.peer.sink(data))


async def rfcomm_pair():
    a, b = Chan(), Chan()
    a.peer, b.peer = b, a
    srv = rfcomm.Multiplexer(a, rfcomm.Multiplexer.Role.RESPONDER)
    cli = rfcomm.Multiplexer(b, rfcomm.Multiplexer.Role.INITIATOR)
    got = []
    srv.acceptor = lambda ch: (1000, 7)
    srv.on('dlc', got.append)
    await cli.connect()
    cd = await cli.open_dlc(3)
    await asyncio.sleep(0.01)
    return srv, cli, got[0], cd


async def teardown():
    srv, cli, sd, cd = await rfcomm_pair()
    closed = []
    sd.on('close', lambda: closed.append('server'))
    await asyncio.wait_for(cd.disconnect(), 1)
    await asyncio.sleep(0.01)
    if sd.state != rfcomm.DLC.State.DISCONNECTED or sd.dlci in srv.dlcs or not closed:
        bad.append(f'RFCOMM: after the client closed the data link the client is {cd.state.name} and removed, the server is {sd.state.name}, still in the table: {sd.dlci in srv.dlcs}, close event: {bool(closed)}')


class FakeChannel:
    EVENT_CLOSE = 'close'
    def on(self, *a): pass
class FakeMux: l2cap_channel = FakeChannel()
class FakeDlc:
    def __init__(self): self.out = []; self.sink = None; self.multiplexer = FakeMux()
    def write(self, d): self.out.append(d if isinstance(d, str) else d.decode())


async def ag_codes():
    dlc = FakeDlc()
    cfg = hfp.AgConfiguration(supported_ag_features=[hfp.AgFeature.THREE_WAY_CALLING, hfp.AgFeature.HF_INDICATORS], supported_ag_indicators=[hfp.AgIndicatorState.call()], supported_hf_indicators=[hfp.HfIndicator.BATTERY_LEVEL],
                              supported_ag_call_hold_operations=[], supported_audio_codecs=[hfp.AudioCodec.CVSD])
    ag = hfp.AgProtocol(dlc, cfg)
    def finals(): return [x.strip() for x in dlc.out if x.strip() in ('OK', 'ERROR') or x.strip().startswith('+CME ERROR')]
    for line in (b'AT+CMER=3,0,0\r', b'AT+BVRA=9\r', b'AT+BRSF=abc\r', b'AT+CHLD=?\r', b'AT+BIND?\r', b'AT+BAC=1,77\r', b'AT+BIEV=9,1\r', b'AT+CHLD=1x\r'):
        dlc.out.clear(); ag.read_buffer = bytearray()
        try:
            ag._read_at(line)
        except Exception as e:
            print('  AG raised', type(e).__name__, 'on', line)
        if len(finals()) != 1:
            bad.append(f'HFP AG: {line!r} concluded by {len(finals())} final result codes {finals()}')


def hf_state():
    import inspect
    s = hfp.AgIndicatorState.roam()
    if s.indicator != hfp.AgIndicator.ROAM:
        bad.append(f'HFP: AgIndicatorState.roam() describes the {s.indicator.name} indicator')


async def slc_indicators():
    # drive HF against AG over back-to-back DLC stubs
    class D:
        def __init__(self): self.sink = None; self.peer = None; self.multiplexer = FakeMux()
        def write(self, d):
            d = d.encode() if isinstance(d, str) else d
            asyncio.get_running_loop().call_soon(lambda: self.peer.sink(d))
    a, b = D(), D(); a.peer, b.peer = b, a
    ag = hfp.AgProtocol(a, hfp.AgConfiguration(supported_ag_features=[hfp.AgFeature.HF_INDICATORS], supported_ag_indicators=[hfp.AgIndicatorState.call(), hfp.AgIndicatorState.signal()],
                                                supported_hf_indicators=[hfp.HfIndicator.BATTERY_LEVEL], supported_ag_call_hold_operations=[], supported_audio_codecs=[]))
    hf = hfp.HfProtocol(b, hfp.HfConfiguration(supported_hf_features=[hfp.HfFeature.HF_INDICATORS], supported_hf_indicators=[hfp.HfIndicator.BATTERY_LEVEL], supported_audio_codecs=[]))
    await asyncio.wait_for(hf.initiate_slc(), 2)
    for i, (x, y) in enumerate(zip(hf.ag_indicators, ag.ag_indicators)):
        if x.supported_values != y.supported_values or x.index != i:
            bad.append(f'HFP HF: AG indicator {i} held as supported_values={x.supported_values!r} index={x.index!r}; the gateway has {y.supported_values!r}')
            break
    for ind, st in hf.hf_indicators.items():
        g = ag.hf_indicators.get(ind)
        if g is None or (st.supported, st.enabled) != (g.supported, g.enabled):
            bad.append(f'HFP: HF indicator {ind.name}: hands-free holds supported={st.supported} enabled={st.enabled}, gateway holds {None if g is None else (g.supported, g.enabled)}')


async def main():
    for f in (teardown, ag_codes, slc_indicators):
        try:
            await f()
        except Exception as e:
            bad.append(f'{f.__name__}: {type(e).__name__}: {e}')
    hf_state()
    print('DEFECTS:')
    for b in bad:
        print('  -', b)
    return 1 if bad else 0

sys.exit(asyncio.run(main()))
