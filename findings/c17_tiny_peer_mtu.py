"""C17: a peer that announces an L2CAP MTU of 2 in its Configure Request (below the 48 every implementation must accept)
made the AVDTP responder compute a fragment size of -1: Protocol.send_message never advanced and blocked the event loop.
Run from a bumble checkout (cwd): exit 0 when the Discover command is answered (or fails) promptly, 1 when it hangs."""
import asyncio, logging, sys, multiprocessing


def work(q):
    logging.disable(logging.CRITICAL)
    sys.path.insert(0, 'tests')
    from bumble import l2cap, avdtp
    from bumble.core import PhysicalTransport
    from test_utils import TwoDevices  # type: ignore

    async def main():
        devices = TwoDevices()
        for d in devices.devices:
            d.classic_enabled = True
            await d.power_on()
        listener = avdtp.Listener.for_device(devices[1])
        sys.path.insert(0, 'tests')
        import a2dp_test  # type: ignore  (only for its codec capability helper)
        listener.on('connection', lambda protocol: protocol.add_sink(a2dp_test.sink_codec_capabilities()))
        conn = await devices[0].connect(devices[1].public_address, transport=PhysicalTransport.BR_EDR)
        ch = await conn.create_l2cap_channel(l2cap.ClassicChannelSpec(psm=avdtp.AVDTP_PSM, mtu=2))
        got = []
        ch.sink = got.append
        ch.write(bytes([0x10, 0x01]))          # Discover command, transaction label 1
        await asyncio.sleep(0.3)
        q.put(('answered', [g.hex() for g in got]))
    asyncio.run(main())


if __name__ == '__main__':
    q = multiprocessing.Queue()
    p = multiprocessing.Process(target=work, args=(q,))
    p.start()
    p.join(6.0)
    if p.is_alive():
        p.terminate()
        print('FAIL: the responder is still busy 6 s after a Discover command on a channel whose peer MTU is 2 (event loop blocked)')
        sys.exit(1)
    try:
        print('ok:', q.get(timeout=1))
    except Exception:
        print('ok: ended without a hang')
    sys.exit(0)
