"""C03: a Command Status event for opcode 0 (a flow-control only update) is handed to the caller of the pending command.

Host.on_hci_command_complete_event treats command_opcode 0 as "no command, Num_HCI_Command_Packets only";
on_hci_command_status_event had no such branch: the NOP status went to on_command_processed and resolved the pending
response (with a "mismatch" warning), so the caller of Read_BD_ADDR received an HCI_Command_Status_Event for opcode 0.
Expected: the caller receives the response that carries its own command's opcode.
"""
import asyncio
import logging
import sys

from bumble import hci
from bumble.host import Host

logging.disable(logging.CRITICAL)


class Controller:
    """answers every command with a NOP Command Status (0 credits) followed by the real Command Complete"""

    def __init__(self):
        self.host = None

    def on_packet(self, packet):
        command = hci.HCI_Packet.from_bytes(packet)
        loop = asyncio.get_running_loop()
        nop = hci.HCI_Command_Status_Event(status=0, num_hci_command_packets=0, command_opcode=0)
        done = hci.HCI_Command_Complete_Event(num_hci_command_packets=1, command_opcode=command.op_code, return_parameters=hci.HCI_Read_BD_ADDR_ReturnParameters(status=0, bd_addr=hci.Address('00:11:22:33:44:55/P')))
        loop.call_soon(self.host.on_packet, bytes(nop))
        loop.call_soon(self.host.on_packet, bytes(done))


async def main():
    controller = Controller()
    host = Host()
    host.set_packet_sink(controller)
    controller.host = host
    host.ready = True
    try:
        response = await asyncio.wait_for(host.send_sync_command_raw(hci.HCI_Read_BD_ADDR_Command()), 2)
        outcome = f'{type(response).__name__} opcode 0x{response.command_opcode:04X}'
        ok = response.command_opcode == hci.HCI_READ_BD_ADDR_COMMAND
    except Exception as e:  # noqa
        outcome, ok = f'{type(e).__name__}: {e}', False
    print('caller received:', outcome)
    return ok


sys.exit(0 if asyncio.run(main()) else 1)
