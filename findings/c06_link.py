"""C06 virtual link defects. Exit 1 if any is present."""
import asyncio, logging, sys
sys.path.insert(0, '/repo')
logging.disable(logging.CRITICAL)
from tests.test_utils import TwoDevices, Devices, async_barrier
from bumble import hci, core, device as dev_mod

bad = []

async def public_central_data():
    d = TwoDevices()
    for dev in d.devices: await dev.power_on()
    await d[1].start_advertising(advertising_interval_min=1.0)
    conn = await asyncio.wait_for(d[0].connect(d[1].random_address, own_address_type=hci.OwnAddressType.PUBLIC), 3)
    await async_barrier()
    got = []
    d[1].l2cap_channel_manager.register_fixed_channel(0x3F, lambda h, p: got.append(p))
    conn.send_l2cap_pdu(0x3F, b'hello')
    await asyncio.sleep(0.05)
    if got != [b'hello']:
        bad.append(f'data sent by a central with a PUBLIC own address is not delivered to its peer (got {got})')

async def incoming_while_connecting():
    d = Devices(3)
    for dev in d.devices: await dev.power_on()
    # device 0 advertises and at the same time tries to connect to an absent peer
    await d[0].start_advertising(auto_restart=False)
    t = asyncio.ensure_future(d[0].connect(hci.Address('AA:BB:CC:DD:EE:FF', hci.Address.RANDOM_DEVICE_ADDRESS), timeout=2))
    await asyncio.sleep(0.05)
    await d[2].connect(d[0].random_address)          # incoming connection from a third device
    await async_barrier()
    try:
        c = await asyncio.wait_for(t, 3)
        bad.append(f'a pending connect() to AA:BB:CC:DD:EE:FF was handed the incoming connection from {c.peer_address} (role {c.role.name})')
    except Exception as e:
        print('pending connect ended with', type(e).__name__)

async def scan_response():
    d = TwoDevices()
    for dev in d.devices: await dev.power_on()
    adv = bytes(core.AdvertisingData([(core.AdvertisingData.COMPLETE_LOCAL_NAME, b'adv')]))
    rsp = bytes(core.AdvertisingData([(core.AdvertisingData.COMPLETE_LOCAL_NAME, b'scan-response')]))
    d[1].advertising_data = adv
    d[1].scan_response_data = rsp
    seen = []
    d[0].on('advertisement', lambda a: seen.append((a.is_scan_response, bytes(a.data))))
    await d[0].start_scanning(active=True, legacy=True)
    await d[1].start_advertising(advertising_interval_min=1.0)
    await asyncio.sleep(0.1)
    rsps = [x for s, x in seen if s]
    print('scan responses seen:', rsps[:1])
    if rsps and not any(rsp in x for x in rsps):
        bad.append('the scan response report carries the advertising data instead of the scan-response data')

async def main():
    for f in (public_central_data, incoming_while_connecting, scan_response):
        try:
            await asyncio.wait_for(f(), 20)
        except Exception as e:
            print(f.__name__, 'harness error', repr(e))
    print('DEFECTS:')
    for b in bad: print('  -', b)
    return 1 if bad else 0
sys.exit(asyncio.run(main()))
