"""C03: the virtual controller answers every command packet it receives.  Two ways a well-addressed command got no answer:
 (a) its parameters are truncated: Controller.on_packet parsed it outside any handler, the exception vanished in the loop;
 (b) LE_Create_CIS with zero entries: formatting the command for the debug log raised (max() of an empty sequence).
Run from a bumble checkout: exit 0 when both get exactly one Command Complete / Status with their opcode, 1 otherwise."""
import asyncio, logging, sys
logging.disable(logging.CRITICAL)
from bumble import hci
from bumble.controller import Controller
from bumble.link import LocalLink


class Sink:
    def __init__(self):
        self.packets = []

    def on_packet(self, packet):
        self.packets.append(hci.HCI_Packet.from_bytes(packet))


async def main():
    sink = Sink()
    c = Controller('C', link=LocalLink(), public_address='F0:F1:F2:F3:F4:F5')
    c.host = sink
    bad = 0
    cases = {
        'truncated LE_Set_Advertising_Parameters': bytes([hci.HCI_COMMAND_PACKET]) + hci.HCI_LE_SET_ADVERTISING_PARAMETERS_COMMAND.to_bytes(2, 'little') + bytes([3, 1, 2, 3]),
        'LE_Create_CIS with no entry': bytes(hci.HCI_LE_Create_CIS_Command(cis_connection_handle=[], acl_connection_handle=[])),
    }
    for name, raw in cases.items():
        sink.packets.clear()
        opcode = int.from_bytes(raw[1:3], 'little')
        try:
            c.on_packet(raw)
        except Exception as e:      # what the transport's call_soon would only log
            print(f'  ({name}: handler raised {type(e).__name__}: {e})')
        await asyncio.sleep(0.05)
        replies = [p for p in sink.packets if isinstance(p, (hci.HCI_Command_Complete_Event, hci.HCI_Command_Status_Event)) and p.command_opcode == opcode]
        if len(replies) != 1:
            bad += 1
            print(f'FAIL: {name}: {len(replies)} replies for opcode 0x{opcode:04X}')
    print('ok' if not bad else f'{bad} command(s) unanswered')
    return 1 if bad else 0


sys.exit(asyncio.run(main()))
