"""C03: a procedure the controller accepts (Command Status SUCCESS/PENDING) must be concluded by its completion event
even when the peer cannot be reached: Remote Name Request to an address nobody owns; Read Remote (Supported / Extended)
Features and LE Read Remote Features on a connection whose peer has left the link.  Exit 1 if defect present."""
import asyncio, logging, sys
sys.path.insert(0, '/repo'); sys.path.insert(0, '/repo/tests')
logging.disable(logging.CRITICAL)
from bumble import hci
from bumble.core import PhysicalTransport
from test_utils import TwoDevices

bad = []

async def observe(host, send, want, label):
    events = []
    orig = host.on_hci_event_packet
    def spy(ev):
        events.append(ev)
        orig(ev)
    host.on_hci_event_packet = spy
    try:
        try:
            await asyncio.wait_for(send(), 1.0)
        except Exception as e:
            events.append(e)
        await asyncio.sleep(0.2)
    finally:
        host.on_hci_event_packet = orig
    names = [type(e).__name__ for e in events]
    if not any(want in n for n in names):
        bad.append(f'{label}: accepted, then no {want} (events: {names})')

async def main():
    # 1. remote name request to an absent device
    d = TwoDevices()
    d.devices[0].classic_enabled = True
    await d.devices[0].power_on()
    await observe(d.devices[0].host, lambda: d.devices[0].host.send_command(hci.HCI_Remote_Name_Request_Command(bd_addr=hci.Address('11:22:33:44:55:66/P'), page_scan_repetition_mode=0, reserved=0, clock_offset=0)),
                  'HCI_Remote_Name_Request_Complete_Event', 'Remote Name Request to an address nobody owns')
    # 2. classic features on a connection whose peer left
    d = TwoDevices()
    d.devices[0].classic_enabled = True
    d.devices[1].classic_enabled = True
    await d.setup_connection()
    await d.devices[0].power_on() if False else None
    # classic connection
    d2 = TwoDevices()
    for dev in d2.devices:
        dev.classic_enabled = True
    await d2.devices[0].power_on(); await d2.devices[1].power_on()
    d2.devices[1].classic_accept_any = True if hasattr(d2.devices[1], 'classic_accept_any') else None
    try:
        conn = await asyncio.wait_for(d2.devices[0].connect(d2.devices[1].public_address, transport=PhysicalTransport.BR_EDR), 2)
    except Exception as e:
        conn = None
        print('note: classic connect failed', repr(e))
    if conn is not None:
        d2.link.remove_controller(d2.controllers[1])
        h = d2.devices[0].host
        await observe(h, lambda: h.send_command(hci.HCI_Read_Remote_Supported_Features_Command(connection_handle=conn.handle)), 'HCI_Read_Remote_Supported_Features_Complete_Event', 'Read Remote Supported Features, peer gone')
        await observe(h, lambda: h.send_command(hci.HCI_Read_Remote_Extended_Features_Command(connection_handle=conn.handle, page_number=1)), 'HCI_Read_Remote_Extended_Features_Complete_Event', 'Read Remote Extended Features, peer gone')
    # 3. LE read remote features, peer gone
    d.link.remove_controller(d.controllers[1])
    h = d.devices[0].host
    await observe(h, lambda: h.send_command(hci.HCI_LE_Read_Remote_Features_Command(connection_handle=d.connections[0].handle)), 'HCI_LE_Read_Remote_Features_Complete_Event', 'LE Read Remote Features, peer gone')
    print('DEFECTS:')
    for b in bad: print('  -', b)
    return 1 if bad else 0
sys.exit(asyncio.run(main()))
