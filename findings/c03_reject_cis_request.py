"""C03: a CIS request that the peripheral's host rejects (LE Reject CIS Request) must conclude the central's pending
LE Create CIS with an LE CIS Established event carrying an error.  Exit 1 if defect present."""
import asyncio, logging, sys, warnings
sys.path.insert(0, '/repo'); sys.path.insert(0, '/repo/tests')
logging.disable(logging.CRITICAL); warnings.simplefilter('ignore')
from bumble import hci
from bumble.device import CigParameters
from test_utils import TwoDevices

bad = []
async def main():
    d = TwoDevices(); await d.setup_connection()
    reqs = asyncio.Queue()
    d.devices[1].on('cis_request', reqs.put_nowait)
    handles = await d.devices[0].setup_cig(CigParameters(cig_id=1, cis_parameters=[CigParameters.CisParameters(cis_id=2)], sdu_interval_c_to_p=0, sdu_interval_p_to_c=0))
    events = []
    h = d.devices[0].host
    orig = h.on_hci_event_packet
    h.on_hci_event_packet = lambda ev: (events.append(type(ev).__name__), orig(ev))[1]
    t = asyncio.create_task(d.devices[0].create_cis([(handles[0], d.connections[0])]))
    link = await asyncio.wait_for(reqs.get(), 1)
    try:
        await asyncio.wait_for(d.devices[1].reject_cis_request(link), 1)
    except Exception as e:
        bad.append(f'the peripheral\'s LE Reject CIS Request is answered with {type(e).__name__}: {e}')
    await asyncio.sleep(0.5)
    if 'HCI_LE_CIS_Established_Event' not in events:
        bad.append(f'the central never receives an LE CIS Established event after the rejection (events: {events})')
    if not t.done():
        bad.append('create_cis() is still waiting 0.5 s after the rejection')
        t.cancel()
    else:
        t.exception()
    print('DEFECTS:')
    for b in bad: print('  -', b)
    return 1 if bad else 0
sys.exit(asyncio.run(main()))
