"""C17: PacketPump.run spins without ever yielding once its stream has ended, freezing the event loop.

At end of stream AsyncPacketReader.next_packet() raises IncompleteReadError immediately (no suspension); PacketPump.run
caught it with `except Exception`, logged it and called next_packet() again - for ever, in one event-loop step, so no
other task ran again.  Expected: the packets before the end are delivered and the pump ends.
The check runs the pump in a thread with its own loop so that a frozen loop can be observed from outside.
"""
import asyncio
import logging
import sys
import threading

from bumble.transport.common import AsyncPacketReader, PacketPump

logging.disable(logging.CRITICAL)
state = {'packets': [], 'ticks': 0, 'ended': False}


class Sink:
    def on_packet(self, packet):
        state['packets'].append(packet)


async def ticker():
    while True:
        await asyncio.sleep(0.05)
        state['ticks'] += 1


async def main():
    reader = asyncio.StreamReader()
    reader.feed_data(bytes.fromhex('01030c00'))
    reader.feed_data(bytes.fromhex('040e04'))   # truncated event, then the stream ends
    reader.feed_eof()
    t = asyncio.create_task(ticker())
    await PacketPump(AsyncPacketReader(reader), Sink()).run()
    state['ended'] = True
    await asyncio.sleep(0.3)
    t.cancel()


th = threading.Thread(target=lambda: asyncio.run(main()), daemon=True)
th.start()
th.join(3)
print('packets:', [p.hex() for p in state['packets']], '| pump ended:', state['ended'], '| other task ran', state['ticks'], 'times')
sys.stdout.flush()
import os
os._exit(0 if state['ended'] and state['ticks'] >= 3 and len(state['packets']) == 1 else 1)
