"""C15: a default-namespace JsonKeyStore opened on a file holding exactly one other namespace must keep the file a
valid database after an update. Exit 1 if defect present."""
import asyncio, json, os, sys, tempfile
sys.path.insert(0, '/repo')
from bumble.keys import JsonKeyStore, PairingKeys

async def main():
    path = os.path.join(tempfile.mkdtemp(), 'keys.json')
    a = JsonKeyStore('AA:AA:AA:AA:AA:AA', path)
    await a.update('peer1', PairingKeys(ltk=PairingKeys.Key(bytes(16))))
    d = JsonKeyStore(None, path)                      # default namespace, file has exactly one namespace
    await d.update('peer2', PairingKeys(ltk=PairingKeys.Key(bytes([1]) * 16)))
    content = json.load(open(path))
    print('file content type after update:', type(content).__name__)
    ok = isinstance(content, dict) and (await a.get('peer1')) is not None and (await d.get('peer2')) is not None
    print('OK' if ok else 'DEFECT: key file is no longer a database / entries lost')
    return 0 if ok else 1
sys.exit(asyncio.run(main()))
