"""C10: an Exchange MTU Request is answered twice when a listener of the MTU update event raises.

Server.on_att_exchange_mtu_request sends the Exchange MTU Response and then calls bearer.on_att_mtu_update(), which
emits the connection's MTU update event.  An application listener that raises reached the generic `except Exception` of
on_gatt_pdu, which added an Error Response (Unlikely Error) for the same request.  Expected: exactly one reply.
"""
import asyncio
import logging
import sys

from bumble import att
from tests.test_utils import TwoDevices

logging.disable(logging.CRITICAL)


async def main():
    d = await TwoDevices.create_with_connection()
    server_connection = d.connections[1]

    def bad_listener(*_):
        raise RuntimeError('listener failed')

    server_connection.on(server_connection.EVENT_CONNECTION_ATT_MTU_UPDATE, bad_listener)
    replies = []
    original = d[1].gatt_server.send_gatt_pdu
    d[1].gatt_server.send_gatt_pdu = lambda bearer, pdu: (replies.append(bytes(pdu)), original(bearer, pdu))
    try:
        d[1].gatt_server.on_gatt_pdu_bytes(server_connection, bytes.fromhex('026400'))
    except Exception as e:  # noqa
        print('dispatcher raised', type(e).__name__)
    await asyncio.sleep(0.1)
    print('replies:', [r.hex() for r in replies])
    return len(replies) == 1


sys.exit(0 if asyncio.run(main()) else 1)
