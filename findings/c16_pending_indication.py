"""C16: an indication waiting for its confirmation when the link goes away must end promptly, and the server must keep
no per-bearer entry for the closed connection. Exit 1 if defect present."""
import asyncio, logging, sys
sys.path.insert(0, '/repo'); sys.path.insert(0, '/repo/tests')
logging.disable(logging.CRITICAL)
from bumble import gatt, gatt_server
from test_utils import TwoDevices

bad = []
async def main():
    d = TwoDevices()
    ch = gatt.Characteristic('AB01', gatt.Characteristic.Properties.INDICATE | gatt.Characteristic.Properties.READ, gatt.Characteristic.READABLE, b'v')
    d.devices[1].add_services([gatt.Service('AA00', [ch])])
    await d.setup_connection()
    server = d.devices[1].gatt_server
    conn = d.connections[1]
    # the client never confirms
    d.devices[0].gatt_client_never = True
    d.connections[0].gatt_client.on_gatt_pdu = lambda pdu: None if hasattr(d.connections[0], 'gatt_client') and d.connections[0].gatt_client else None
    task = asyncio.create_task(server.indicate_subscriber(conn, ch, b'x', force=True))
    await asyncio.sleep(0.05)
    await d.connections[0].disconnect()
    await asyncio.sleep(0.2)
    if not task.done():
        bad.append('indicate_subscriber() is still waiting for a confirmation 0.2 s after the connection was closed (released only by the 30 s GATT timeout)')
        task.cancel()
        await asyncio.sleep(0.05)
    else:
        task.exception() if not task.cancelled() else None
    stale = [t for t in ('subscribers', 'indication_semaphores', 'pending_confirmations') if conn in getattr(server, t)]
    if stale:
        bad.append(f'GATT server keeps entries for the closed connection in {stale}')
    print('DEFECTS:')
    for b in bad: print('  -', b)
    return 1 if bad else 0
sys.exit(asyncio.run(main()))
