"""C17/C20: an exception raised by the consumer of an RFCOMM data link (e.g. the HFP gateway's AT reader on a hostile
line) must not desynchronise the credit ledgers; the gateway answers such a line with ERROR. Exit 1 if defect present."""
import asyncio, logging, sys
sys.path.insert(0, '/repo')
logging.disable(logging.CRITICAL)
from bumble import rfcomm, hfp

bad = []
class Chan:
    EVENT_CLOSE = 'close'
    def __init__(self, mtu=1024):
        self.peer_mtu = mtu; self.sink = None; self.peer = None
        self.connection = type('C', (), {'peer_address': 'x'})()
    def on(self, *a): pass
    def write(self, data): asyncio.get_running_loop().call_soon(lambda: self.peer.sink(data))

async def main():
    a, b = Chan(), Chan(); a.peer, b.peer = b, a
    srv = rfcomm.Multiplexer(a, rfcomm.Multiplexer.Role.RESPONDER)
    cli = rfcomm.Multiplexer(b, rfcomm.Multiplexer.Role.INITIATOR)
    got = []
    srv.acceptor = lambda ch: (1000, 7)
    srv.on('dlc', got.append)
    await cli.connect()
    cd = await cli.open_dlc(3)
    await asyncio.sleep(0.01)
    sd = got[0]
    ag = hfp.AgProtocol(sd, hfp.AgConfiguration(supported_ag_features=[], supported_ag_indicators=[hfp.AgIndicatorState.call()], supported_hf_indicators=[], supported_ag_call_hold_operations=[], supported_audio_codecs=[]))
    answers = []
    cd.sink = lambda d: answers.append(d)
    for _ in range(10):
        cd.write(b'AT+VGS=(1)\r')          # parameter parses to a nested list: int(list) raises TypeError in the handler
        await asyncio.sleep(0.02)
    cd.write(b'AT+VGS=5\r')
    await asyncio.sleep(0.1)
    text = b''.join(answers).decode()
    if text.count('ERROR') != 10 or not text.rstrip().endswith('OK'):
        bad.append(f'10 hostile lines + 1 good line answered with {text.count("ERROR")} ERROR and {text.count("OK")} OK; client tx_credits={cd.tx_credits}, gateway believes the client has {sd.rx_credits}: the data link is wedged')
    print('DEFECTS:')
    for b_ in bad: print('  -', b_)
    return 1 if bad else 0
sys.exit(asyncio.run(main()))
