"""C16: RFCOMM / SDP / AVDTP transactions waiting on a link must end when the link goes away.
Exit 1 if a waiter is left hanging."""
import asyncio, logging, sys
sys.path.insert(0, '/repo')
logging.disable(logging.CRITICAL)
from tests.test_utils import TwoDevices, async_barrier
from bumble import core, sdp, rfcomm, l2cap, avdtp

bad = []

async def classic_pair():
    d = TwoDevices()
    d.devices[0].classic_enabled = True; d.devices[1].classic_enabled = True
    for dev in d.devices: await dev.power_on()
    await d[1].set_connectable(True)
    conn = await d[0].connect(d[1].public_address, transport=core.PhysicalTransport.BR_EDR)
    await async_barrier()
    return d, conn

async def ended(task, what):
    try:
        await asyncio.wait_for(task, 1)
    except asyncio.TimeoutError:
        bad.append(f'{what} still waiting after the ACL link was disconnected')
    except (Exception, asyncio.CancelledError) as e:
        print(what, 'ended with', type(e).__name__)

async def sdp_case():
    d, conn = await classic_pair()
    client = sdp.Client(conn)
    await client.connect()
    d[1].sdp_server.on_pdu = lambda *a: None        # server never answers
    for ch in d[1].l2cap_channel_manager.channels.get(1, {}).values(): ch.sink = lambda pdu: None
    t = asyncio.ensure_future(client.search_services([core.UUID.from_16_bits(0x1101)]))
    await asyncio.sleep(0.05)
    await conn.disconnect(); await async_barrier()
    await ended(t, 'SDP search')

async def rfcomm_case():
    d, conn = await classic_pair()
    server = rfcomm.Server(d[1])
    chan = server.listen(lambda dlc: None)
    client = rfcomm.Client(conn)
    mux = await client.start()
    dlc = await mux.open_dlc(chan)
    # peer stops giving credits: make the DLC run out and block in drain()
    dlc.process_tx = lambda: None                   # nothing can be sent any more (no credits)
    dlc.write(b'x' * 100)
    t = asyncio.ensure_future(dlc.drain())
    await asyncio.sleep(0.05)
    await conn.disconnect(); await async_barrier()
    await ended(t, 'RFCOMM DLC.drain()')

async def avdtp_case():
    d, conn = await classic_pair()
    listener = avdtp.Listener.for_device(d[1])
    listener.on('connection', lambda p: setattr(p.l2cap_channel, 'sink', lambda pdu: None))   # acceptor never answers
    proto = await avdtp.Protocol.connect(conn)
    await async_barrier()
    t = asyncio.ensure_future(proto.discover_remote_endpoints())
    await asyncio.sleep(0.05)
    await conn.disconnect(); await async_barrier()
    await ended(t, 'AVDTP discover')

async def main():
    for f in (sdp_case, rfcomm_case, avdtp_case):
        try:
            await asyncio.wait_for(f(), 20)
        except Exception as e:
            print(f.__name__, 'harness error', repr(e))
    print('DEFECTS:')
    for b in bad: print('  -', b)
    return 1 if bad else 0
sys.exit(asyncio.run(main()))
