"""C19: SDP matching / per-client state, AVDTP fragmentation and reassembly, AVCTP reassembly. Exit 1 if a defect is present."""
import asyncio, logging, sys
sys.path.insert(0, '/repo')
logging.disable(logging.CRITICAL)
from bumble import sdp, core, avdtp, avctp

bad = []
which = sys.argv[1] if len(sys.argv) > 1 else 'all'

class D: pass

def sdp_all():
    srv = sdp.Server(D())
    A = core.UUID.from_16_bits(0x1101); B = core.UUID.from_16_bits(0x1102)
    srv.service_records = {1: [sdp.ServiceAttribute(1, sdp.DataElement.sequence([sdp.DataElement.uuid(A)]))]}
    m = srv.match_services(sdp.DataElement.sequence([sdp.DataElement.uuid(A), sdp.DataElement.uuid(B)]))
    if list(m):
        bad.append('SDP: a pattern {A, B} matches a record that only contains A')

def sdp_clients():
    class Ch:
        peer_mtu = 48
        def __init__(self): self.out = []; self.sink = None
        def write(self, b): self.out.append(bytes(b))
    srv = sdp.Server(D())
    A = core.UUID.from_16_bits(0x1101)
    srv.service_records = {0x10001: [sdp.ServiceAttribute(1, sdp.DataElement.sequence([sdp.DataElement.uuid(A)])), sdp.ServiceAttribute(0x100, sdp.DataElement.text_string(b'x' * 100))]}
    c1, c2 = Ch(), Ch()
    srv.on_connection(c1); srv.on_connection(c2)
    req = sdp.SDP_ServiceAttributeRequest(transaction_id=1, service_record_handle=0x10001, maximum_attribute_byte_count=0xFFFF,
                                          attribute_id_list=sdp.DataElement.sequence([sdp.DataElement.unsigned_integer_32(0x0000FFFF)]), continuation_state=bytes([0]))
    c1.sink(bytes(req))          # client 1 asks on its own channel
    if not c1.out:
        bad.append('SDP: with two clients connected, the answer to client 1 is written to the other client\'s channel')

class L2:
    def __init__(self, mtu): self.peer_mtu = mtu; self.out = []
    def write(self, b): self.out.append(bytes(b))

class Msg:
    message_type = 0; signal_identifier = 1
    def __init__(self, n): self.payload = bytes((i * 7) & 0xFF for i in range(n))
    def __str__(self): return 'M'

def avdtp_frag():
    for n in range(40, 100):
        p = avdtp.Protocol.__new__(avdtp.Protocol); p.l2cap_channel = L2(48)
        avdtp.Protocol.send_message(p, 3, Msg(n))
        if any(len(x) > 48 for x in p.l2cap_channel.out):
            bad.append(f'AVDTP: payload {n}: a packet exceeds the peer MTU'); return
        got = []
        asm = avdtp.MessageAssembler(lambda label, msg: got.append(msg))
        import bumble.avdtp as a
        orig = a.Message.create
        a.Message.create = staticmethod(lambda sig, mt, payload: payload)
        try:
            for x in p.l2cap_channel.out: asm.on_pdu(x)
        finally:
            a.Message.create = orig
        if got != [Msg(n).payload]:
            bad.append(f'AVDTP: a {n}-byte message at MTU 48 is not reassembled byte-identically ({len(p.l2cap_channel.out)} packets, got {[len(g) for g in got]})'); return

def avdtp_neutral():
    import bumble.avdtp as a
    got = []
    asm = a.MessageAssembler(lambda label, msg: got.append(msg))
    orig = a.Message.create
    a.Message.create = staticmethod(lambda sig, mt, payload: payload)
    try:
        start = bytes([(1 << 4) | (1 << 2) | 0, 1, 2]) + b'ab'
        end = bytes([(1 << 4) | (3 << 2) | 0]) + b'cd'
        asm.on_pdu(start)                       # message 1 started ...
        asm.on_pdu(start)                       # ... interrupted by a new start (discards message 1 only)
        asm.on_pdu(end)
    finally:
        a.Message.create = orig
    if got != [b'abcd']:
        bad.append(f'AVDTP: after an interrupted message the next well-formed 2-packet message is lost (got {got})')

def avctp_spec():
    got = []
    asm = avctp.MessageAssembler(lambda *a: got.append(a))
    asm.on_pdu(bytes([0x10 | (1 << 2), 2, 0x11, 0x0e]) + b'ab')     # START: count=2, PID, payload
    asm.on_pdu(bytes([0x10 | (3 << 2)]) + b'cdef')                   # END: no PID (AVCTP spec 6.1)
    if not got or got[0][4] != b'abcdef':
        bad.append(f'AVCTP: a message fragmented as the specification lays out (PID in the start packet only) is not reassembled (got {got})')

for name, f in (('sdp', sdp_all), ('sdp', sdp_clients), ('avdtp', avdtp_frag), ('avdtp', avdtp_neutral), ('avctp', avctp_spec)):
    if which in ('all', name):
        try: f()
        except Exception as e: print(f.__name__, 'harness error', repr(e))
print('DEFECTS:')
for b in bad: print('  -', b)
sys.exit(1 if bad else 0)
