"""C16: a CCCD write that is processed after the link went away re-creates the subscription entry of the closed bearer.

Write Requests are handled in a spawned task (run_in_task).  When the Disconnection Complete event is processed between
the arrival of the request and the run of that task, Server.on_disconnection() has already removed the bearer's state and
write_cccd() re-created `subscribers[bearer]` with setdefault(): the entry of a dead connection stays for ever (and
notify_subscribers keeps addressing it).  Expected: no subscription state for a closed connection.
"""
import asyncio
import logging
import sys

from bumble import att, gatt
from tests.test_utils import TwoDevices

logging.disable(logging.CRITICAL)


async def main():
    d = TwoDevices()
    ch = gatt.Characteristic(
        'FDB159DB-036C-49E3-B3DB-6325AC750806',
        gatt.Characteristic.Properties.READ | gatt.Characteristic.Properties.NOTIFY,
        gatt.Characteristic.READABLE,
        bytes([1]),
    )
    d[1].add_service(gatt.Service('3A657F47-D34F-46B3-B1EC-698E29B6B829', [ch]))
    await d.setup_connection()
    c1 = d.connections[1]
    server = d[1].gatt_server
    cccd = next(a for a in server.attributes if a.type == gatt.GATT_CLIENT_CHARACTERISTIC_CONFIGURATION_DESCRIPTOR)
    request = att.ATT_Write_Request(attribute_handle=cccd.handle, attribute_value=bytes([1, 0]))
    server.on_gatt_pdu_bytes(c1, bytes(request))          # the request arrives ...
    d[1].host.emit('disconnection', c1.handle, 0x13)      # ... and the link goes away before its task has run
    await asyncio.sleep(0.2)
    print('subscribers of the closed connection:', server.subscribers.get(c1))
    return c1 not in server.subscribers


sys.exit(0 if asyncio.run(main()) else 1)
