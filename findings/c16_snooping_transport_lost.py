"""C16: with a snooping transport (BUMBLE_SNOOPER / --snoop) between the host and the real transport, the loss of the
transport never reaches the host: the wrapper installed as the source's sink has no on_transport_lost, so pending HCI
commands wait forever.  Run from a bumble checkout: exit 0 when the sink behind the wrapper is told, 1 otherwise."""
import asyncio, sys
from bumble.transport.common import SnoopingTransport, Transport, BaseSource


class NullSnooper:
    def snoop(self, *a):
        pass


class Probe:
    lost = 0

    def on_packet(self, packet):
        pass

    def on_transport_lost(self):
        self.lost += 1


class NullSink:
    def on_packet(self, packet):
        pass


async def main():
    source = BaseSource()
    t = SnoopingTransport(Transport(source, NullSink()), NullSnooper())
    probe = Probe()
    t.source.set_packet_sink(probe)
    source.on_transport_lost()
    if probe.lost != 1:
        print(f'FAIL: transport lost, host-side sink notified {probe.lost} time(s)')
        return 1
    print('ok: the loss reaches the sink behind the snooping wrapper')
    return 0


sys.exit(asyncio.run(main()))
