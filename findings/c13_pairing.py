"""C13: (a) after legacy bonding both stores must yield the same key for the central's next encryption request;
(b) when a command handler raises, the local side must report failure as well (pair() must not hang).
Exit 1 if a defect is present."""
import asyncio, logging, sys
sys.path.insert(0, '/repo')
logging.disable(logging.CRITICAL)
from tests.test_utils import TwoDevices, async_barrier
from bumble import keys as keys_mod, pairing, smp

bad = []

async def ltk_slots():
    d = TwoDevices()
    for dev in d.devices:
        dev.keystore = keys_mod.MemoryKeyStore()
        dev.pairing_config_factory = lambda c: pairing.PairingConfig(sc=False, mitm=False, bonding=True)
    await d.setup_connection()
    await asyncio.wait_for(d[0].pair(d.connections[0]), 5)
    await asyncio.sleep(0.1)
    kc = (await d[0].keystore.get_all())[0][1]
    d[1].smp_manager.sessions.clear()          # later connection: no live session, keys come from the store
    # same roles: device 0 is central again
    ans = await d[1].get_long_term_key(d.connections[1].handle, kc.ltk_central.rand, kc.ltk_central.ediv)
    print('same roles: central uses', kc.ltk_central.value.hex()[:8], 'peripheral answers', ans.hex()[:8] if ans else None)
    if ans != kc.ltk_central.value:
        bad.append('legacy bonding: on reconnection in the same roles the peripheral answers a different LTK than the central uses')
    # swapped roles: device 1 would be central
    kp = (await d[1].keystore.get_all())[0][1]
    c0 = d.connections[0]
    import bumble.hci as hci
    old = c0.role; c0.role = hci.Role.PERIPHERAL
    d[0].smp_manager.sessions.clear()
    ans2 = await d[0].get_long_term_key(c0.handle, kp.ltk_central.rand, kp.ltk_central.ediv)
    c0.role = old
    print('swapped roles: central uses', kp.ltk_central.value.hex()[:8], 'peripheral answers', ans2.hex()[:8] if ans2 else None)
    if ans2 != kp.ltk_central.value:
        bad.append('legacy bonding: on reconnection in swapped roles the stores disagree')

async def failure_symmetry():
    d = TwoDevices()
    for dev in d.devices:
        dev.pairing_config_factory = lambda c: pairing.PairingConfig(sc=True, mitm=False, bonding=True)
    await d.setup_connection()
    # the initiator's handler for the peer's public key raises (e.g. invalid point)
    def boom(self, command): raise ValueError('invalid public key')
    orig = smp.Session.on_smp_pairing_public_key_command
    async def run():
        sessions = []
        o = smp.Manager.on_session_start
        try:
            t = asyncio.ensure_future(d[0].pair(d.connections[0]))
            await asyncio.sleep(0)
            for s in d[0].smp_manager.sessions.values():
                s.on_smp_pairing_dhkey_check_command = lambda command, s=s: boom(s, command)
            await asyncio.wait_for(t, 3)
        except asyncio.TimeoutError:
            bad.append('a raising command handler sends Pairing Failed to the peer but the local pair() never completes')
        except Exception as e:
            print('pair() ended with', type(e).__name__)
    await run()

async def main():
    await asyncio.wait_for(ltk_slots(), 20)
    await asyncio.wait_for(failure_symmetry(), 20)
    print('DEFECTS:')
    for b in bad: print('  -', b)
    return 1 if bad else 0
sys.exit(asyncio.run(main()))
