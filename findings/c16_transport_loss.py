"""C16: after loss of the HCI transport all per-connection state must be gone. Exit 1 if defect present."""
import asyncio, logging, sys
sys.path.insert(0, '/repo')
logging.disable(logging.CRITICAL)
from tests.test_utils import TwoDevices, async_barrier
from bumble import l2cap, gatt, att
from bumble.gatt import Service, Characteristic
from bumble.att import Attribute

async def main():
    d = TwoDevices()
    ch = Characteristic('11111111-1111-1111-1111-111111111111', Characteristic.Properties.READ | Characteristic.Properties.NOTIFY, Attribute.READABLE, b'v')
    d[0].add_service(Service('33333333-3333-3333-3333-333333333333', [ch]))
    await d.setup_connection()
    c0 = d.connections[0]
    d[0].gatt_server.subscribers[c0] = {ch.handle: b'\x01\x00'}
    d[1].create_l2cap_server(l2cap.LeCreditBasedChannelSpec(psm=0x81), handler=lambda c: None)
    await c0.create_l2cap_channel(l2cap.LeCreditBasedChannelSpec(psm=0x81))
    c0.send_l2cap_pdu(0x3F, b'x')
    h = d[0].host
    h.on_transport_lost()
    await async_barrier()
    bad = []
    if h.connections: bad.append(f'Host.connections still holds {list(h.connections)}')
    if d[0].connections: bad.append('Device.connections not empty')
    if d[0].gatt_server.subscribers: bad.append('GATT server subscriptions of the lost connection remain')
    m = d[0].l2cap_channel_manager
    if any(m.channels.values()) or any(m.le_coc_channels.values()): bad.append('L2CAP channel tables still hold channels of the lost connection')
    q = h.le_acl_packet_queue
    if q is not None and q._connection_state: bad.append('per-connection data queue state remains')
    print('DEFECTS:')
    for b in bad: print('  -', b)
    return 1 if bad else 0
sys.exit(asyncio.run(main()))
