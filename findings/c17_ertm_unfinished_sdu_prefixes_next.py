"""C17: an unfinished segmented SDU is prefixed to the next well-formed SDU of an ERTM channel.

EnhancedRetransmissionProcessor.on_pdu appended every I-frame payload to `_in_sdu`, also for a START or UNSEGMENTED frame
that begins a new SDU: a peer that sends a START segment and never finishes it makes the following well-formed request
arrive with the garbage in front.  Expected: a frame that starts an SDU starts it from nothing.
"""
import sys

from bumble import l2cap

SAR = l2cap.InformationEnhancedControlField.SegmentationAndReassembly


class Chan:
    spec = l2cap.ClassicChannelSpec(psm=1, mode=l2cap.TransmissionMode.ENHANCED_RETRANSMISSION)

    def __init__(self):
        self.got = []

    def send_pdu(self, pdu):
        pass

    def on_sdu(self, sdu):
        self.got.append(sdu)


ch = Chan()
p = l2cap.EnhancedRetransmissionProcessor(ch)


def iframe(tx, sar, payload, sdu_length=None):
    head = bytes(l2cap.InformationEnhancedControlField(tx_seq=tx, req_seq=0, sar=sar))
    return head + (sdu_length.to_bytes(2, 'little') if sdu_length is not None else b'') + payload


p.on_pdu(iframe(0, SAR.START, b'GARBAGE', sdu_length=100))   # never completed
p.on_pdu(iframe(1, SAR.UNSEGMENTED, b'REQUEST'))
p.on_pdu(iframe(2, SAR.START, b'MORE GARBAGE', sdu_length=100))
p.on_pdu(iframe(3, SAR.START, b'SECOND ', sdu_length=14))
p.on_pdu(iframe(4, SAR.END, b'REQUEST'))
print('delivered:', ch.got)
sys.exit(0 if ch.got == [b'REQUEST', b'SECOND REQUEST'] else 1)
