"""C17: one malformed unsolicited result code (e.g. +CIEV with an unknown indicator index, a non-numeric +VGS) must not
end the Hands-Free unsolicited-result loop: results that follow (RING) still have to be handled.  Exit 1 if defect present."""
import asyncio, logging, sys
sys.path.insert(0, '/repo')
logging.disable(logging.CRITICAL)
from bumble import hfp

bad = []
class FakeChannel:
    EVENT_CLOSE = 'close'
    def on(self, *a): pass
class FakeMux: l2cap_channel = FakeChannel()
class D:
    def __init__(self): self.sink = None; self.peer = None; self.multiplexer = FakeMux()
    def write(self, d):
        d = d.encode() if isinstance(d, str) else d
        asyncio.get_running_loop().call_soon(lambda: self.peer.sink(d))

async def case(line, label):
    a, b = D(), D(); a.peer, b.peer = b, a
    ag = hfp.AgProtocol(a, hfp.AgConfiguration(supported_ag_features=[], supported_ag_indicators=[hfp.AgIndicatorState.call()], supported_hf_indicators=[], supported_ag_call_hold_operations=[], supported_audio_codecs=[]))
    hf = hfp.HfProtocol(b, hfp.HfConfiguration(supported_hf_features=[], supported_hf_indicators=[], supported_audio_codecs=[]))
    rings = []
    hf.on(hf.EVENT_RING, lambda: rings.append(1))
    task = asyncio.create_task(hf.run())
    await asyncio.sleep(0.2)
    a.write(f'\r\n{line}\r\n')
    await asyncio.sleep(0.05)
    a.write('\r\nRING\r\n')
    await asyncio.sleep(0.1)
    if not rings:
        bad.append(f'{label}: the RING that follows is never handled (run task done: {task.done()})')
    task.cancel()

async def main():
    await case('+CIEV: 99,1', '+CIEV with an indicator index out of range')
    await case('+VGS: loud', 'non-numeric +VGS')
    await case('+BVRA: 7', '+BVRA with an unknown state')
    print('DEFECTS:')
    for b in bad: print('  -', b)
    return 1 if bad else 0
sys.exit(asyncio.run(main()))
