"""C01: transmit-power fields are signed octets; a negative value must serialise and parse back. Exit 1 if defect present."""
import sys
sys.path.insert(0, '/repo')
from bumble import hci
bad = []
# behavioural: a command carrying a negative advertising TX power
try:
    cmd = hci.HCI_LE_Set_Extended_Advertising_Parameters_Command(
        advertising_handle=0, advertising_event_properties=0, primary_advertising_interval_min=32, primary_advertising_interval_max=32,
        primary_advertising_channel_map=7, own_address_type=0, peer_address_type=0, peer_address=hci.Address('00:00:00:00:00:00'),
        advertising_filter_policy=0, advertising_tx_power=-10, primary_advertising_phy=1, secondary_advertising_max_skip=0,
        secondary_advertising_phy=1, advertising_sid=0, scan_request_notification_enable=0)
    raw = bytes(cmd)
    back = hci.HCI_Packet.from_bytes(raw)
    if back.advertising_tx_power != -10:
        bad.append(f'advertising_tx_power=-10 parses back as {back.advertising_tx_power}')
except Exception as e:
    bad.append(f'HCI_LE_Set_Extended_Advertising_Parameters_Command(advertising_tx_power=-10) cannot be serialised: {type(e).__name__}: {e}')
print('DEFECTS:')
for b in bad: print('  -', b)
sys.exit(1 if bad else 0)
