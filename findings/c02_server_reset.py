"""C02: on a server transport a new client's stream must be framed from its first byte,
wherever the previous client's stream was cut off. Exit 1 if defect present."""
import asyncio, logging, sys, socket, os, tempfile
sys.path.insert(0, '/repo')
logging.disable(logging.CRITICAL)
from bumble.transport import tcp_server, unix

class Sink:
    def __init__(self): self.packets = []
    def on_packet(self, p): self.packets.append(bytes(p))

async def run(kind):
    sink = Sink()
    if kind == 'tcp':
        s = socket.socket(); s.bind(('127.0.0.1', 0)); port = s.getsockname()[1]
        t = await tcp_server.open_tcp_server_transport_with_socket(s)
        async def conn(): return await asyncio.open_connection('127.0.0.1', port)
    else:
        path = os.path.join(tempfile.mkdtemp(), 'hci.sock')
        t = await unix.open_unix_server_transport(path)
        async def conn(): return await asyncio.open_unix_connection(path)
    t.source.set_packet_sink(sink)
    good = bytes([0x04, 0x0e, 0x04, 0x01, 0x03, 0x0c, 0x00])
    r, w = await conn()
    w.write(good[:4]); await w.drain()          # client 1 is cut mid-packet
    await asyncio.sleep(0.05); w.close(); await asyncio.sleep(0.05)
    r, w = await conn()
    w.write(good); await w.drain()              # client 2 sends one well-formed packet
    await asyncio.sleep(0.05); w.close(); await asyncio.sleep(0.05)
    ok = sink.packets == [good]
    print(kind, 'packets delivered:', [p.hex() for p in sink.packets], 'OK' if ok else 'WRONG')
    return ok

async def main():
    res = [await run('tcp'), await run('unix')]
    return 0 if all(res) else 1
sys.exit(asyncio.run(main()))
