"""C16: procedures of the form `await send_async_command(...); await connection.cancel_on_disconnection(future)` attach
their disconnection listener after the command round trip.  When the Disconnection Complete for that link is processed in
between (it was queued right behind the Command Status), the listener is attached to a connection that will never emit
'disconnection' again and the caller waits for ever.
Run from a bumble checkout (cwd): exit 0 when the operation ends (error / cancellation), 1 when it hangs."""
import asyncio, logging, sys
logging.disable(logging.CRITICAL)
sys.path.insert(0, 'tests')
from bumble import hci
from test_utils import TwoDevices  # type: ignore


async def main():
    devices = await TwoDevices.create_with_connection()
    conn = devices.connections[0]
    ctl = devices.controllers[0]
    orig = ctl.on_hci_le_read_remote_features_command

    def handler(command):
        # the command is accepted, and the link drops (supervision timeout) right behind the status
        ctl._send_hci_command_status(hci.HCI_COMMAND_STATUS_PENDING, command.op_code)
        c = ctl.find_le_connection_by_handle(command.connection_handle)
        ctl.on_le_disconnected(c, hci.HCI_CONNECTION_TIMEOUT_ERROR)
        return None
    ctl.on_hci_le_read_remote_features_command = handler
    t = asyncio.ensure_future(devices[0].get_remote_le_features(conn))
    await asyncio.wait([t], timeout=1.0)
    if not t.done():
        t.cancel()
        print('FAIL: get_remote_le_features() still waiting 1 s after its connection was reported disconnected')
        return 1
    print('ok: ended with', 'CancelledError' if t.cancelled() else repr(t.exception()))
    return 0


sys.exit(asyncio.run(main()))
