"""C13: legacy bonding where only one side distributes its LTK (the other side's key-distribution mask lacks ENC_KEY):
each store must hold only keys that were really exchanged, so that on a later connection the two sides yield the same
key for the central's encryption request, or none at all.  Exit 1 if defect present."""
import asyncio, logging, sys
sys.path.insert(0, '/repo')
logging.disable(logging.CRITICAL)
from tests.test_utils import TwoDevices
from bumble import keys as keys_mod, pairing, smp
from bumble.pairing import PairingConfig, PairingDelegate

bad = []

class Deleg(PairingDelegate):
    def __init__(self, dist):
        super().__init__(local_initiator_key_distribution=dist, local_responder_key_distribution=dist)

async def run(init_dist, resp_dist, label):
    d = TwoDevices()
    dists = [init_dist, resp_dist]
    for i, dev in enumerate(d.devices):
        dev.keystore = keys_mod.MemoryKeyStore()
        dev.pairing_config_factory = (lambda c, i=i: PairingConfig(sc=False, mitm=False, bonding=True, delegate=Deleg(dists[i])))
    await d.setup_connection()
    await asyncio.wait_for(d[0].pair(d.connections[0]), 5)
    await asyncio.sleep(0.1)
    k0 = (await d[0].keystore.get_all())[0][1]
    k1 = (await d[1].keystore.get_all())[0][1]
    for who, k in (('initiator', k0), ('responder', k1)):
        for slot in ('ltk_central', 'ltk_peripheral'):
            key = getattr(k, slot)
            if key is not None and not key.value:
                bad.append(f'{label}: the {who} stored an empty key in {slot}')
    # same roles on a later connection: central = device 0 uses its ltk_central, peripheral = device 1 answers
    d[1].smp_manager.sessions.clear()
    used = k0.ltk_central
    if used is not None and used.value:
        ans = await d[1].get_long_term_key(d.connections[1].handle, used.rand, used.ediv)
        if ans != used.value:
            bad.append(f'{label}: same roles: central uses {used.value.hex()[:8]}, peripheral answers {ans.hex()[:8] if ans else None}')
    else:
        # the central has no key to use: the peripheral must not claim one that was never sent
        kp = k1.ltk_peripheral
        if kp is not None and kp.value:
            bad.append(f'{label}: the responder stored an LTK it never distributed ({kp.value.hex()[:8]}) as ltk_peripheral while the initiator holds no key')

async def main():
    E = PairingDelegate.KeyDistribution.DISTRIBUTE_ENCRYPTION_KEY
    await run(E, 0, 'initiator ENC_KEY, responder none')
    await run(0, E, 'initiator none, responder ENC_KEY')
    print('DEFECTS:')
    for b in bad: print('  -', b)
    return 1 if bad else 0
sys.exit(asyncio.run(main()))
