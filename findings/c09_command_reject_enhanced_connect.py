"""C09: create_enhanced_credit_based_channels() waits for ever when the peer answers with Command Reject.

A peer that does not implement the Credit Based Connection Request (code 0x17) answers it with Command Reject.
ChannelManager.on_l2cap_command_reject only looked at the pending LE requests (le_coc_requests), never at
pending_credit_based_connections: the caller's future was never settled, its channels stayed registered.
Expected: the open fails, nothing is left in the tables.
"""
import asyncio
import logging
import sys

from bumble import l2cap
from tests.test_utils import TwoDevices

logging.disable(logging.CRITICAL)


async def main():
    d = await TwoDevices.create_with_connection()
    # the peer does not know the enhanced request: its manager answers with Command Reject
    d[1].l2cap_channel_manager.on_l2cap_credit_based_connection_request = None
    m = d[0].l2cap_channel_manager
    c0 = d.connections[0]
    try:
        await asyncio.wait_for(m.create_enhanced_credit_based_channels(c0, l2cap.LeCreditBasedChannelSpec(psm=0x81), 2), 2)
        outcome = 'opened?'
    except asyncio.TimeoutError:
        outcome = 'HANG (timeout)'
    except Exception as e:  # noqa
        outcome = f'failed with {type(e).__name__}: {e}'
    await asyncio.sleep(0.1)
    left = {k: list(v) for k, v in m.channels.items() if v}
    pending = {k: list(v) for k, v in m.pending_credit_based_connections.items() if v}
    print(outcome, '| channels left:', left, '| pending:', pending)
    return outcome.startswith('failed') and not left and not pending


sys.exit(0 if asyncio.run(main()) else 1)
