"""C08: after the receiver's sink raises on one SDU, every later SDU of an ERTM channel is delivered corrupted.

EnhancedRetransmissionProcessor.on_pdu cleared `_in_sdu` only after channel.on_sdu() returned: when the sink raised, the
failed SDU stayed in the buffer and was prefixed to every following SDU.  Expected: the SDUs after the failing one are
delivered intact.
"""
import sys

from bumble import l2cap


class Chan:
    spec = l2cap.ClassicChannelSpec(psm=1, mode=l2cap.TransmissionMode.ENHANCED_RETRANSMISSION)

    def __init__(self):
        self.got = []
        self.sent = []

    def send_pdu(self, pdu):
        self.sent.append(bytes(pdu))

    def on_sdu(self, sdu):
        if sdu.startswith(b'BAD'):
            raise ValueError('malformed sdu')
        self.got.append(sdu)


ch = Chan()
p = l2cap.EnhancedRetransmissionProcessor(ch)


def iframe(tx, payload):
    return bytes(l2cap.InformationEnhancedControlField(tx_seq=tx, req_seq=0, sar=l2cap.InformationEnhancedControlField.SegmentationAndReassembly.UNSEGMENTED)) + payload


for i, m in enumerate((b'BAD!', b'good 1', b'good 2')):
    try:
        p.on_pdu(iframe(i, m))
    except Exception as e:  # noqa
        print('sdu', i, '->', type(e).__name__)
print('delivered:', ch.got)
sys.exit(0 if ch.got == [b'good 1', b'good 2'] else 1)
