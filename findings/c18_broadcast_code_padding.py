"""C18: a Broadcast Code AD structure does not re-serialise to the bytes it was parsed from.

The Broadcast_Code is a 16-octet field (a UTF-8 string padded with zeros).  BroadcastCode.from_bytes removed the padding
(and leading zero octets as well), BroadcastCode.__bytes__ wrote the bare string: a well-formed 16-octet structure came
back 3 octets long.  Expected: bytes(BroadcastCode.from_bytes(x)) == x, and the value round-trips.
"""
import sys

from bumble import core, data_types

wire = b'abc'.ljust(16, b'\x00')
code = data_types.BroadcastCode.from_bytes(wire)
out = bytes(code)
print(repr(str.__str__(code)), '->', out.hex())
ad = core.AdvertisingData([code])
back = core.AdvertisingData.from_bytes(bytes(ad))
ok = out == wire and str.__str__(data_types.BroadcastCode.from_bytes(out)) == 'abc' and len(bytes(ad)) == 18
sys.exit(0 if ok else 1)
