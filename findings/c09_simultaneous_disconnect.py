"""C09: when both ends disconnect a classic channel at the same time, both disconnect() calls must complete.
Exit 1 if defect present."""
import asyncio, logging, sys
sys.path.insert(0, '/repo'); sys.path.insert(0, '/repo/tests')
logging.disable(logging.CRITICAL)
from bumble import l2cap
from test_utils import TwoDevices

bad = []
async def main():
    d = TwoDevices()
    await d.setup_connection()
    chans = []
    d.devices[1].create_l2cap_server(spec=l2cap.ClassicChannelSpec(psm=0x1001), handler=chans.append)
    c = await d.connections[0].create_l2cap_channel(spec=l2cap.ClassicChannelSpec(psm=0x1001))
    await asyncio.sleep(0.02)
    s = chans[0]
    try:
        await asyncio.wait_for(asyncio.gather(c.disconnect(), s.disconnect()), 2)
    except asyncio.TimeoutError:
        bad.append(f'simultaneous disconnect: disconnect() never returns (client {c.state.name}, server {s.state.name}; waiter pending: {c.disconnection_result is not None}/{s.disconnection_result is not None})')
    print('DEFECTS:')
    for b in bad: print('  -', b)
    return 1 if bad else 0
sys.exit(asyncio.run(main()))
