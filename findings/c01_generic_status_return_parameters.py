"""C01: HCI_GenericStatusReturnParameters serialises without its data and cannot be parsed.

Return-parameter classes get their `fields` when they are passed to HCI_SyncCommand.sync_command(); this one never is,
so it inherited [status] from HCI_StatusReturnParameters: bytes() dropped `data`, from_parameters() raised TypeError.
Expected: a Command Complete event built with it round-trips.
"""
import sys

from bumble import hci

rp = hci.HCI_GenericStatusReturnParameters(status=hci.HCI_ErrorCode.SUCCESS, data=b'abc')
out = bytes(rp)
try:
    back = hci.HCI_GenericStatusReturnParameters.from_parameters(b'\x00abc')
    parsed = (back.status, back.data)
except Exception as e:  # noqa
    parsed = f'{type(e).__name__}: {e}'
print('bytes:', out.hex(), '| parsed:', parsed)
sys.exit(0 if out == b'\x00abc' and parsed == (hci.HCI_ErrorCode.SUCCESS, b'abc') else 1)
