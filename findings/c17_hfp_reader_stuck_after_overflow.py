"""C17: after 64 KiB without a line end, HfpProtocol never delivers a line again.

HfpProtocol.feed refused any chunk that would take its buffer beyond MAX_BUFFER_SIZE but kept the buffer: once it was
full, every later chunk - including the '\\r' that would have ended the line, and every well-formed command after it - was
dropped, for the life of the connection.  Expected: the over-long line is lost, the lines after it are delivered.
"""
import sys

from bumble import hfp


class Dlc:
    sink = None

    def write(self, data):
        pass


p = hfp.HfpProtocol(Dlc())
chunk = b'A' * 1024
for _ in range(64):
    p.feed(chunk)            # exactly MAX_BUFFER_SIZE characters, no line end
p.feed(b'BBBB')              # does not fit
p.feed(b'\r')                # end of the over-long line
p.feed(b'AT+BRSF=1\r')
p.feed(b'AT+CIND?\r')
print('lines delivered:', [l if len(l) < 40 else f'<{len(l)} chars>' for l in p.lines])
sys.exit(0 if list(p.lines)[-2:] == ['AT+BRSF=1', 'AT+CIND?'] else 1)
