"""C16: two GATT requests are in progress on one connection (the second waits for the request slot) when the link goes away:
both must end promptly with an error or cancellation.  Exit 1 if defect present."""
import asyncio, logging, sys
sys.path.insert(0, '/repo'); sys.path.insert(0, '/repo/tests')
logging.disable(logging.CRITICAL)
from bumble import gatt, att
from test_utils import TwoDevices

bad = []
async def main():
    d = TwoDevices()
    ch = gatt.Characteristic('AB01', gatt.Characteristic.Properties.READ, gatt.Characteristic.READABLE, b'v')
    d.devices[1].add_services([gatt.Service('AA00', [ch])])
    await d.setup_connection()
    client = d.connections[0].gatt_client
    # the server never answers
    d.devices[1].gatt_server.on_gatt_pdu = lambda *a: None
    t1 = asyncio.create_task(client.send_request(att.ATT_Read_Request(attribute_handle=ch.handle)))
    t2 = asyncio.create_task(client.send_request(att.ATT_Read_Request(attribute_handle=ch.handle)))
    await asyncio.sleep(0.05)
    await d.connections[1].disconnect()
    await asyncio.sleep(0.3)
    for name, t in (('first', t1), ('second (queued)', t2)):
        if not t.done():
            bad.append(f'the {name} request is still waiting 0.3 s after the connection was closed')
            t.cancel()
    await asyncio.sleep(0.05)
    for t in (t1, t2):
        if t.done() and not t.cancelled():
            t.exception()
    print('DEFECTS:')
    for b in bad: print('  -', b)
    return 1 if bad else 0
sys.exit(asyncio.run(main()))
