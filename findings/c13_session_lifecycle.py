"""C13: (a) a second pairing on the same connection (e.g. retry after a wrong passkey) must complete instead of hanging;
(b) a session that has declared the pairing failed, or that never received the peer's public key, must not go on to
derive keys. Exit 1 if a defect is present."""
import asyncio, logging, sys
sys.path.insert(0, '/repo'); sys.path.insert(0, '/repo/tests')
logging.disable(logging.CRITICAL)
from bumble import smp
from bumble.pairing import PairingConfig, PairingDelegate
from test_utils import TwoDevices

bad = []

async def second_pairing():
    d = TwoDevices()
    d.devices[0].pairing_config_factory = lambda c: PairingConfig(sc=True, mitm=False, bonding=False)
    d.devices[1].pairing_config_factory = lambda c: PairingConfig(sc=True, mitm=False, bonding=False)
    await d.setup_connection()
    await asyncio.wait_for(d.connections[0].pair(), 3)
    try:
        await asyncio.wait_for(d.connections[0].pair(), 3)
    except asyncio.TimeoutError:
        bad.append('a second pair() on the same connection never completes (the responder feeds the new Pairing Request to its finished session)')
    except Exception as e:
        bad.append(f'second pair() failed: {type(e).__name__}: {e}')

async def skipped_public_key():
    d = TwoDevices()
    d.devices[0].pairing_config_factory = lambda c: PairingConfig(sc=True, mitm=False, bonding=False)
    d.devices[1].pairing_config_factory = lambda c: PairingConfig(sc=True, mitm=False, bonding=False)
    await d.setup_connection()
    # the initiator never sends its public key and goes straight to Pairing Random
    class Attacker(smp.Session):
        def send_public_key_command(self):
            pass
        def on_smp_pairing_response_command(self, command):
            super().on_smp_pairing_response_command(command)
            self.peer_random_value = bytes(16)
            self.send_pairing_random_command()
    d.devices[0].smp_manager.session_proxy = Attacker
    try:
        await asyncio.wait_for(d.connections[0].pair(), 2)
    except Exception:
        pass
    await asyncio.sleep(0.1)
    s = d.devices[1].smp_manager.sessions.get(d.connections[1].handle)
    if d.connections[1].is_encrypted or (s is not None and getattr(s, 'ltk', None)):
        bad.append('the responder derived an LTK / accepted encryption although the peer never sent a public key (dh_key still empty)')

async def main():
    for f in (second_pairing, skipped_public_key):
        try:
            await f()
        except Exception as e:
            import traceback; traceback.print_exc()
            bad.append(f'{f.__name__}: {type(e).__name__}: {e}')
    print('DEFECTS:')
    for b in bad: print('  -', b)
    return 1 if bad else 0
sys.exit(asyncio.run(main()))
