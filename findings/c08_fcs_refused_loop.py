"""C08: a client asks for FCS on a classic channel, the server does not support the FCS option.  The server answered
UNACCEPTABLE_PARAMETERS echoing FCS=1 and the client re-sent "what was suggested" (FCS=1 again): the two ping-ponged for
ever, create_l2cap_channel() never returned.  Set-up must end with both ends open in the same mode, or both closed.
Run from a bumble checkout (cwd): exit 0 when set-up ends consistently, 1 otherwise."""
import asyncio, logging, sys
logging.disable(logging.CRITICAL)
sys.path.insert(0, 'tests')
from bumble import l2cap
from bumble.core import PhysicalTransport
from test_utils import TwoDevices  # type: ignore


async def main():
    devices = TwoDevices()
    for d in devices.devices:
        d.classic_enabled = True
        await d.power_on()
    # the server side does not support the FCS option
    devices[1].l2cap_channel_manager.extended_features = [f for f in devices[1].l2cap_channel_manager.extended_features if f != l2cap.L2CAP_Information_Request.ExtendedFeatures.FCS_OPTION]
    await devices[1].set_connectable(True) if hasattr(devices[1], 'set_connectable') else None
    conn = await asyncio.wait_for(devices[0].connect(devices[1].public_address, transport=PhysicalTransport.BR_EDR), 3)
    accepted = []
    devices[1].create_l2cap_server(l2cap.ClassicChannelSpec(psm=0x1001), handler=accepted.append)
    sent = {'n': 0}
    mgr = devices[0].l2cap_channel_manager
    orig = mgr.send_control_frame
    def counting(*a, **k):
        sent['n'] += 1
        return orig(*a, **k)
    mgr.send_control_frame = counting
    try:
        ch = await asyncio.wait_for(conn.create_l2cap_channel(l2cap.ClassicChannelSpec(psm=0x1001, fcs_enabled=True)), 2)
        outcome = f'open, client fcs={ch.fcs_enabled}, server fcs={accepted[0].fcs_enabled if accepted else None}'
        ok = bool(accepted) and ch.fcs_enabled == accepted[0].fcs_enabled and accepted[0].state == accepted[0].State.OPEN
    except asyncio.TimeoutError:
        outcome = f'create_l2cap_channel still pending after 2 s ({sent["n"]} signalling frames sent)'
        ok = False
    except Exception as e:
        await asyncio.sleep(0.2)
        left = [c.state.name for c in accepted if c.state != c.State.CLOSED]
        outcome = f'failed with {type(e).__name__}; server channels not closed: {left}'
        ok = not left
    print(('ok: ' if ok else 'FAIL: ') + outcome)
    return 0 if ok else 1


sys.exit(asyncio.run(main()))
