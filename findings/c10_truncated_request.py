"""C10: a request PDU that is truncated or otherwise cannot be parsed (Read Request with a 1-byte handle, Read Multiple
with an odd handle list) is still a request: it gets exactly one Error Response.  Exit 1 if defect present."""
import asyncio, logging, sys
sys.path.insert(0, '/repo'); sys.path.insert(0, '/repo/tests')
logging.disable(logging.CRITICAL)
from bumble import gatt, att
from test_utils import TwoDevices

bad = []
async def main():
    d = TwoDevices()
    ch = gatt.Characteristic('AB01', gatt.Characteristic.Properties.READ, gatt.Characteristic.READABLE, b'v')
    d.devices[1].add_services([gatt.Service('AA00', [ch])])
    await d.setup_connection()
    server = d.devices[1].gatt_server
    sent = []
    real = server.send_gatt_pdu
    server.send_gatt_pdu = lambda bearer, pdu: (sent.append(bytes(pdu)), real(bearer, pdu))[1]
    for label, raw in (('Read Request with a 1-byte handle', bytes([0x0A, 0x03])), ('Read Multiple Request with an odd handle list', bytes([0x0E, 0x01, 0x00, 0x02])),
                       ('Write Request without a handle', bytes([0x12])), ('Read By Type Request cut short', bytes([0x08, 0x01, 0x00]))):
        sent.clear()
        try:
            d.devices[1].on_gatt_pdu(d.connections[1].handle, raw)
        except Exception:
            pass
        await asyncio.sleep(0.05)
        if len(sent) != 1 or sent[0][0] != 0x01 or sent[0][1] != raw[0]:
            bad.append(f'{label} ({raw.hex()}): replies {[s.hex() for s in sent]}')
    # a truncated command or notification is not answered
    for label, raw in (('Write Command without a handle', bytes([0x52])), ('Handle Value Notification cut short', bytes([0x1B, 0x01]))):
        sent.clear()
        try:
            d.devices[1].on_gatt_pdu(d.connections[1].handle, raw)
        except Exception:
            pass
        await asyncio.sleep(0.05)
        if sent:
            bad.append(f'{label} ({raw.hex()}): answered with {[s.hex() for s in sent]}')
    print('DEFECTS:')
    for b in bad: print('  -', b)
    return 1 if bad else 0
sys.exit(asyncio.run(main()))
