"""C12: an included service with a 128-bit UUID must be discovered with its real UUID. Exit 1 if defect present."""
import asyncio, logging, sys
sys.path.insert(0, '/repo'); sys.path.insert(0, '/repo/tests')
logging.disable(logging.CRITICAL)
from bumble import gatt, core
from test_utils import TwoDevices

bad = []
async def main():
    d = TwoDevices()
    inner128 = gatt.Service('3A657F47-D34F-46B3-B1EC-698E29B6B829', [])
    inner16 = gatt.Service('180F', [])
    outer = gatt.Service('1234', [], included_services=[inner128, inner16])
    d.devices[1].add_services([inner128, inner16, outer])
    await d.setup_connection()
    from bumble.gatt_client import Client
    peer_client = d.connections[0].gatt_client if hasattr(d.connections[0], 'gatt_client') else None
    from bumble.device import Peer
    peer = Peer(d.connections[0])
    await peer.discover_services()
    svc = [s for s in peer.services if s.uuid == core.UUID('1234')][0]
    try:
        inc = await asyncio.wait_for(peer.discover_included_services(svc), 3)
    except Exception as e:
        bad.append(f'discover_included_services failed: {type(e).__name__}: {e}')
        inc = []
    got = sorted(s.uuid.to_hex_str() for s in inc)
    want = sorted(u.to_hex_str() for u in (inner128.uuid, inner16.uuid))
    if inc and got != want:
        bad.append(f'included services discovered as {got}, server has {want}')
    print('DEFECTS:')
    for b in bad: print('  -', b)
    return 1 if bad else 0
sys.exit(asyncio.run(main()))
