"""C03: the virtual controller must answer every command packet exactly once.
Exit 1 if a command gets no reply (defect present), 0 otherwise.
Run: /venv/bin/python findings/c03_controller_unanswered.py  (cwd anywhere)"""
import asyncio, logging, sys
sys.path.insert(0, '/repo')
logging.disable(logging.CRITICAL)
from bumble import hci, controller, link


class Sink:
    def __init__(self): self.packets = []
    def on_packet(self, data): self.packets.append(hci.HCI_Packet.from_bytes(data))


async def main():
    sink = Sink()
    c = controller.Controller('C', host_sink=sink, link=link.LocalLink())
    bad = []
    cases = {
        'async command without handler (LE Set PHY)': bytes(hci.HCI_LE_Set_PHY_Command(connection_handle=1, all_phys=0, tx_phys=1, rx_phys=1, phy_options=0)),
        'unknown opcode 0xFC77': bytes([1, 0x77, 0xFC, 0]),
        'LE Read Local P-256 Public Key': bytes(hci.HCI_LE_Read_Local_P_256_Public_Key_Command()),
        'Disconnect of unknown handle': bytes(hci.HCI_Disconnect_Command(connection_handle=0x123, reason=0x13)),
    }
    for name, pkt in cases.items():
        sink.packets.clear()
        c.on_packet(pkt)
        await asyncio.sleep(0.01)
        replies = [p for p in sink.packets if isinstance(p, (hci.HCI_Command_Complete_Event, hci.HCI_Command_Status_Event))]
        print(f'{name}: {len(replies)} reply(ies)', [type(p).__name__ for p in sink.packets])
        if len(replies) != 1:
            bad.append(name)
        if name.startswith('Disconnect'):
            done = [p for p in sink.packets if isinstance(p, hci.HCI_Disconnection_Complete_Event)]
            st = replies[0].status if replies else None
            if st in (0, hci.HCI_COMMAND_STATUS_PENDING) and not done:
                print('  accepted as pending but never concluded')
                bad.append(name + ' (no completion)')
    # LE Create Connection + Cancel must conclude the pending procedure
    sink.packets.clear()
    c.on_packet(bytes(hci.HCI_LE_Create_Connection_Command(
        le_scan_interval=4, le_scan_window=4, initiator_filter_policy=0, peer_address_type=0,
        peer_address=hci.Address('F0:F1:F2:F3:F4:F5'), own_address_type=0, connection_interval_min=6,
        connection_interval_max=6, max_latency=0, supervision_timeout=100, min_ce_length=0, max_ce_length=0)))
    c.on_packet(bytes(hci.HCI_LE_Create_Connection_Cancel_Command()))
    await asyncio.sleep(0.01)
    done = [p for p in sink.packets if isinstance(p, (hci.HCI_LE_Connection_Complete_Event, hci.HCI_LE_Enhanced_Connection_Complete_Event))]
    print('create+cancel: completion events', len(done), 'pending slot', c.pending_le_connection is not None)
    if not done or c.pending_le_connection is not None:
        bad.append('LE Create Connection Cancel does not conclude the pending connection')
    print('DEFECTS:', bad)
    return 1 if bad else 0

sys.exit(asyncio.run(main()))
