"""C18: codec round-trip defects above HCI. Exit 1 if any is present."""
import sys, struct
sys.path.insert(0, '/repo')
from bumble import rfcomm, rtp, core, smp, avrcp
bad = []

# RFCOMM UIH with a credit byte: parse + re-serialise must give the same bytes (127/128 boundary)
for n in (5, 127, 128, 200):
    fr = rfcomm.RFCOMM_Frame.uih(c_r=1, dlci=2, information=bytes([7]) + bytes(n), p_f=1)
    b = bytes(fr)
    try:
        b2 = bytes(rfcomm.RFCOMM_Frame.from_bytes(b))
    except Exception as e:
        b2 = repr(e)
    if b2 != b:
        bad.append(f'RFCOMM UIH with credits, {n}-byte payload: re-serialised frame differs ({len(b)} -> {len(b2) if isinstance(b2, bytes) else b2})')
        break
# RFCOMM 2-byte length on parse
fr = rfcomm.RFCOMM_Frame.uih(c_r=1, dlci=2, information=bytes(200))
b = bytes(fr)
# MCC with a two-byte length
val = bytes(range(130))
mcc = bytes([0x83, (130 & 0x7F) << 1, 130 >> 7]) + val
t, cr, v = rfcomm.RFCOMM_Frame.parse_mcc(mcc)
if v != val:
    bad.append(f'RFCOMM parse_mcc with a 2-byte length returns {len(v)} of {len(val)} value bytes')
# RTP CSRC list
p = rtp.MediaPacket(2, 0, 0, 0, 1, 2, 3, [0x11223344, 0x55667788], 96, b'pay')
q = rtp.MediaPacket.from_bytes(bytes(p))
if q.csrc_list != p.csrc_list or bytes(q) != bytes(p):
    bad.append(f'RTP packet with two CSRCs parses back with csrc_list={[hex(x) for x in q.csrc_list]}')
# UUID width after interning
u16 = core.UUID.from_16_bits(0x180F)
full = bytes(core.UUID('0000180F-0000-1000-8000-00805F9B34FB'))
if len(bytes(core.UUID.from_bytes(full))) != len(full):
    bad.append('UUID parsed from 16 bytes re-serialises as 2 bytes once an equal 16-bit UUID exists in the process')
# SMP command with an unknown code
raw = bytes([0x0F, 1, 2, 3])
if bytes(smp.SMP_Command.from_bytes(raw)) != raw:
    bad.append(f'SMP command with unknown code re-serialises as {bytes(smp.SMP_Command.from_bytes(raw)).hex()} instead of {raw.hex()}')
# AVRCP browseable item parsed at a non-zero offset
item = avrcp.FolderItem(folder_uid=1, folder_type=avrcp.FolderItem.FolderType.MIXED, is_playable=avrcp.FolderItem.Playable.PLAYABLE, character_set_id=avrcp.CharacterSetId.UTF_8, displayable_name='abc') if hasattr(avrcp, 'FolderItem') else None
if item is not None:
    try:
        ib = bytes(item)
        off, parsed = avrcp.BrowseableItem.parse_from_bytes(b'\xAA\xBB' + ib + b'\xCC', 2)
        if bytes(parsed) != ib:
            bad.append('AVRCP browseable item parsed at offset 2 re-serialises differently')
    except Exception as e:
        print('avrcp item harness', repr(e))
print('DEFECTS:')
for b_ in bad: print('  -', b_)
sys.exit(1 if bad else 0)
