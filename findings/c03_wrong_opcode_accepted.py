"""C03 (open): a controller that answers a command with an event carrying another opcode (and no earlier command is owed a
response) still resolves the caller: Host.on_command_processed only logs the mismatch.  tests/host_test.py expects exactly
this leniency (test_send_async_command), so it cannot be removed without editing the suite.
Run from a bumble checkout: exit 0 when the caller keeps waiting for its own opcode, 1 when it is handed the foreign event."""
import asyncio, logging, sys
logging.disable(logging.CRITICAL)
from bumble import hci
from bumble.host import Host


class Ctl:
    def on_packet(self, packet):
        pass


async def main():
    host = Host()
    host.hci_sink = Ctl()
    host.ready = True
    t = asyncio.ensure_future(host.send_sync_command_raw(hci.HCI_LE_Rand_Command()))
    await asyncio.sleep(0.02)
    foreign = hci.HCI_Command_Complete_Event(num_hci_command_packets=1, command_opcode=hci.HCI_READ_BD_ADDR_COMMAND,
                                             return_parameters=hci.HCI_Read_BD_ADDR_ReturnParameters(status=0, bd_addr=hci.Address('00:11:22:33:44:55')))
    host.on_packet(bytes(foreign))
    await asyncio.sleep(0.02)
    if t.done():
        print(f'FAIL: the LE_Rand caller was resolved with the event for opcode 0x{t.result().command_opcode:04X}')
        return 1
    t.cancel()
    print('ok: the caller still waits for its own response')
    return 0


sys.exit(asyncio.run(main()))
