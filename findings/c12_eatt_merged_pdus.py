"""C12/C10: on an enhanced ATT bearer each ATT PDU is one L2CAP SDU.  While the channel is out of credits, the PDUs the
server queues are joined into a single SDU, so two notifications arrive as one (the second is swallowed by the first).
Run from a bumble checkout: exit 0 when every notification arrives as its own PDU, 1 otherwise."""
import asyncio, logging, sys
logging.disable(logging.CRITICAL)
sys.path.insert(0, 'tests')
from bumble import att, gatt_client, l2cap
from bumble.gatt import Characteristic, Service
from test_utils import TwoDevices  # type: ignore


async def main():
    devices = await TwoDevices.create_with_connection()
    devices[1].gatt_server.register_eatt()
    ch = Characteristic('1234', Characteristic.Properties.NOTIFY, Characteristic.Permissions.READABLE)
    devices[1].add_service(Service('ABCD', [ch]))
    spec = l2cap.LeCreditBasedChannelSpec(psm=att.EATT_PSM, max_credits=1)
    client = await gatt_client.Client.connect_eatt(devices.connections[0], spec)
    got = []
    await client.discover_services()
    sp = client.get_services_by_uuid(ch.service.uuid if hasattr(ch, 'service') and ch.service else Service('ABCD', []).uuid)[0]
    await sp.discover_characteristics()
    cp = sp.get_characteristics_by_uuid(ch.uuid)[0]
    await cp.subscribe(got.append, prefer_notify=True)
    values = [bytes([i]) * 4 for i in range(1, 6)]
    bearers = [b for b in devices[1].gatt_server.subscribers if att.is_enhanced_bearer(b)]
    for v in values:
        # queued back to back: the client's single credit is spent by the first one
        asyncio.ensure_future(devices[1].gatt_server.notify_subscriber(bearers[0], ch, v, force=True))
    await asyncio.sleep(0.5)
    if got != values:
        print(f'FAIL: sent {[v.hex() for v in values]}, subscriber received {[g.hex() for g in got]}')
        return 1
    print('ok: every notification arrived as its own PDU')
    return 0


sys.exit(asyncio.run(main()))
