"""C03: Host.reset() while one command is in flight and another is queued behind reset()'s flush.  After the flush the
host stops accepting packets (ready = False) but the queued command is sent next: its response was dropped, so that
caller and reset() itself (waiting for the command semaphore) both hung.
Run from a bumble checkout: exit 0 when every caller ends, 1 when one is still waiting after 1 s."""
import asyncio, logging, sys
logging.disable(logging.CRITICAL)
from bumble import hci
from bumble.host import Host


class Ctl:
    """answers each command with a success Command Complete when told to"""
    def __init__(self, host):
        self.host, self.queue = host, []

    def on_packet(self, packet):
        self.queue.append(hci.HCI_Packet.from_bytes(packet))

    def answer_one(self):
        cmd = self.queue.pop(0)
        rp = hci.HCI_StatusReturnParameters(status=0)
        if cmd.op_code == hci.HCI_LE_RAND_COMMAND:
            rp = hci.HCI_LE_Rand_ReturnParameters(status=0, random_number=bytes(8))
        elif cmd.op_code == hci.HCI_READ_BD_ADDR_COMMAND:
            rp = hci.HCI_Read_BD_ADDR_ReturnParameters(status=0, bd_addr=hci.Address('00:11:22:33:44:55'))
        elif cmd.op_code == hci.HCI_READ_LOCAL_SUPPORTED_COMMANDS_COMMAND:
            rp = hci.HCI_Read_Local_Supported_Commands_ReturnParameters(status=0, supported_commands=bytes(64))
        self.host.on_packet(bytes(hci.HCI_Command_Complete_Event(num_hci_command_packets=1, command_opcode=cmd.op_code, return_parameters=rp)))


async def main():
    host = Host()
    ctl = Ctl(host)
    host.hci_sink = ctl
    host.ready = True
    a = asyncio.ensure_future(host.send_sync_command_raw(hci.HCI_LE_Rand_Command()))          # in flight
    await asyncio.sleep(0.01)
    r = asyncio.ensure_future(host.reset(driver_factory=None))                                  # waits in flush()
    await asyncio.sleep(0.01)
    b = asyncio.ensure_future(host.send_sync_command_raw(hci.HCI_Read_BD_ADDR_Command()))      # queued behind it
    await asyncio.sleep(0.01)
    for _ in range(40):                       # the controller answers whatever it is sent, one at a time
        if ctl.queue:
            ctl.answer_one()
        await asyncio.sleep(0.02)
        if a.done() and b.done() and r.done():
            break
    pending = [n for n, t in (('first command', a), ('queued command', b), ('reset()', r)) if not t.done()]
    for t in (a, b, r):
        t.cancel()
    if pending:
        print('FAIL: still waiting after every command sent was answered:', ', '.join(pending))
        return 1
    print('ok: all callers ended')
    return 0


sys.exit(asyncio.run(main()))
