"""C06: after AdvertisingSet.set_random_address() the two ends of the next connection report different addresses.

The method sent LE Set Advertising Set Random Address but did not update `AdvertisingSet.random_address` (the other
setters of the class record what they sent).  The controller advertises from the new address; when a central connects,
the peripheral's Device completes the connection with the *old* address as self_address.
Expected: the central's peer_address equals the peripheral's self_address.
"""
import asyncio
import logging
import sys

from bumble import hci
from bumble.device import AdvertisingParameters
from tests.test_utils import TwoDevices

logging.disable(logging.CRITICAL)


async def scenario():
    d = TwoDevices()
    await d[0].power_on()
    await d[1].power_on()
    aset = await d[1].create_advertising_set(advertising_parameters=AdvertisingParameters(own_address_type=hci.OwnAddressType.RANDOM), auto_start=False)
    new = hci.Address('C1:22:33:44:55:66', hci.Address.RANDOM_DEVICE_ADDRESS)
    await aset.set_random_address(new)
    await aset.start()
    got = asyncio.get_running_loop().create_future()
    d[1].once('connection', got.set_result)
    central = await d[0].connect(new)
    peripheral = await got
    await asyncio.sleep(0.1)
    print('central sees peer:', central.peer_address, '| peripheral says it is:', peripheral.self_address)
    return central.peer_address == peripheral.self_address


async def main():
    try:
        return await asyncio.wait_for(scenario(), 10)
    except asyncio.TimeoutError:
        print('timeout')
        return False


sys.exit(0 if asyncio.run(main()) else 1)
