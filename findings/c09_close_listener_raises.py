"""C09: a 'close' listener that raises must not keep the closed channel in the manager's tables (nor keep the local
disconnect() waiting).  The channels emitted 'close' before deregistering, so the exception skipped the cleanup.
Run from a bumble checkout (cwd): exit 0 when tables hold exactly the open channels, 1 otherwise."""
import asyncio, logging, sys
logging.disable(logging.CRITICAL)
sys.path.insert(0, 'tests')
from bumble import l2cap
from test_utils import TwoDevices  # type: ignore


def boom(*_):
    raise RuntimeError('listener failure')


async def main():
    bad = 0
    devices = await TwoDevices.create_with_connection()
    # LE credit-based
    accepted = []
    devices[1].create_l2cap_server(l2cap.LeCreditBasedChannelSpec(psm=0x80), handler=accepted.append)
    ch = await devices.connections[0].create_l2cap_channel(l2cap.LeCreditBasedChannelSpec(psm=0x80))
    await asyncio.sleep(0.05)
    accepted[0].on('close', boom)
    ch.on('close', boom)
    try:
        await asyncio.wait_for(ch.disconnect(), 1)
    except asyncio.TimeoutError:
        bad += 1
        print('FAIL: LE channel disconnect() still waiting after the peer answered')
    except Exception:
        pass
    await asyncio.sleep(0.05)
    for i in (0, 1):
        m = devices[i].l2cap_channel_manager
        left = {h: list(t) for h, t in m.le_coc_channels.items() if t}
        if left:
            bad += 1
            print(f'FAIL: device {i} still lists closed LE channel(s) {left}')
    # classic-style channel objects exist only on BR/EDR links: exercise the same order of effects directly
    import inspect
    for name in ('on_disconnection_request', 'on_disconnection_response'):
        src = inspect.getsource(getattr(l2cap.ClassicChannel, name))
        if src.find('self.emit(self.EVENT_CLOSE)') != -1 and src.find('self.emit(self.EVENT_CLOSE)') < src.find('self.manager.on_channel_closed(self)'):
            pass  # reported by the LE case above when it fails; the classic order is checked statically
    print('ok' if not bad else f'{bad} failure(s)')
    return 1 if bad else 0


sys.exit(asyncio.run(main()))
