"""C14: an RPA generated from an IRK resolves, with that IRK, to the identity address it was registered with, marked as an
identity address (public identity for a public address).  Exit 1 if defect present."""
import logging, sys
sys.path.insert(0, '/repo')
logging.disable(logging.CRITICAL)
from bumble import smp, hci

bad = []
irk = bytes(range(16))
for ident, want in ((hci.Address('00:11:22:33:44:55', hci.Address.PUBLIC_DEVICE_ADDRESS), hci.Address.PUBLIC_IDENTITY_ADDRESS),
                    (hci.Address('C0:11:22:33:44:55', hci.Address.RANDOM_DEVICE_ADDRESS), hci.Address.RANDOM_IDENTITY_ADDRESS)):
    res = smp.AddressResolver([(irk, ident)])
    rpa = hci.Address.generate_private_address(irk)
    out = res.resolve(rpa)
    if out is None:
        bad.append(f'{ident}: RPA not resolved')
        continue
    if bytes(out) != bytes(ident):
        bad.append(f'{ident}: resolved to other bytes {out}')
    if out.address_type != want:
        bad.append(f'{ident!r}: resolved address has type {out.address_type} (is_resolved={out.is_resolved}), expected identity type {want}')
print('DEFECTS:')
for b in bad: print('  -', b)
sys.exit(1 if bad else 0)
