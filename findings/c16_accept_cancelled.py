"""C16: a pending Device.accept() that ends by cancellation (transport loss -> flush, or the caller cancels) must leave no
entry in classic_pending_accepts: a later accept() for the same address has to work.  Exit 1 if defect present."""
import asyncio, logging, sys
sys.path.insert(0, '/repo'); sys.path.insert(0, '/repo/tests')
logging.disable(logging.CRITICAL)
from bumble import hci
from test_utils import TwoDevices

bad = []
async def main():
    d = TwoDevices()
    d.devices[0].classic_enabled = True
    await d.devices[0].power_on()
    dev = d.devices[0]
    addr = hci.Address('F1:F1:F1:F1:F1:F1/P')
    t = asyncio.create_task(dev.accept(addr))
    await asyncio.sleep(0.05)
    dev.host.on_transport_lost()
    await asyncio.sleep(0.05)
    if not t.done():
        bad.append('accept() still waiting after the transport was lost')
        t.cancel()
    if addr in dev.classic_pending_accepts:
        bad.append(f'classic_pending_accepts still holds the ended accept for {addr}: {dev.classic_pending_accepts[addr]}')
    t2 = asyncio.create_task(dev.accept(addr))
    await asyncio.sleep(0.05)
    if t2.done() and not t2.cancelled() and t2.exception() is not None:
        bad.append(f'a later accept() for the same address fails: {t2.exception()!r}')
    t2.cancel()
    await asyncio.sleep(0.02)
    print('DEFECTS:')
    for b in bad: print('  -', b)
    return 1 if bad else 0
sys.exit(asyncio.run(main()))
