"""C03/C06: two devices advertise and connect to each other at the same time.  One connection is made; the other
initiator's pending LE Create Connection was left pending for ever ("Connection ... already exists?" on every
advertisement), so its connect() never completed.  Every accepted procedure must be concluded by its completion event.
Run from a bumble checkout (cwd): exit 0 when both connect() calls end (a connection or an error), 1 otherwise."""
import asyncio, logging, sys
logging.disable(logging.CRITICAL)
sys.path.insert(0, 'tests')
from test_utils import TwoDevices  # type: ignore


async def main():
    devices = TwoDevices()
    for d in devices.devices:
        await d.power_on()
    for d in devices.devices:
        await d.start_advertising(advertising_interval_min=1.0, auto_restart=False)
    tasks = [asyncio.ensure_future(devices[0].connect(devices[1].random_address)),
             asyncio.ensure_future(devices[1].connect(devices[0].random_address))]
    await asyncio.wait(tasks, timeout=2.0)
    out = []
    for i, t in enumerate(tasks):
        if not t.done():
            out.append(f'device {i}: connect() still pending after 2 s (controller pending_le_connection={devices.controllers[i].pending_le_connection is not None})')
            t.cancel()
    for i in (0, 1):
        print(f'device {i}: {len(devices[i].connections)} connection(s)')
    if out:
        print('FAIL: ' + '; '.join(out))
        return 1
    print('ok: both procedures were concluded:', [('connection' if not t.exception() else type(t.exception()).__name__) for t in tasks])
    return 0


sys.exit(asyncio.run(main()))
