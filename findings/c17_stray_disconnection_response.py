"""C17: an unsolicited L2CAP Disconnection Response (right CIDs, nothing requested) must not close an OPEN classic channel:
it is not a disconnect, the channel has to stay usable.  Exit 1 if defect present."""
import asyncio, logging, sys
sys.path.insert(0, '/repo'); sys.path.insert(0, '/repo/tests')
logging.disable(logging.CRITICAL)
from bumble import l2cap
from test_utils import TwoDevices

bad = []
async def main():
    d = TwoDevices()
    await d.setup_connection()
    chans = []
    got = []
    def on_chan(ch):
        chans.append(ch)
        ch.sink = got.append
    d.devices[1].create_l2cap_server(spec=l2cap.ClassicChannelSpec(psm=0x1001), handler=on_chan)
    c = await d.connections[0].create_l2cap_channel(spec=l2cap.ClassicChannelSpec(psm=0x1001))
    await asyncio.sleep(0.02)
    s = chans[0]
    # the peer (device 0) sends a Disconnection Response nobody asked for, naming the server's channel
    d.devices[0].l2cap_channel_manager.send_control_frame(
        d.connections[0], l2cap.L2CAP_SIGNALING_CID,
        l2cap.L2CAP_Disconnection_Response(identifier=9, destination_cid=s.source_cid, source_cid=s.destination_cid))
    await asyncio.sleep(0.05)
    if s.state != s.State.OPEN:
        bad.append(f'a stray Disconnection Response moved the OPEN channel to {s.state.name}')
    try:
        c.write(b'after')
        await asyncio.sleep(0.05)
    except Exception as e:
        bad.append(f'write after the stray response failed: {e!r}')
    if got != [b'after']:
        bad.append(f'data written after the stray response was not delivered: {got}')
    print('DEFECTS:')
    for b in bad: print('  -', b)
    return 1 if bad else 0
sys.exit(asyncio.run(main()))
