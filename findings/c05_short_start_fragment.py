"""C05: PDU A is cut short (4 of its 10 payload bytes arrive), then PDU B starts with a 1-byte start fragment.  Reading B's
length raised struct.error before the assembler forgot A, so B's continuation was appended to A's leftover and a PDU made
of A's head and B's tail was delivered.  A malformed sequence may cost the affected PDUs, never produce a mixed one.
Run from a bumble checkout: exit 0 when nothing bogus is delivered and the next good PDU arrives intact, 1 otherwise."""
import sys, logging
logging.disable(logging.CRITICAL)
from bumble import hci

out = []
asm = hci.HCI_AclDataPacketAssembler(out.append)


def feed(pb, data):
    try:
        asm.feed_packet(hci.HCI_AclDataPacket(connection_handle=1, pb_flag=pb, bc_flag=0, data_total_length=len(data), data=data))
    except Exception as e:      # the transport logs it and goes on
        return type(e).__name__
    return None


START, CONT = hci.HCI_ACL_PB_FIRST_FLUSHABLE, hci.HCI_ACL_PB_CONTINUATION
a = (10).to_bytes(2, 'little') + (0x40).to_bytes(2, 'little') + b'A' * 10
b = (3).to_bytes(2, 'little') + (0x41).to_bytes(2, 'little') + b'BBB'
c = (2).to_bytes(2, 'little') + (0x42).to_bytes(2, 'little') + b'CC'
feed(START, a[:8])           # A: 4 of 10 payload bytes, then nothing more
feed(START, b[:1])           # B: start fragment of 1 byte
feed(CONT, b[1:])            # B: the rest
feed(START, c)               # C: well formed
bogus = [x for x in out if x not in (a, b, c)]
if bogus or c not in out:
    print(f'FAIL: delivered {[x.hex() for x in out]} (bogus: {[x.hex() for x in bogus]})')
    sys.exit(1)
print('ok: delivered', [x.hex() for x in out])
