"""C18: GetCapabilitiesResponse(COMPANY_ID, []) serialises to <cap id><count=0>, which the parser divides by.
Run from a bumble checkout: exits 0 when the unit round-trips, 1 when parsing its own bytes raises."""
import sys
from bumble import avrcp

rsp = avrcp.GetCapabilitiesResponse(avrcp.GetCapabilitiesCommand.CapabilityId.COMPANY_ID, [])
data = bytes(rsp)
try:
    back = avrcp.Response.from_bytes(data, avrcp.PduId.GET_CAPABILITIES) if hasattr(avrcp.Response, 'from_bytes') else None
except ZeroDivisionError as e:
    print('FAIL: parsing the serialised response raises', repr(e))
    sys.exit(1)
if back is None:
    try:
        back = avrcp.GetCapabilitiesResponse.from_parameters(rsp._payload if hasattr(rsp, '_payload') else data)
    except ZeroDivisionError as e:
        print('FAIL: parsing the serialised response raises', repr(e))
        sys.exit(1)
ok = back.capability_id == rsp.capability_id and list(back.capabilities) == []
print('ok' if ok else f'FAIL: {back}')
sys.exit(0 if ok else 1)
