"""C16: GATT server state of an EATT bearer must be dropped when the bearer closes. Exit 1 if defect present."""
import asyncio, logging, sys
sys.path.insert(0, '/repo')
logging.disable(logging.CRITICAL)
from tests.test_utils import TwoDevices, async_barrier
from bumble import l2cap, att, device as dev_mod
from bumble.gatt import Service, Characteristic
from bumble.att import Attribute

async def main():
    d = TwoDevices()
    ch = Characteristic('11111111-1111-1111-1111-111111111111', Characteristic.Properties.READ | Characteristic.Properties.NOTIFY, Attribute.READABLE, b'v')
    d[1].add_service(Service('33333333-3333-3333-3333-333333333333', [ch]))
    d[1].gatt_server.register_eatt()
    await d.setup_connection()
    from bumble import gatt_client
    client = await gatt_client.Client.connect_eatt(d.connections[0])
    bearer = client.bearer
    await async_barrier()
    srv = d[1].gatt_server
    server_bearers = [c for c in d[1].l2cap_channel_manager.le_coc_channels.get(d.connections[1].handle, {}).values()]
    assert server_bearers, 'no EATT bearer on the server'
    sb = server_bearers[0]
    srv.write_cccd(sb, ch, b'\x01\x00')
    assert sb in srv.subscribers
    ch0 = bearer if isinstance(bearer, l2cap.LeCreditBasedChannel) else list(d[0].l2cap_channel_manager.le_coc_channels[d.connections[0].handle].values())[0]
    await ch0.disconnect()
    await async_barrier()
    stale = sb in srv.subscribers
    print('DEFECT: subscriptions of the closed EATT bearer remain' if stale else 'OK')
    return 1 if stale else 0
sys.exit(asyncio.run(main()))
