"""C03: the host accepts an incoming classic connection (Accept Connection Request, answered with Command Status) after the
initiator has left the link.  Sending LMP_accepted raised InvalidArgumentError after the status was queued, so no
Connection Complete event ever concluded the procedure.
Run from a bumble checkout: exit 0 when a Connection Complete (any status) follows the Command Status, 1 otherwise."""
import asyncio, logging, sys
logging.disable(logging.CRITICAL)
from bumble import hci, lmp
from bumble.controller import Controller
from bumble.link import LocalLink


class Sink:
    def __init__(self):
        self.packets = []

    def on_packet(self, packet):
        self.packets.append(hci.HCI_Packet.from_bytes(packet))


async def main():
    link = LocalLink()
    a_sink, b_sink = Sink(), Sink()
    a = Controller('A', link=link, public_address='A0:A0:A0:A0:A0:A0')
    b = Controller('B', link=link, public_address='B0:B0:B0:B0:B0:B0')
    a.host, b.host = a_sink, b_sink
    # A pages B
    a.on_packet(bytes(hci.HCI_Create_Connection_Command(bd_addr=b.public_address, packet_type=0xCC18, page_scan_repetition_mode=0, reserved=0, clock_offset=0, allow_role_switch=1)))
    await asyncio.sleep(0.05)
    got_request = any(isinstance(p, hci.HCI_Connection_Request_Event) for p in b_sink.packets)
    # A leaves the link before B's host answers
    link.remove_controller(a)
    b_sink.packets.clear()
    try:
        b.on_packet(bytes(hci.HCI_Accept_Connection_Request_Command(bd_addr=a.public_address, role=hci.Role.PERIPHERAL)))
    except Exception as e:
        print(f'  (handler raised {type(e).__name__})')
    await asyncio.sleep(0.05)
    status = [p for p in b_sink.packets if isinstance(p, hci.HCI_Command_Status_Event)]
    complete = [p for p in b_sink.packets if isinstance(p, hci.HCI_Connection_Complete_Event)]
    if not got_request:
        print('?? no connection request reached B')
        return 1
    if status and status[0].status == 0 and not complete:
        print('FAIL: Accept Connection Request was answered with Command Status SUCCESS and no Connection Complete followed')
        return 1
    print('ok:', 'concluded with status', complete[0].status if complete else f'refused with status {status[0].status if status else "?"}')
    return 0


sys.exit(asyncio.run(main()))
