"""C17: a zero-length SDU (K-frame 00 00) on an LE credit-based channel must not wedge the receiver:
SDUs sent afterwards have to be delivered.  Exit 1 if defect present."""
import asyncio, logging, sys
sys.path.insert(0, '/repo'); sys.path.insert(0, '/repo/tests')
logging.disable(logging.CRITICAL)
from bumble import l2cap
from test_utils import TwoDevices

bad = []
async def main():
    d = TwoDevices()
    await d.setup_connection()
    chans, got = [], []
    def on_chan(ch):
        chans.append(ch)
        ch.sink = got.append
    d.devices[1].create_l2cap_server(spec=l2cap.LeCreditBasedChannelSpec(psm=0x80), handler=on_chan)
    c = await d.connections[0].create_l2cap_channel(spec=l2cap.LeCreditBasedChannelSpec(psm=0x80))
    await asyncio.sleep(0.02)
    c.send_pdu(b'\x00\x00')          # a K-frame announcing an SDU of length 0
    c.credits -= 1
    await asyncio.sleep(0.02)
    c.write(b'hello'); c.write(b'world')
    await asyncio.sleep(0.1)
    data = b''.join(got)
    if data != b'helloworld':
        bad.append(f'after a zero-length SDU nothing is delivered any more: sink got {got} (in_sdu={chans[0].in_sdu!r})')
    print('DEFECTS:')
    for b in bad: print('  -', b)
    return 1 if bad else 0
sys.exit(asyncio.run(main()))
