"""C12: a service registered through the service that includes it ends up *inside* the including service's handle range.

Server.add_service added the parent's service declaration first and then registered a not-yet-registered included
service in the middle of the parent: the client's service discovery (which continues after each service's end handle)
never finds the included service, and the parent's characteristic discovery reports the included service's
characteristic as its own.  Registering [parent, included] in that order re-added the nested service a second time.
Expected: discovery reconstructs both services with disjoint handle ranges.
"""
import asyncio
import logging
import sys

from bumble import gatt
from bumble.device import Peer
from tests.test_utils import TwoDevices

logging.disable(logging.CRITICAL)


async def main():
    d = TwoDevices()
    inner = gatt.Service('1855', [gatt.Characteristic('2BC9', gatt.Characteristic.Properties.READ, gatt.Characteristic.READABLE, b'i')])
    outer = gatt.Service('1856', [gatt.Characteristic('2BCA', gatt.Characteristic.Properties.READ, gatt.Characteristic.READABLE, b'o')], included_services=[inner])
    d[1].add_services([outer, inner])
    await d.setup_connection()
    client = Peer(d.connections[0])
    services = await client.discover_services()
    found = {str(s.uuid): (s.handle, s.end_group_handle) for s in services}
    o = next(s for s in services if s.uuid == outer.uuid)
    chars = [str(c.uuid) for c in await client.discover_characteristics([], o)]
    print('services:', found, '| characteristics of the outer service:', chars)
    ranges = sorted(found.values())
    disjoint = all(a[1] < b[0] for a, b in zip(ranges, ranges[1:]))
    return str(inner.uuid) in found and disjoint and chars == [str(gatt.UUID('2BCA'))] and len([s for s in services if s.uuid == inner.uuid]) == 1


sys.exit(0 if asyncio.run(main()) else 1)
