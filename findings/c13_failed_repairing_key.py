"""C13: after a bonded pair fails a *second* pairing on the same connection, the keys of the first bonding are still what both
sides yield for the central's next encryption request (the failed session must not supply a key).  Exit 1 if defect present."""
import asyncio, logging, sys
sys.path.insert(0, '/repo')
logging.disable(logging.CRITICAL)
from tests.test_utils import TwoDevices
from bumble import keys as keys_mod, pairing
from bumble.pairing import PairingConfig, PairingDelegate

bad = []
class Deleg(PairingDelegate):
    def __init__(self, ok): super().__init__(io_capability=PairingDelegate.IoCapability.DISPLAY_OUTPUT_AND_YES_NO_INPUT); self.ok = ok
    async def compare_numbers(self, number, digits): return self.ok[0]
    async def confirm(self, auto=False): return True

async def main():
    d = TwoDevices()
    ok = [True]
    for dev in d.devices:
        dev.keystore = keys_mod.MemoryKeyStore()
        dev.pairing_config_factory = lambda c: PairingConfig(sc=True, mitm=True, bonding=True, delegate=Deleg(ok))
    await d.setup_connection()
    await asyncio.wait_for(d[0].pair(d.connections[0]), 5)
    await asyncio.sleep(0.1)
    bonded = (await d[0].keystore.get_all())[0][1].ltk.value
    ok[0] = False                      # the second pairing is rejected at the numeric comparison
    try:
        await asyncio.wait_for(d[0].pair(d.connections[0]), 5)
        bad.append('the second pairing was expected to fail')
    except Exception:
        pass
    await asyncio.sleep(0.1)
    try:
        ans = await d[1].get_long_term_key(d.connections[1].handle, bytes(8), 0)
    except Exception as e:
        bad.append(f'the peripheral\'s long-term-key lookup raises {e!r}')
        ans = None
    if ans != bonded:
        bad.append(f'after the failed re-pairing the peripheral answers {ans.hex()[:8] if ans else None} while the bonded key (used by the central) is {bonded.hex()[:8]}')
    print('DEFECTS:')
    for b in bad: print('  -', b)
    return 1 if bad else 0
sys.exit(asyncio.run(main()))
