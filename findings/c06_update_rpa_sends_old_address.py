"""C06 (and C13 through it): after an RPA rotation the host and its controller disagree on the device's own address.

Device.update_rpa() generates a new resolvable private address but sent HCI_LE_Set_Random_Address with the *old*
`self.random_address`, then stored the new one host-side only.  The controller keeps advertising / connecting with the
old address while the device reports (and uses in pairing computations) the new one: the two ends of the next connection
report different addresses for this device.  Expected: the peer sees the address the device believes it has.
"""
import asyncio
import logging
import sys

from bumble import hci
from tests.test_utils import TwoDevices

logging.disable(logging.CRITICAL)


async def main():
    d = TwoDevices()
    await d[0].power_on()
    await d[1].power_on()
    d[1].irk = bytes(range(16))
    assert await d[1].update_rpa()
    host_side = d[1].random_address
    controller_side = d.controllers[1].random_address
    print('device believes:', host_side, '| controller has:', controller_side)
    await d[1].start_advertising(own_address_type=hci.OwnAddressType.RANDOM)
    connection = await asyncio.wait_for(d[0].connect(controller_side if controller_side != host_side else host_side), 5)
    await asyncio.sleep(0.1)
    peripheral_connection = next(iter(d[1].connections.values()))
    print('central sees peer:', connection.peer_address, '| peripheral says it is:', peripheral_connection.self_address)
    return host_side == controller_side and connection.peer_address == peripheral_connection.self_address


sys.exit(0 if asyncio.run(main()) else 1)
