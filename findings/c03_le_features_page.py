"""C03: a controller configured with an LE feature above bit 63 never answers LE Read Local Supported Features
(`value.to_bytes(8)` overflows inside the command handler, no Command Complete is sent).
Run from a bumble checkout: exit 0 when the command is concluded, 1 when it is not."""
import asyncio, logging, sys
logging.disable(logging.CRITICAL)
from bumble import hci
from bumble.controller import Controller
from bumble.link import LocalLink


class Sink:
    def __init__(self):
        self.packets = []

    def on_packet(self, packet):
        self.packets.append(hci.HCI_Packet.from_bytes(packet))


async def main():
    link = LocalLink()
    sink = Sink()
    c = Controller('C', link=link, public_address='F0:F1:F2:F3:F4:F5')
    c.host = sink
    high = [f for f in hci.LeFeatureMask if f.value >= (1 << 64)]
    if not high:
        print('ok: no feature above bit 63 is defined')
        return 0
    c.le_features = c.le_features | high[0]
    try:
        c.on_packet(bytes(hci.HCI_LE_Read_Local_Supported_Features_Command()))
    except Exception as e:  # the transport would log it
        print('handler raised', type(e).__name__, e)
    await asyncio.sleep(0.05)
    done = [p for p in sink.packets if isinstance(p, hci.HCI_Command_Complete_Event) and p.command_opcode == hci.HCI_LE_READ_LOCAL_SUPPORTED_FEATURES_COMMAND]
    if not done:
        print(f'FAIL: LE_Read_Local_Supported_Features with {high[0].name} set got no Command Complete')
        return 1
    print('ok: concluded with', done[0].return_parameters)
    return 0


sys.exit(asyncio.run(main()))
