"""C06: `controller.public_address = 'AA:BB:CC:DD:EE:FF'` (the setter accepts a string) built a *random*-typed Address, so
the link never finds this controller under its public address (classic connections, public-address advertisers), while
the constructor builds a public-typed one from the same string.
Run from a bumble checkout: exit 0 when the controller is found under the public address it was given, 1 otherwise."""
import asyncio, sys, logging
logging.disable(logging.CRITICAL)
from bumble import hci
from bumble.controller import Controller
from bumble.link import LocalLink


async def main():
    link = LocalLink()
    c = Controller('C', link=link, public_address='00:00:00:00:00:01')
    c.public_address = 'AA:BB:CC:DD:EE:FF'
    want = hci.Address('AA:BB:CC:DD:EE:FF', hci.Address.PUBLIC_DEVICE_ADDRESS)
    found = link.find_classic_controller(want)
    if found is not c or not c.public_address.is_public:
        print(f'FAIL: after the setter the controller holds {c.public_address!r}; lookup by the public address finds {found}')
        return 1
    print('ok')
    return 0


sys.exit(asyncio.run(main()))
