"""C09/C16: `asyncio.wait_for(channel.disconnect(), t)` expires (the peer does not answer): the channel keeps the cancelled
future in `disconnection_result`.  When the link then goes away, abort() calls set_result() on it, InvalidStateError
escapes from ChannelManager.on_disconnection, and the other channels of the link are never aborted (their waiters hang,
the tables keep them).  Run from a bumble checkout (cwd): exit 0 when every channel is closed and deregistered, 1 otherwise."""
import asyncio, logging, sys
logging.disable(logging.CRITICAL)
sys.path.insert(0, 'tests')
from bumble import l2cap
from test_utils import TwoDevices  # type: ignore


async def main():
    devices = await TwoDevices.create_with_connection()
    devices[1].create_l2cap_server(l2cap.LeCreditBasedChannelSpec(psm=0x80), handler=lambda ch: None)
    a = await devices.connections[0].create_l2cap_channel(l2cap.LeCreditBasedChannelSpec(psm=0x80))
    b = await devices.connections[0].create_l2cap_channel(l2cap.LeCreditBasedChannelSpec(psm=0x80))
    # the peer never answers the Disconnection Request of channel a
    peer_mgr = devices[1].l2cap_channel_manager
    peer_mgr.on_l2cap_disconnection_request = lambda *args, **kw: None
    try:
        await asyncio.wait_for(a.disconnect(), 0.2)
    except asyncio.TimeoutError:
        pass
    # now the link is lost
    handle = devices.connections[0].handle
    raised = None
    try:
        devices[0].host.on_hci_disconnection_complete_event(type('E', (), {'status': 0, 'connection_handle': handle, 'reason': 0x08})())
    except Exception as e:
        raised = e
    await asyncio.sleep(0.05)
    mgr = devices[0].l2cap_channel_manager
    problems = []
    if raised is not None:
        problems.append(f'the disconnection handling raised {type(raised).__name__}')
    if b.state != b.State.DISCONNECTED:
        problems.append(f'channel b was never aborted (state {b.state.name})')
    left = {h: list(t) for h, t in mgr.le_coc_channels.items() if t}
    if left:
        problems.append(f'le_coc_channels still lists {left}')
    if problems:
        print('FAIL: ' + '; '.join(problems))
        return 1
    print('ok: all channels of the lost link are closed and deregistered')
    return 0


sys.exit(asyncio.run(main()))
