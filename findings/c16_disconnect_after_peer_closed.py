"""C16: the peer closes the link; the application, still holding the Connection object, then calls disconnect() on it.
The host no longer knows the handle, the controller's failure report for it is ignored as "unknown handle", and
disconnect() waited for ever.  It must end with an error.
Run from a bumble checkout (cwd): exit 0 when disconnect() ends, 1 when it is still pending after 1 s."""
import asyncio, logging, sys
logging.disable(logging.CRITICAL)
sys.path.insert(0, 'tests')
from test_utils import TwoDevices  # type: ignore


async def main():
    devices = await TwoDevices.create_with_connection()
    mine = devices.connections[0]
    await devices.connections[1].disconnect()          # the peer closes
    await asyncio.sleep(0.1)
    assert mine.handle not in devices[0].connections
    t = asyncio.ensure_future(mine.disconnect())
    await asyncio.wait([t], timeout=1.0)
    if not t.done():
        t.cancel()
        print('FAIL: disconnect() on the connection the peer already closed is still waiting after 1 s')
        return 1
    print('ok: disconnect() ended with', repr(t.exception()) if t.exception() else 'success')
    return 0


sys.exit(asyncio.run(main()))
