"""C13: Secure Connections passkey entry with passkey 000000 must complete like any other passkey. Exit 1 if it hangs."""
import asyncio, logging, sys
sys.path.insert(0, '/repo'); sys.path.insert(0, '/repo/tests')
logging.disable(logging.CRITICAL)
from bumble import smp, pairing
from bumble.pairing import PairingConfig, PairingDelegate
from test_utils import TwoDevices

bad = []
class Kbd(PairingDelegate):
    def __init__(self): super().__init__(PairingDelegate.IoCapability.KEYBOARD_INPUT_ONLY)
    async def get_number(self): return 0
class Disp(PairingDelegate):
    def __init__(self): super().__init__(PairingDelegate.IoCapability.DISPLAY_OUTPUT_ONLY)
    async def display_number(self, number, digits): pass
    async def generate_passkey(self): return 0

async def main():
    d = TwoDevices()
    d.devices[0].pairing_config_factory = lambda c: PairingConfig(sc=True, mitm=True, bonding=False, delegate=Kbd())
    d.devices[1].pairing_config_factory = lambda c: PairingConfig(sc=True, mitm=True, bonding=False, delegate=Disp())
    # make the displayed passkey 0
    import bumble.smp as S
    orig = S.Session.__init__
    await d.setup_connection()
    import random
    real_randint = random.randint
    try:
        import secrets
        real = secrets.randbelow
        secrets.randbelow = lambda n: 0
        try:
            await asyncio.wait_for(d.connections[0].pair(), 3)
        except asyncio.TimeoutError:
            bad.append('SC passkey entry with passkey 000000 never completes (assert self.passkey fails in a background task)')
        except Exception as e:
            bad.append(f'SC passkey entry with passkey 000000 fails: {type(e).__name__}: {e}')
    finally:
        secrets.randbelow = real
    print('DEFECTS:')
    for b in bad: print('  -', b)
    return 1 if bad else 0
sys.exit(asyncio.run(main()))
