"""C09/C16: when the link goes away, a 'close' listener that raises on one channel leaves the other channels of the link
and the manager's per-connection state behind.

ChannelManager.on_disconnection aborted the channels of the connection in a loop; abort() emits 'close', and an exception
from an application listener left the loop: the remaining channels were never aborted (their state stays CONNECTED,
anything waiting on them is never released) and `identifiers[handle]` was never removed.
Expected: every channel of the lost link is closed and nothing of the connection is left in the manager.
"""
import asyncio
import logging
import sys

from bumble import l2cap
from tests.test_utils import TwoDevices

logging.disable(logging.CRITICAL)


async def main():
    d = await TwoDevices.create_with_connection()
    d[1].create_l2cap_server(l2cap.LeCreditBasedChannelSpec(psm=0x80), handler=lambda ch: None)
    c0 = d.connections[0]
    first = await c0.create_l2cap_channel(l2cap.LeCreditBasedChannelSpec(psm=0x80))
    second = await c0.create_l2cap_channel(l2cap.LeCreditBasedChannelSpec(psm=0x80))

    def boom(*_):
        raise RuntimeError('listener failure')

    first.on(first.EVENT_CLOSE, boom)
    handle = c0.handle
    try:
        await d.connections[1].disconnect()
    except Exception as e:  # noqa
        print('disconnect raised', type(e).__name__)
    await asyncio.sleep(0.3)
    m = d[0].l2cap_channel_manager
    print('second channel state:', second.state.name, '| identifiers left:', handle in m.identifiers, '| le_coc_channels left:', handle in m.le_coc_channels)
    return second.state == second.State.DISCONNECTED and handle not in m.identifiers


sys.exit(0 if asyncio.run(main()) else 1)
