"""C10: a Handle Value Confirmation is never answered, also when it is a duplicate (two confirmations for one indication)
or arrives when nothing is pending.  Exit 1 if defect present."""
import asyncio, logging, sys
sys.path.insert(0, '/repo'); sys.path.insert(0, '/repo/tests')
logging.disable(logging.CRITICAL)
from bumble import gatt, att
from test_utils import TwoDevices

bad = []
async def main():
    d = TwoDevices()
    ch = gatt.Characteristic('AB01', gatt.Characteristic.Properties.INDICATE | gatt.Characteristic.Properties.READ, gatt.Characteristic.READABLE, b'v')
    d.devices[1].add_services([gatt.Service('AA00', [ch])])
    await d.setup_connection()
    server = d.devices[1].gatt_server
    conn = d.connections[1]
    d.connections[0].gatt_client.on_gatt_pdu = lambda pdu: None      # the test confirms by hand
    sent = []
    real = server.send_gatt_pdu
    server.send_gatt_pdu = lambda bearer, pdu: (sent.append(bytes(pdu)), real(bearer, pdu))[1]
    task = asyncio.create_task(server.indicate_subscriber(conn, ch, b'x', force=True))
    await asyncio.sleep(0.05)
    sent.clear()
    for _ in range(2):                                    # two confirmations before the indicating task resumes
        try:
            server.on_gatt_pdu(conn, att.ATT_Handle_Value_Confirmation())
        except Exception:
            pass
    await asyncio.sleep(0.05)
    if sent:
        bad.append(f'a duplicate confirmation is answered with {[s.hex() for s in sent]}')
    sent.clear()
    try:
        server.on_gatt_pdu(conn, att.ATT_Handle_Value_Confirmation())   # nothing pending any more
    except Exception:
        pass
    await asyncio.sleep(0.05)
    if sent:
        bad.append(f'a stray confirmation is answered with {[s.hex() for s in sent]}')
    task.cancel()
    print('DEFECTS:')
    for b in bad: print('  -', b)
    return 1 if bad else 0
sys.exit(asyncio.run(main()))
