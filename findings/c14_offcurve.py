"""C14: a peer public key that is not a point on P-256 must be rejected by both crypto back ends. Exit 1 if defect present."""
import sys
sys.path.insert(0, '/repo')
from bumble.crypto import builtin
bad = []
k = builtin.EccKey.from_private_key_bytes((12345).to_bytes(32, 'big'))
for (x, y) in ((5, 7), (0, 0), (1, 1)):
    try:
        s = k.dh(x.to_bytes(32, 'big'), y.to_bytes(32, 'big'))
        bad.append(f'builtin back end accepted off-curve point ({x},{y}) -> secret {s.hex()[:16]}...')
    except Exception as e:
        print('builtin rejected', (x, y), type(e).__name__)
# on-curve points still work and agree with the library back end
from bumble.crypto import cryptography as cg
a = builtin.EccKey.from_private_key_bytes((777).to_bytes(32, 'big'))
b = cg.EccKey.from_private_key_bytes((888).to_bytes(32, 'big'))
if a.dh(b.x, b.y) != b.dh(a.x, a.y):
    bad.append('ECDH not symmetric across back ends')
try:
    b.dh((5).to_bytes(32, 'big'), (7).to_bytes(32, 'big')); bad.append('cryptography back end accepted off-curve point')
except Exception as e:
    print('cryptography rejected (5,7)', type(e).__name__)
print('DEFECTS:', bad)
sys.exit(1 if bad else 0)
