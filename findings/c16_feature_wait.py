"""C16: a remote-features read waiting on a connection must end when that connection goes away. Exit 1 if defect present."""
import asyncio, logging, sys
sys.path.insert(0, '/repo')
logging.disable(logging.CRITICAL)
from tests.test_utils import TwoDevices, async_barrier

async def main():
    d = await TwoDevices.create_with_connection()
    c0 = d.connections[0]
    # the peer controller never answers the feature request
    d.controllers[1].on_ll_control_pdu = lambda *a: None
    t = asyncio.ensure_future(d[0].get_remote_le_features(c0))
    await asyncio.sleep(0.05)
    # link is lost: report the disconnection to host 0
    from bumble import hci
    d[0].host.on_hci_disconnection_complete_event(hci.HCI_Disconnection_Complete_Event(status=0, connection_handle=c0.handle, reason=0x08))
    try:
        await asyncio.wait_for(t, 1)
        print('completed?'); return 0
    except asyncio.TimeoutError:
        print('DEFECT: get_remote_le_features() still waiting after the connection is gone'); return 1
    except (Exception, asyncio.CancelledError) as e:
        print('OK: ended with', type(e).__name__); return 0
sys.exit(asyncio.run(main()))
