"""C09: cancelling a pending LE credit-based channel open (e.g. wait_for timeout against a silent peer) must leave
no entry in the channel tables. Exit 1 if defect present."""
import asyncio, logging, sys
sys.path.insert(0, '/repo'); sys.path.insert(0, '/repo/tests')
logging.disable(logging.CRITICAL)
from bumble import l2cap
from test_utils import TwoDevices

bad = []
async def main():
    d = TwoDevices()
    await d.setup_connection()
    # the peer never answers L2CAP signalling
    d.devices[1].l2cap_channel_manager.on_control_frame = lambda *a, **k: None
    m = d.devices[0].l2cap_channel_manager
    h = d.connections[0].handle
    for label, opener in (('create_le_credit_based_channel', lambda: d.connections[0].create_l2cap_channel(spec=l2cap.LeCreditBasedChannelSpec(psm=0x80))),
                          ('create_enhanced_credit_based_channels', lambda: m.create_enhanced_credit_based_channels(d.connections[0], l2cap.LeCreditBasedChannelSpec(psm=0x80), 2))):
        try:
            await asyncio.wait_for(opener(), 0.2)
        except (asyncio.TimeoutError, asyncio.CancelledError):
            pass
        left = {k: sorted(v.get(h, {})) if isinstance(v, dict) and h in v else [] for k, v in (('channels', m.channels), ('le_coc_channels', m.le_coc_channels), ('pending_credit_based_connections', m.pending_credit_based_connections))}
        reqs = [k for k in m.le_coc_requests if k[0] == h]
        if any(left.values()) or reqs:
            bad.append(f'{label} cancelled: tables keep {dict((k, v) for k, v in left.items() if v)} requests {reqs}')
        for t in (m.channels, m.le_coc_channels, m.pending_credit_based_connections):
            t.pop(h, None)
        for k in reqs: m.le_coc_requests.pop(k, None)
    print('DEFECTS:')
    for b in bad: print('  -', b)
    return 1 if bad else 0
sys.exit(asyncio.run(main()))
