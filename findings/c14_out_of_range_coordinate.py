"""C14: a peer public key whose coordinate is not a field element (x >= p) is not a point on P-256 and must be
rejected by both back ends; the library back end must not silently reduce it.  Exit 1 if defect present."""
import logging, sys
sys.path.insert(0, '/repo')
logging.disable(logging.CRITICAL)
from bumble.crypto import builtin
from bumble.crypto import cryptography as lib

bad = []
p = 0xFFFFFFFF00000001000000000000000000000000FFFFFFFFFFFFFFFFFFFFFFFF
b = 0x5AC635D8AA3A93E7B3EBBD55769886BC651D06B0CC53B0F63BCE3C3E27D2604B
# the on-curve point with x0 = 0: y0 = sqrt(b) mod p  (p = 3 mod 4)
y0 = pow(b, (p + 1) // 4, p)
assert (y0 * y0 - b) % p == 0
x_bad = p + 0                    # fits in 32 bytes, congruent to x0 = 0, but not a field element
for name, mod in (('built-in', builtin), ('library', lib)):
    key = mod.EccKey.generate()
    try:
        s = key.dh(x_bad.to_bytes(32, 'big'), y0.to_bytes(32, 'big'))
        bad.append(f'{name} back end accepts x = p + 0 and returns a shared secret {s.hex()[:16]}...')
    except Exception as e:
        print(f'{name}: rejected with {type(e).__name__}')
print('DEFECTS:')
for b_ in bad: print('  -', b_)
sys.exit(1 if bad else 0)
