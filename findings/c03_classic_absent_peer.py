"""C03/C06: a classic Create Connection towards an address nobody answers must be concluded by a Connection Complete
event (with an error status) and leave no entry in the controller's connection table. Exit 1 if defect present."""
import asyncio, logging, sys
sys.path.insert(0, '/repo'); sys.path.insert(0, '/repo/tests')
logging.disable(logging.CRITICAL)
from bumble import hci, core
from test_utils import TwoDevices

bad = []
async def main():
    d = TwoDevices()
    d.devices[0].classic_enabled = True; d.devices[1].classic_enabled = True
    await d.devices[0].power_on(); await d.devices[1].power_on()
    ctrl = d.controllers[0]
    absent = hci.Address('AA:BB:CC:DD:EE:FF', hci.Address.PUBLIC_DEVICE_ADDRESS)
    try:
        await asyncio.wait_for(d.devices[0].connect(absent, transport=core.PhysicalTransport.BR_EDR, timeout=None), 1.0)
        bad.append('connect to an absent peer succeeded?')
    except asyncio.TimeoutError:
        bad.append('connect() to an absent classic peer never ends: Command Status PENDING was sent but no Connection Complete follows')
    except Exception:
        pass
    if absent in ctrl.classic_connections:
        bad.append('the controller keeps a placeholder entry (handle 0) for the connection that never existed')
    print('DEFECTS:')
    for b in bad: print('  -', b)
    return 1 if bad else 0
sys.exit(asyncio.run(main()))
