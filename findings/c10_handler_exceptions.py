"""C10: a request whose value callback fails with a non-ATT exception must still get exactly one reply.
Exit 1 if defect present."""
import asyncio, logging, struct, sys
sys.path.insert(0, '/repo'); sys.path.insert(0, '/repo/tests')
logging.disable(logging.CRITICAL)
from bumble import gatt, att
from test_utils import TwoDevices

bad = []
async def main():
    d = TwoDevices()
    def boom(connection): raise RuntimeError('application bug')
    c1 = gatt.Characteristic('AB01', gatt.Characteristic.Properties.READ | gatt.Characteristic.Properties.WRITE, gatt.Characteristic.READABLE | gatt.Characteristic.WRITEABLE, gatt.CharacteristicValue(read=boom, write=lambda c, v: (_ for _ in ()).throw(RuntimeError('application bug'))))
    d.devices[1].add_services([gatt.Service('AA00', [c1])])
    await d.setup_connection()
    replies = []
    client = d.connections[0]
    server_conn = d.connections[1]
    real = d.devices[1].gatt_server.send_gatt_pdu
    d.devices[1].gatt_server.send_gatt_pdu = lambda bearer, pdu: (replies.append(bytes(pdu)), real(bearer, pdu))[1]
    h = c1.handle
    for name, pdu in (('Read Request', att.ATT_Read_Request(attribute_handle=h)), ('Read Blob Request', att.ATT_Read_Blob_Request(attribute_handle=h, value_offset=0)),
                      ('Write Request', att.ATT_Write_Request(attribute_handle=h, attribute_value=b'x')), ('Read Multiple', att.ATT_Read_Multiple_Request(set_of_handles=struct.pack('<HH', h, h)))):
        replies.clear()
        d.devices[1].gatt_server.on_gatt_pdu(server_conn, pdu)
        await asyncio.sleep(0.05)
        if len(replies) != 1:
            bad.append(f'{name} on a characteristic whose callback raises RuntimeError got {len(replies)} replies')
    print('DEFECTS:')
    for b in bad: print('  -', b)
    return 1 if bad else 0
sys.exit(asyncio.run(main()))
