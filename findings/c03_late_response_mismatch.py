"""C03: after a command has timed out (response_timeout) the next command is sent; when the late answer to the first one
arrives, it must not be handed to the second caller (whose command has another opcode).
Run from a bumble checkout: exit 0 when the second caller gets its own response, 1 when it gets the stale one."""
import asyncio, logging, sys
logging.disable(logging.CRITICAL)
from bumble import hci
from bumble.host import Host


class Ctl:
    def __init__(self):
        self.sent = []

    def on_packet(self, packet):
        self.sent.append(hci.HCI_Packet.from_bytes(packet))


async def main():
    ctl = Ctl()
    host = Host()
    host.hci_sink = ctl
    host.ready = True
    first = hci.HCI_Read_BD_ADDR_Command()
    try:
        await host.send_sync_command_raw(first, response_timeout=0.05)
        print('?? first command answered')
    except asyncio.TimeoutError:
        pass
    except Exception as e:
        print('first command ended with', type(e).__name__)
    second = asyncio.ensure_future(host.send_sync_command_raw(hci.HCI_LE_Rand_Command()))
    await asyncio.sleep(0.05)
    # the controller's late answer to the first command
    late = hci.HCI_Command_Complete_Event(num_hci_command_packets=1, command_opcode=first.op_code,
                                          return_parameters=hci.HCI_Read_BD_ADDR_ReturnParameters(status=0, bd_addr=hci.Address('00:11:22:33:44:55')))
    host.on_packet(bytes(late))
    await asyncio.sleep(0.05)
    if second.done():
        r = second.result() if not second.exception() else second.exception()
        op = getattr(r, 'command_opcode', None)
        if op != hci.HCI_LE_RAND_COMMAND:
            print(f'FAIL: the LE_Rand caller was handed the response to opcode 0x{op:04X}' if op is not None else f'FAIL: the LE_Rand caller ended with {r!r}')
            return 1
    # now the right answer
    right = hci.HCI_Command_Complete_Event(num_hci_command_packets=1, command_opcode=hci.HCI_LE_RAND_COMMAND,
                                           return_parameters=hci.HCI_LE_Rand_ReturnParameters(status=0, random_number=bytes(8)))
    host.on_packet(bytes(right))
    r = await asyncio.wait_for(second, 1)
    ok = r.command_opcode == hci.HCI_LE_RAND_COMMAND
    print('ok: stale response ignored, own response delivered' if ok else 'FAIL')
    return 0 if ok else 1


sys.exit(asyncio.run(main()))
