"""C10: a Write Request whose value the characteristic's adapter cannot decode (wrong length for a packed value, invalid
UTF-8) must still get exactly one reply (an Error Response).  Exit 1 if defect present."""
import asyncio, logging, sys
sys.path.insert(0, '/repo'); sys.path.insert(0, '/repo/tests')
logging.disable(logging.CRITICAL)
from bumble import gatt, att, gatt_adapters
from test_utils import TwoDevices

bad = []
async def main():
    d = TwoDevices()
    base = gatt.Characteristic('AB01', gatt.Characteristic.Properties.READ | gatt.Characteristic.Properties.WRITE, gatt.Characteristic.READABLE | gatt.Characteristic.WRITEABLE, bytes(2))
    c1 = gatt_adapters.PackedCharacteristicAdapter(base, '<H')
    base2 = gatt.Characteristic('AB02', gatt.Characteristic.Properties.READ | gatt.Characteristic.Properties.WRITE, gatt.Characteristic.READABLE | gatt.Characteristic.WRITEABLE, b'')
    c2 = gatt_adapters.UTF8CharacteristicAdapter(base2)
    d.devices[1].add_services([gatt.Service('AA00', [c1, c2])])
    await d.setup_connection()
    replies = []
    server_conn = d.connections[1]
    real = d.devices[1].gatt_server.send_gatt_pdu
    d.devices[1].gatt_server.send_gatt_pdu = lambda bearer, pdu: (replies.append(bytes(pdu)), real(bearer, pdu))[1]
    for name, pdu in (('Write Request, 1 byte to a <H value', att.ATT_Write_Request(attribute_handle=c1.handle, attribute_value=b'x')),
                      ('Write Request, invalid UTF-8', att.ATT_Write_Request(attribute_handle=c2.handle, attribute_value=b'\xff\xfe'))):
        replies.clear()
        d.devices[1].gatt_server.on_gatt_pdu(server_conn, pdu)
        await asyncio.sleep(0.05)
        if len(replies) != 1:
            bad.append(f'{name}: {len(replies)} replies')
        elif replies[0][0] != 0x01:
            bad.append(f'{name}: answered with {replies[0].hex()} instead of an Error Response')
    print('DEFECTS:')
    for b in bad: print('  -', b)
    return 1 if bad else 0
sys.exit(asyncio.run(main()))
