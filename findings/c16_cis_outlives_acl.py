"""C16: established CIS links survive the disconnection of the ACL that carries them, on both sides and at every layer.

Controller.on_le_disconnected only removed the ACL from le_connections: the CIS links of that ACL stayed in the
controllers' CIS tables (still pointing at the dead ACL), no Disconnection Complete was sent for them, and Host.cis_links /
Device.cis_links kept them.  Expected: after the ACL is gone no CIS of it is left anywhere.
"""
import asyncio
import logging
import sys

from bumble.device import CigParameters, CisLink
from tests.test_utils import TwoDevices

logging.disable(logging.CRITICAL)


async def scenario():
    d = TwoDevices()
    await d.setup_connection()
    established = {}

    def on_cis_request(cis_link: CisLink):
        cis_link.acl_connection.cancel_on_disconnection(d[1].accept_cis_request(cis_link))
        established[cis_link.handle] = asyncio.get_running_loop().create_future()

    d[1].on('cis_request', on_cis_request)
    d[1].on('cis_establishment', lambda cis_link: established[cis_link.handle].set_result(None))
    handles = await d[0].setup_cig(CigParameters(cig_id=1, cis_parameters=[CigParameters.CisParameters(cis_id=2)], sdu_interval_c_to_p=0, sdu_interval_p_to_c=0))
    await d[0].create_cis([(handles[0], d.connections[0])])
    await asyncio.gather(*established.values())
    await d.connections[0].disconnect()
    await asyncio.sleep(0.3)
    left = {
        'host0.cis_links': len(d[0].host.cis_links), 'host1.cis_links': len(d[1].host.cis_links),
        'device0.cis_links': len(d[0].cis_links), 'device1.cis_links': len(d[1].cis_links),
        'controller1.peripheral_cis_links': len(d.controllers[1].peripheral_cis_links),
        'controller0 central CIS still on an ACL': sum(1 for c in d.controllers[0].central_cis_links.values() if c.acl_connection is not None),
    }
    print(left)
    return not any(left.values())


async def main():
    try:
        return await asyncio.wait_for(scenario(), 15)
    except asyncio.TimeoutError:
        print('timeout')
        return False


sys.exit(0 if asyncio.run(main()) else 1)
