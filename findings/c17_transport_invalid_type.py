"""C17/C02: an unrecognised packet-type byte must not stop a transport from framing later well-formed data.
Exit 1 if a defect is present."""
import asyncio, logging, sys
sys.path.insert(0, '/repo')
logging.disable(logging.CRITICAL)
from bumble.transport import common

bad = []
GOOD = bytes.fromhex('040e0401030c00')


class Sink:
    def __init__(self): self.got = []
    def on_packet(self, p): self.got.append(bytes(p))


async def pumped():
    q = asyncio.Queue()
    for x in (b'\x77', GOOD):
        q.put_nowait(x)
    src = common.PumpedPacketSource(q.get)
    sink = Sink(); src.set_packet_sink(sink)
    src.start()
    await asyncio.sleep(0.05)
    src.close()
    if sink.got != [GOOD]:
        bad.append(f'PumpedPacketSource: after one invalid type byte the pump stops; later packets are lost (delivered {len(sink.got)})')


async def ws():
    try:
        from bumble.transport import ws_server
        import inspect
    except Exception as e:
        print('  ws_server not importable:', e); return
    src_text = inspect.getsource(ws_server)
    # drive the connection handler with a fake connection
    class Conn:
        local_address = remote_address = 'x'
        def __init__(self, frames): self.frames = frames
        def __aiter__(self): return self
        async def __anext__(self):
            if not self.frames: raise StopAsyncIteration
            return self.frames.pop(0)
    # build the transport object the way open_ws_server_transport does, without listening
    try:
        cls = None
        for name, obj in vars(ws_server).items():
            pass
        sink = Sink()
        # the class is local to open_ws_server_transport: re-create it through the function with a patched serve
        import websockets.asyncio.server as was
        real = was.serve
        holder = {}
        async def fake_serve(handler, *a, **k):
            holder['handler'] = handler
            class S:
                def close(self): pass
                async def wait_closed(self): pass
            return S()
        was.serve = fake_serve
        try:
            t = await ws_server.open_ws_server_transport('127.0.0.1:0')
        finally:
            was.serve = real
        t.source.set_packet_sink(sink)
        try:
            await holder['handler'](Conn([b'\x77', GOOD]))
        except Exception as e:
            print('  ws handler raised', type(e).__name__)
        if sink.got != [GOOD]:
            bad.append(f'ws-server: after one invalid type byte the connection handler dies; later frames are lost (delivered {len(sink.got)})')
    except Exception as e:
        print('  ws scenario could not be set up:', type(e).__name__, e)


async def main():
    await pumped()
    await ws()
    print('DEFECTS:')
    for b in bad: print('  -', b)
    return 1 if bad else 0
sys.exit(asyncio.run(main()))
