"""C05: a zero-length isochronous SDU (legal: "no data this interval") produced no HCI ISO packet at all while the
packet sequence number still advanced, so the controller sees a gap.  It must go out as one complete-SDU packet
(pb_flag 0b10) with SDU length 0 and the current sequence number.
Run from a bumble checkout: exit 0 when that packet is sent, 1 otherwise."""
import sys, logging
logging.disable(logging.CRITICAL)
from bumble import hci
from bumble.host import Host, DataPacketQueue, IsoLink


def main():
    host = Host()
    sent = []
    q = DataPacketQueue(max_packet_size=64, max_in_flight=8, send=sent.append)
    link = IsoLink(handle=0x10, packet_queue=q)
    host.cis_links[0x10] = link
    before = link.packet_sequence_number
    host.send_iso_sdu(0x10, b'')
    after = link.packet_sequence_number
    ok = len(sent) == 1 and sent[0].pb_flag == 0b10 and sent[0].iso_sdu_length == 0 and sent[0].packet_sequence_number == before and after == (before + 1) & 0xFFFF
    if not ok:
        print(f'FAIL: zero-length SDU: {len(sent)} packet(s) sent, sequence number {before} -> {after}')
        return 1
    # and the ordinary case is unchanged
    sent.clear()
    host.send_iso_sdu(0x10, bytes(100))
    flags = [p.pb_flag for p in sent]
    if flags != [0b00, 0b11] or sum(len(p.iso_sdu_fragment) for p in sent) != 100:
        print('FAIL: 100-byte SDU fragments', flags)
        return 1
    print('ok')
    return 0


sys.exit(main())
