"""C16: two indications are in progress on one connection (the second waits for the first one's confirmation slot) when the
link goes away: both must end promptly and the server must keep no entry for the closed connection.  Exit 1 if defect present."""
import asyncio, logging, sys
sys.path.insert(0, '/repo'); sys.path.insert(0, '/repo/tests')
logging.disable(logging.CRITICAL)
from bumble import gatt
from test_utils import TwoDevices

bad = []
async def main():
    d = TwoDevices()
    ch = gatt.Characteristic('AB01', gatt.Characteristic.Properties.INDICATE | gatt.Characteristic.Properties.READ, gatt.Characteristic.READABLE, b'v')
    d.devices[1].add_services([gatt.Service('AA00', [ch])])
    await d.setup_connection()
    server = d.devices[1].gatt_server
    conn = d.connections[1]
    # the client never confirms
    d.devices[0].gatt_client_never = True
    d.connections[0].gatt_client.on_gatt_pdu = lambda pdu: None
    t1 = asyncio.create_task(server.indicate_subscriber(conn, ch, b'one', force=True))
    t2 = asyncio.create_task(server.indicate_subscriber(conn, ch, b'two', force=True))
    await asyncio.sleep(0.05)
    await d.connections[0].disconnect()
    await asyncio.sleep(0.3)
    for name, t in (('first', t1), ('second (queued)', t2)):
        if not t.done():
            bad.append(f'the {name} indicate_subscriber() is still waiting 0.3 s after the connection was closed')
            t.cancel()
    await asyncio.sleep(0.05)
    for t in (t1, t2):
        if t.done() and not t.cancelled():
            t.exception()
    stale = [t for t in ('subscribers', 'indication_semaphores', 'pending_confirmations') if conn in getattr(server, t)]
    if stale:
        bad.append(f'GATT server keeps entries for the closed connection in {stale}')
    print('DEFECTS:')
    for b in bad: print('  -', b)
    return 1 if bad else 0
sys.exit(asyncio.run(main()))
