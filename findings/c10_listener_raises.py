"""C10: a Read / Write Request on a characteristic whose application 'read' / 'write' event listener raises must still get
exactly one reply.  Exit 1 if defect present."""
import asyncio, logging, sys
sys.path.insert(0, '/repo'); sys.path.insert(0, '/repo/tests')
logging.disable(logging.CRITICAL)
from bumble import gatt, att
from test_utils import TwoDevices

bad = []
async def main():
    d = TwoDevices()
    c1 = gatt.Characteristic('AB01', gatt.Characteristic.Properties.READ | gatt.Characteristic.Properties.WRITE, gatt.Characteristic.READABLE | gatt.Characteristic.WRITEABLE, b'v')
    def boom(*a): raise RuntimeError('listener bug')
    c1.on('read', boom); c1.on('write', boom)
    d.devices[1].add_services([gatt.Service('AA00', [c1])])
    await d.setup_connection()
    server = d.devices[1].gatt_server
    sent = []
    real = server.send_gatt_pdu
    server.send_gatt_pdu = lambda bearer, pdu: (sent.append(bytes(pdu)), real(bearer, pdu))[1]
    for name, pdu in (('Read Request', att.ATT_Read_Request(attribute_handle=c1.handle)), ('Write Request', att.ATT_Write_Request(attribute_handle=c1.handle, attribute_value=b'x'))):
        sent.clear()
        try:
            server.on_gatt_pdu(d.connections[1], pdu)
        except Exception:
            pass
        await asyncio.sleep(0.05)
        if len(sent) != 1:
            bad.append(f'{name} with a raising listener: {len(sent)} replies')
    print('DEFECTS:')
    for b in bad: print('  -', b)
    return 1 if bad else 0
sys.exit(asyncio.run(main()))
