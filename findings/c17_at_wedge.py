"""C17/C20: one malformed AT line must not wedge the AT reader; every AT command gets exactly one final result code.
Exit 1 if a defect is present."""
import asyncio, logging, sys
sys.path.insert(0, '/repo')
logging.disable(logging.CRITICAL)
from bumble import hfp

class FakeChannel:
    EVENT_CLOSE = 'close'
    def on(self, *a): pass
class FakeMux: l2cap_channel = FakeChannel()
class FakeDlc:
    def __init__(self): self.out = []; self.sink = None; self.multiplexer = FakeMux()
    def write(self, d): self.out.append(d if isinstance(d, str) else d.decode())

bad = []
async def main():
    dlc = FakeDlc()
    cfg = hfp.AgConfiguration(supported_ag_features=[hfp.AgFeature.ENHANCED_CALL_STATUS], supported_ag_indicators=[hfp.AgIndicatorState.call()], supported_hf_indicators=[], supported_ag_call_hold_operations=[], supported_audio_codecs=[hfp.AudioCodec.CVSD])
    ag = hfp.AgProtocol(dlc, cfg)
    def finals(): return [x.strip() for x in dlc.out if x.strip() in ('OK', 'ERROR') or x.strip().startswith('+CME ERROR')]
    # 1. malformed line followed by a good one
    for line in (b'AT+"\r', b'AT+CMEE=1\r'):
        try: ag._read_at(line)
        except Exception as e: print('  AG raised', type(e).__name__)
    if bytes(ag.read_buffer):
        bad.append(f'AG reader wedged: malformed line stays in the buffer ({bytes(ag.read_buffer)!r}), later commands are never processed')
    # 2. arity mismatch
    dlc.out.clear(); ag.read_buffer = bytearray()
    try: ag._read_at(b'AT+CMEE=1,2,3\r')
    except Exception as e: print('  AG raised', type(e).__name__)
    if len(finals()) != 1:
        bad.append(f'AT+CMEE=1,2,3 (unexpected arity) got {len(finals())} final result codes')
    # 3. AT+CHLD with an unsupported operation: exactly one final result code
    dlc.out.clear(); ag.read_buffer = bytearray()
    try: ag._read_at(b'AT+CHLD=4\r')
    except Exception as e: print('  AG raised', type(e).__name__)
    if len(finals()) != 1:
        bad.append(f'AT+CHLD=4 (unsupported) got final result codes {finals()}')
    dlc.out.clear(); ag.read_buffer = bytearray()
    try: ag._read_at(b'AT+CMER=3,0,0,2\r')
    except Exception as e: print('  AG raised', type(e).__name__)
    if len(finals()) != 1:
        bad.append(f'AT+CMER=3,0,0,2 (invalid) got final result codes {finals()}')
    # 4. HF reader: malformed response then a good one
    hf_dlc = FakeDlc()
    hf = hfp.HfProtocol(hf_dlc, hfp.HfConfiguration(supported_hf_features=[], supported_hf_indicators=[], supported_audio_codecs=[hfp.AudioCodec.CVSD]))
    for chunk in (b'\r\n+CIND: )\r\n', b'\r\nOK\r\n'):
        try: hf._read_at(chunk)
        except Exception as e: print('  HF raised', type(e).__name__)
    if bytes(hf.read_buffer):
        bad.append(f'HF reader wedged: malformed response stays in the buffer ({bytes(hf.read_buffer)!r})')
    print('DEFECTS:')
    for b in bad: print('  -', b)
    return 1 if bad else 0
sys.exit(asyncio.run(main()))
