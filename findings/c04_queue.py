"""C04: (a) flush() of one connection must not leave another connection's packet waiting while
credits are free; (b) FlowControlAsyncPipe must deliver in write order. Exit 1 if defect present."""
import asyncio, logging, sys
sys.path.insert(0, '/repo')
logging.disable(logging.CRITICAL)
from bumble import host, utils

bad = []
sent = []
q = host.DataPacketQueue(max_packet_size=27, max_in_flight=2, send=sent.append)
q.enqueue('a1', 1); q.enqueue('a2', 1); q.enqueue('b1', 2)   # a1,a2 in flight; b1 waits
q.flush(1)                                                     # disconnection of handle 1 frees both credits
print('after flush: sent', sent, 'in_flight', q._in_flight, 'waiting', len(q._packets))
if 'b1' not in sent:
    bad.append('flush() frees credits but leaves b1 queued with 0 packets in flight')

# (c) an over-report for one connection must not free the credits other connections still hold
sent2 = []
q2 = host.DataPacketQueue(max_packet_size=27, max_in_flight=2, send=sent2.append)
q2.enqueue('a1', 1); q2.enqueue('b1', 2)              # one buffer each
q2.on_packets_completed(2, 1)                          # controller over-reports for A; B's packet is still in the controller
q2.enqueue('a2', 1); q2.enqueue('a3', 1)
outstanding = len(sent2) - 1                           # everything sent except a1 (the only packet that can have completed)
print('over-report: sent', sent2, 'outstanding in controller', outstanding)
if outstanding > 2:
    bad.append(f'after an over-report for one connection the host has {outstanding} packets in a controller that advertised 2 buffers')

# (d) drain() must wait for packets that are still queued for lack of a free buffer
async def drain_waits():
    sent3 = []
    q3 = host.DataPacketQueue(max_packet_size=27, max_in_flight=1, send=sent3.append)
    q3.enqueue('b0', 2); q3.on_packets_completed(1, 2)      # connection 2 had traffic before
    q3.enqueue('a1', 1)                                     # connection 1 takes the only buffer
    q3.enqueue('b1', 2)                                     # b1 waits in the queue
    try:
        await asyncio.wait_for(q3.drain(2), 0.05)
        bad.append('drain(2) returned while its packet b1 has not even been handed to the controller')
    except asyncio.TimeoutError:
        pass
    except ValueError as e:
        bad.append(f'drain(2) raised {e!r} although a packet of connection 2 is queued')
    q3.on_packets_completed(1, 1); q3.on_packets_completed(1, 2)
    try:
        await asyncio.wait_for(q3.drain(2), 0.05)
    except asyncio.TimeoutError:
        bad.append('drain(2) still waiting after everything completed')
asyncio.run(drain_waits())

async def pipe():
    out = []
    p = utils.FlowControlAsyncPipe(lambda: None, lambda: None, write_to_sink=out.append, threshold=100)
    for i in range(4):
        p.write(bytes([i]))
    p.start()
    await asyncio.sleep(0.05)
    p.stop()
    print('pipe order', out)
    if out != [bytes([i]) for i in range(4)]:
        bad.append('FlowControlAsyncPipe delivers out of write order')
asyncio.run(pipe())
print('DEFECTS:', bad)
sys.exit(1 if bad else 0)
