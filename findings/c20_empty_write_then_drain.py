"""C20: DLC.write(b'') followed by drain() never returns.

write() cleared the `drained` event whatever it was given; with nothing in the transmit buffer process_tx() sends nothing,
and nothing sets the event again: a caller that drains after an empty write waits for ever (credit replenishment cannot
help, there is nothing to send).  Expected: an empty write is a no-op and drain() returns at once.
"""
import asyncio
import logging
import sys

from bumble.rfcomm import Client, Server
from tests.test_utils import TwoDevices

logging.disable(logging.CRITICAL)


async def scenario():
    d = TwoDevices()
    await d.setup_connection()
    accepted = asyncio.get_running_loop().create_future()
    channel = Server(d[0]).listen(acceptor=accepted.set_result)
    mux = await Client(d.connections[1]).start()
    peer, dlc = await asyncio.gather(accepted, mux.open_dlc(channel))
    got = bytearray()
    peer.sink = got.extend
    dlc.write(b'abc')
    await asyncio.wait_for(dlc.drain(), 2)
    dlc.write(b'')
    try:
        await asyncio.wait_for(dlc.drain(), 2)
        drained = True
    except asyncio.TimeoutError:
        drained = False
    dlc.write(b'def')
    await asyncio.sleep(0.2)
    print('drain() after an empty write returned:', drained, '| received:', bytes(got))
    return drained and bytes(got) == b'abcdef'


async def main():
    try:
        return await asyncio.wait_for(scenario(), 15)
    except asyncio.TimeoutError:
        print('timeout')
        return False


sys.exit(0 if asyncio.run(main()) else 1)
