"""C13/C17: a Pairing Request with an IO capability outside the defined range must be refused with Pairing Failed (the
initiator must not be left waiting), and an SMP PDU with an unknown command code must not raise in the debug formatting.
Exit 1 if defect present."""
import asyncio, logging, sys
sys.path.insert(0, '/repo'); sys.path.insert(0, '/repo/tests')
from bumble import smp
from test_utils import TwoDevices

bad = []
async def main():
    logging.disable(logging.CRITICAL)
    d = TwoDevices()
    await d.setup_connection()
    sent = []
    mgr = d.devices[1].smp_manager
    real = mgr.send_command
    mgr.send_command = lambda connection, command: (sent.append(command), real(connection, command))[1]
    req = smp.SMP_Pairing_Request_Command(io_capability=0xFF, oob_data_flag=0, auth_req=smp.AuthReq.MITM | smp.AuthReq.BONDING, maximum_encryption_key_size=16, initiator_key_distribution=1, responder_key_distribution=1)
    try:
        mgr.on_smp_pdu(d.connections[1], bytes(req))
    except Exception as e:
        bad.append(f'Pairing Request with io_capability 0xFF raises {e!r}')
    await asyncio.sleep(0.2)
    if not any(isinstance(c, smp.SMP_Pairing_Failed_Command) for c in sent):
        bad.append(f'Pairing Request with io_capability 0xFF is not answered with Pairing Failed (sent: {[type(c).__name__ for c in sent]})')
    logging.disable(logging.NOTSET)
    logging.getLogger('bumble.smp').setLevel(logging.DEBUG)     # the debug line is formatted eagerly (f-string) at any level
    logging.getLogger('bumble.smp').addHandler(logging.NullHandler())
    logging.getLogger('bumble.smp').propagate = False
    try:
        str(smp.SMP_Command.from_bytes(bytes([0x0F, 1, 2])))
    except Exception as e:
        bad.append(f'formatting an SMP PDU with an unknown code raises {e!r}')
    print('DEFECTS:')
    for b in bad: print('  -', b)
    return 1 if bad else 0
sys.exit(asyncio.run(main()))
