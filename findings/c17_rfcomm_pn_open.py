"""C17: an RFCOMM PN command for a DLCI that is already open must not replace the live data link:
data written afterwards still has to reach the application.  Exit 1 if defect present."""
import asyncio, logging, sys
sys.path.insert(0, '/repo'); sys.path.insert(0, '/repo/tests')
logging.disable(logging.CRITICAL)
from bumble import rfcomm, core
from test_utils import TwoDevices

bad = []
async def main():
    d = TwoDevices()
    d.devices[0].classic_enabled = True
    d.devices[1].classic_enabled = True
    await d.setup_connection()
    got = []
    server = rfcomm.Server(d.devices[1])
    def on_dlc(dlc):
        dlc.sink = got.append
    ch = server.listen(on_dlc)
    conn = d.connections[0]
    client = rfcomm.Client(conn)
    mux = await client.start()
    dlc = await mux.open_dlc(ch)
    dlc.write(b'one')
    await asyncio.sleep(0.05)
    # a second PN command for the DLCI that is open
    pn = rfcomm.RFCOMM_MCC_PN(dlci=dlc.dlci, cl=0xF0, priority=7, ack_timer=0, max_frame_size=100, max_retransmissions=0, initial_credits=7)
    mcc = rfcomm.RFCOMM_Frame.make_mcc(mcc_type=rfcomm.MccType.PN, c_r=1, data=bytes(pn))
    mux.send_frame(rfcomm.RFCOMM_Frame.uih(c_r=1 if mux.role == rfcomm.Multiplexer.Role.INITIATOR else 0, dlci=0, information=mcc))
    await asyncio.sleep(0.05)
    dlc.write(b'two')
    await asyncio.sleep(0.1)
    if b''.join(got) != b'onetwo':
        bad.append(f'after a PN command for the open DLCI, written data no longer reaches the application: got {got}')
    print('DEFECTS:')
    for b in bad: print('  -', b)
    return 1 if bad else 0
sys.exit(asyncio.run(main()))
