"""C18: a well-formed SDP data element holding a 128-bit integer cannot be parsed (nor built).

SDP defines integer sizes of 1, 2, 4, 8 and 16 octets (size index 4).  DataElement's size-index table knows 16, but
unsigned_integer_from_bytes / signed_integer_from_bytes and the integer branches of __bytes__ stopped at 8: the element
0x0C + 16 octets raised InvalidPacketError, DataElement.unsigned_integer(v, 16) raised on serialisation.
Expected: both directions round-trip.
"""
import sys

from bumble.sdp import DataElement

ok = True
for header, signed in ((0x0C, False), (0x14, True)):
    wire = bytes([header]) + bytes(range(0xF0, 0x100))
    try:
        e = DataElement.from_bytes(wire)
        out = bytes(e)
        again = bytes(DataElement(e.type, e.value, 16))
        print(hex(header), 'value', hex(e.value), '->', out.hex(), 'OK' if out == wire == again else 'MISMATCH')
        ok = ok and out == wire == again and (e.value < 0) == signed
    except Exception as ex:  # noqa
        print(hex(header), type(ex).__name__, ex)
        ok = False
sys.exit(0 if ok else 1)
