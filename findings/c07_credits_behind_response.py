"""C07: the acceptor of an LE credit-based channel may grant more credits right behind its connection response.  The
initiator indexed the channel by destination CID only after `await channel.connect()` resumed, i.e. after the credit frame
had already been processed: "received credits for an unknown channel", the credits were dropped and the sender stays short
of them for good (a peer that accepts with 0 initial credits and grants the rest at once stalls the transfer).
Run from a bumble checkout (cwd): exit 0 when the extra credits are counted, 1 otherwise."""
import asyncio, logging, sys
logging.disable(logging.CRITICAL)
sys.path.insert(0, 'tests')
from bumble import l2cap
from test_utils import TwoDevices  # type: ignore


async def main():
    devices = await TwoDevices.create_with_connection()
    accepted = []

    def on_channel(ch):
        accepted.append(ch)
    devices[1].create_l2cap_server(l2cap.LeCreditBasedChannelSpec(psm=0x80, max_credits=1), handler=on_channel)
    peer = devices[1].l2cap_channel_manager
    orig_send = peer.send_control_frame

    def send(connection, cid, frame):
        orig_send(connection, cid, frame)
        if isinstance(frame, l2cap.L2CAP_LE_Credit_Based_Connection_Response) and frame.result == 0:
            # legal: more credits right behind the response
            orig_send(connection, cid, l2cap.L2CAP_LE_Flow_Control_Credit(identifier=peer.next_identifier(connection), cid=frame.destination_cid, credits=5))
    peer.send_control_frame = send
    ch = await asyncio.wait_for(devices.connections[0].create_l2cap_channel(l2cap.LeCreditBasedChannelSpec(psm=0x80)), 2)
    await asyncio.sleep(0.05)
    if ch.credits != 6:
        print(f'FAIL: the acceptor granted 1 + 5 credits, the initiator holds {ch.credits}')
        return 1
    print('ok: 6 credits')
    return 0


sys.exit(asyncio.run(main()))
