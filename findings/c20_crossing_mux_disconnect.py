"""C20: both ends of an RFCOMM multiplexer call disconnect() at the same time.  Each receives the other's DISC while it
is DISCONNECTING: on_disc_frame moved to DISCONNECTED and answered UA but did not complete its own pending disconnect();
the UA that arrives later is ignored (no longer DISCONNECTING), so both disconnect() calls hung.
Run from a bumble checkout: exit 0 when both calls return with both ends DISCONNECTED, 1 otherwise."""
import asyncio, logging, sys
logging.disable(logging.CRITICAL)
from bumble import rfcomm


class Chan:
    EVENT_CLOSE = 'close'

    def __init__(self, mtu=1024):
        self.peer_mtu, self.sink, self.peer = mtu, None, None
        self.connection = type('C', (), {'peer_address': 'x'})()

    def on(self, *a):
        pass

    def write(self, data):
        asyncio.get_running_loop().call_soon(lambda: self.peer.sink(data))


async def main():
    a, b = Chan(), Chan()
    a.peer, b.peer = b, a
    srv = rfcomm.Multiplexer(a, rfcomm.Multiplexer.Role.RESPONDER)
    cli = rfcomm.Multiplexer(b, rfcomm.Multiplexer.Role.INITIATOR)
    await cli.connect()
    await asyncio.sleep(0.01)
    t1 = asyncio.ensure_future(cli.disconnect())
    t2 = asyncio.ensure_future(srv.disconnect())
    await asyncio.wait([t1, t2], timeout=1.0)
    hung = [n for n, t in (('initiator', t1), ('responder', t2)) if not t.done()]
    for t in (t1, t2):
        t.cancel()
    if hung or cli.state != cli.State.DISCONNECTED or srv.state != srv.State.DISCONNECTED:
        print(f'FAIL: disconnect() still pending on {hung}; states {cli.state.name} / {srv.state.name}')
        return 1
    print('ok: both ends disconnected')
    return 0


sys.exit(asyncio.run(main()))
