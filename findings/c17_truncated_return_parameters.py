"""C17: a Command Complete event whose return parameters are truncated (status SUCCESS, fields missing) must still conclude
the pending command (with whatever could be parsed, or an error): later commands must not be blocked.  Exit 1 if defect present."""
import asyncio, logging, sys
sys.path.insert(0, '/repo'); sys.path.insert(0, '/repo/tests')
logging.disable(logging.CRITICAL)
from bumble import hci
from test_utils import TwoDevices

bad = []
async def main():
    d = TwoDevices()
    await d.devices[0].power_on()
    host = d.devices[0].host
    ctrl = d.controllers[0]
    real = ctrl.send_hci_packet
    def truncating(packet):
        if isinstance(packet, hci.HCI_Command_Complete_Event) and packet.command_opcode == hci.HCI_READ_BD_ADDR_COMMAND:
            raw = bytes(packet)
            # keep the event header, opcode and the status byte; drop the address
            cut = raw[:3] + raw[3:7]
            cut = bytes([cut[0], cut[1], len(cut) - 3]) + cut[3:]
            host.on_packet(cut)
            return
        real(packet)
    ctrl.send_hci_packet = truncating
    t = asyncio.create_task(host.send_command(hci.HCI_Read_BD_ADDR_Command()))
    await asyncio.sleep(0.2)
    if not t.done():
        bad.append('the command whose Command Complete had truncated return parameters never completes')
        t.cancel()
    else:
        try:
            t.result()
        except Exception:
            pass
    ctrl.send_hci_packet = real
    t2 = asyncio.create_task(host.send_command(hci.HCI_LE_Rand_Command()))
    await asyncio.sleep(0.2)
    if not t2.done():
        bad.append('a later command is blocked (command semaphore still held)')
        t2.cancel()
    await asyncio.sleep(0.02)
    print('DEFECTS:')
    for b in bad: print('  -', b)
    return 1 if bad else 0
sys.exit(asyncio.run(main()))
