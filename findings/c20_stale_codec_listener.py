"""C20: AgProtocol.negotiate_codec() registers `future.set_result` as a 'codec_negotiation' listener and, when the caller
gives up (timeout / cancellation), leaves it registered.  The next AT+BCS=<id> from the hands-free runs _on_bcs: it sends
OK, then the emit reaches the stale listener, set_result on the cancelled future raises, and the AT reader answers ERROR
as well: one command, two final result codes.
Run from a bumble checkout: exit 0 when AT+BCS gets exactly one final result code, 1 otherwise."""
import asyncio, logging, sys
logging.disable(logging.CRITICAL)
from bumble import hfp


class FakeChannel:
    EVENT_CLOSE = 'close'

    def on(self, *a):
        pass


class FakeMux:
    l2cap_channel = FakeChannel()


class FakeDlc:
    def __init__(self):
        self.out, self.sink, self.multiplexer = [], None, FakeMux()

    def write(self, d):
        self.out.append(d if isinstance(d, str) else d.decode())


async def main():
    dlc = FakeDlc()
    conf = hfp.AgConfiguration(supported_ag_features=[hfp.AgFeature.CODEC_NEGOTIATION], supported_ag_indicators=[], supported_hf_indicators=[], supported_ag_call_hold_operations=[], supported_audio_codecs=[hfp.AudioCodec.CVSD, hfp.AudioCodec.MSBC])
    ag = hfp.AgProtocol(dlc, conf)
    ag.supported_hf_features = hfp.HfFeature.CODEC_NEGOTIATION
    ag.supported_audio_codecs = [hfp.AudioCodec.CVSD, hfp.AudioCodec.MSBC]
    try:
        await asyncio.wait_for(ag.negotiate_codec(hfp.AudioCodec.MSBC), 0.1)      # the hands-free never answers
    except asyncio.TimeoutError:
        pass
    dlc.out.clear()
    dlc.sink(b'AT+BCS=2\r')
    await asyncio.sleep(0.1)
    finals = [x for x in ''.join(dlc.out).replace('\r', '').split('\n') if x in ('OK', 'ERROR') or x.startswith('+CME ERROR')]
    if finals != ['OK']:
        print(f'FAIL: AT+BCS=2 after an abandoned negotiation was concluded by {finals}')
        return 1
    print('ok: one final result code')
    return 0


sys.exit(asyncio.run(main()))
