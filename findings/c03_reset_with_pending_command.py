"""C03: Host.reset() called while another task has a command in flight must not drop that command's response:
both the command and the reset have to complete.  Exit 1 if defect present."""
import asyncio, logging, sys
sys.path.insert(0, '/repo'); sys.path.insert(0, '/repo/tests')
logging.disable(logging.CRITICAL)
from bumble import hci
from test_utils import TwoDevices

bad = []
async def main():
    d = TwoDevices()
    await d.devices[0].power_on()
    host = d.devices[0].host
    # delay the controller -> host direction a little (order preserving)
    orig = host.on_packet
    loop = asyncio.get_running_loop()
    host.on_packet = lambda p: loop.call_later(0.02, orig, p)
    d.controllers[0].hci_sink = host if False else d.controllers[0].hci_sink
    sink = d.controllers[0].hci_sink
    class Delayed:
        def on_packet(self, p): loop.call_later(0.02, orig, p)
    d.controllers[0].hci_sink = Delayed()
    t1 = asyncio.create_task(host.send_command(hci.HCI_Read_BD_ADDR_Command()))
    await asyncio.sleep(0.005)          # the command is in flight, its response has not arrived yet
    t2 = asyncio.create_task(host.reset(driver_factory=None))
    done, pending = await asyncio.wait({t1, t2}, timeout=2)
    if t1 in pending:
        bad.append('the command in flight when reset() was called never gets its response (dropped: host not ready)')
    if t2 in pending:
        bad.append('reset() never completes (it waits for the command semaphore held by the starved command)')
    for t in pending: t.cancel()
    await asyncio.sleep(0.05)
    for t in (t1, t2):
        if t.done() and not t.cancelled(): t.exception()
    print('DEFECTS:')
    for b in bad: print('  -', b)
    return 1 if bad else 0
sys.exit(asyncio.run(main()))
