"""C08/C18: ERTM S-frame control field must round-trip (poll bit). Exit 1 if defect present."""
import sys
sys.path.insert(0, '/repo')
from bumble import l2cap
bad = []
for poll in (0, 1):
    for final in (0, 1):
        f = l2cap.SupervisoryEnhancedControlField(supervision_function=1, poll=poll, req_seq=5, final=final)
        g = l2cap.EnhancedControlField.from_bytes(bytes(f))
        if (g.poll, g.final, g.req_seq, g.supervision_function) != (poll, final, 5, 1):
            bad.append(f'S-frame poll={poll} final={final} parses back as poll={g.poll} final={g.final}')
print('DEFECTS:', bad)
sys.exit(1 if bad else 0)
