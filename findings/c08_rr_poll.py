"""C08: when acknowledgements are delayed beyond the retransmission timeout the sender polls the receiver (RR with P=1);
the receiver must answer with F=1 so that the sender resumes. Exit 1 if the transfer stalls."""
import asyncio, logging, sys
sys.path.insert(0, '/repo'); sys.path.insert(0, '/repo/tests')
logging.disable(logging.CRITICAL)
from bumble import l2cap
from test_utils import TwoDevices

bad = []
async def main():
    d = TwoDevices()
    await d.setup_connection()
    got = []
    spec = l2cap.ClassicChannelSpec(psm=0x1001, mode=l2cap.TransmissionMode.ENHANCED_RETRANSMISSION, tx_window_size=2, mps=64, retransmission_timeout=0.05, monitor_timeout=0.2)
    server_channels = []
    def on_conn(ch):
        server_channels.append(ch); ch.sink = got.append
    d.devices[1].create_l2cap_server(spec=spec, handler=on_conn)
    ch = await d.connections[0].create_l2cap_channel(spec=spec)
    await asyncio.sleep(0.05)
    srv = server_channels[0]
    # delay (order preserving) everything the server sends, beyond the client's retransmission timeout
    real = srv.manager.send_pdu
    def delayed(connection, cid, pdu, *a, **k):
        asyncio.get_running_loop().call_later(0.1, lambda: real(connection, cid, pdu, *a, **k))
    srv.manager.send_pdu = delayed
    sdu = bytes(range(256)) * 3
    ch.write(sdu) if hasattr(ch, 'write') else ch.send_pdu(sdu)
    for _ in range(40):
        await asyncio.sleep(0.1)
        if got and b''.join(got) == sdu:
            break
    if b''.join(got) != sdu:
        p = ch.processor
        bad.append(f'ERTM transfer stalls after a poll: {len(b"".join(got))}/{len(sdu)} bytes delivered, {len(p._pending_pdus)} PDUs pending, monitor armed: {p._monitor_handle is not None}')
    print('DEFECTS:')
    for b in bad: print('  -', b)
    return 1 if bad else 0
sys.exit(asyncio.run(main()))
