"""C18: media codec capabilities naming a codec type without a dedicated class (MPEG-1,2 Audio, ATRAC) are well formed:
they parse (codec information kept as raw bytes) and re-serialise to the same bytes.  Exit 1 if defect present."""
import logging, sys
sys.path.insert(0, '/repo')
logging.disable(logging.CRITICAL)
from bumble import avdtp

bad = []
for codec in (1, 3, 0x42):
    raw = bytes([0, codec, 1, 2, 3, 4])
    try:
        c = avdtp.MediaCodecCapabilities.from_bytes(raw)
    except Exception as e:
        bad.append(f'codec type {codec}: parsing raises {type(e).__name__}: {e}')
        continue
    if c.service_capabilities_bytes != raw:
        bad.append(f'codec type {codec}: re-serialises to {c.service_capabilities_bytes.hex()}')
print('DEFECTS:')
for b in bad: print('  -', b)
sys.exit(1 if bad else 0)
