"""C12: on an enhanced bearer whose L2CAP MTU is 64 the server fills a Read Response up to ATT_MTU-1 = 63 bytes, but
Client.connect_eatt forced the client side of the same bearer to ATT_MTU 23: the client compares the length with 22, takes
the response for complete and never continues with Read Blob.  A 100-byte value read over EATT came back as 63 bytes.
Run from a bumble checkout (cwd): exit 0 when the whole value is returned, 1 otherwise."""
import asyncio, logging, sys
logging.disable(logging.CRITICAL)
sys.path.insert(0, 'tests')
from bumble import att, gatt_client, l2cap
from bumble.gatt import Characteristic, Service
from test_utils import TwoDevices  # type: ignore


async def main():
    devices = await TwoDevices.create_with_connection()
    devices[1].gatt_server.register_eatt()
    value = bytes(range(100))
    ch = Characteristic('1234', Characteristic.Properties.READ, Characteristic.Permissions.READABLE, value)
    devices[1].add_service(Service('ABCD', [ch]))
    bad = 0
    for mtu in (64, 48, 200):
        client = await gatt_client.Client.connect_eatt(devices.connections[0], l2cap.LeCreditBasedChannelSpec(psm=att.EATT_PSM, mtu=mtu))
        got = await asyncio.wait_for(client.read_value(ch.handle), 3)
        if bytes(got) != value:
            bad += 1
            print(f'FAIL: EATT bearer with MTU {mtu}: read_value returned {len(got)} of {len(value)} bytes (client att_mtu={client.mtu})')
    print('ok' if not bad else f'{bad} bearer(s) returned a truncated value')
    return 1 if bad else 0


sys.exit(asyncio.run(main()))
