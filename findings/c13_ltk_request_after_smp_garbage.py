"""C13: a bonded peripheral can no longer answer the central's encryption request once any SMP PDU created a session.

Session.ltk is only declared (`ltk: bytes`) and assigned when a key is computed.  Manager.on_smp_pdu creates a session for
whatever PDU arrives (an unknown opcode here; a Pairing Request that is then abandoned does the same), and from then on
Session.get_long_term_key() raised AttributeError for a Secure Connections configuration instead of returning None, so
Device.get_long_term_key never fell back to the key store.  Expected: the stored LTK is still found.
"""
import asyncio
import logging
import sys

from bumble import smp
from bumble.keys import MemoryKeyStore, PairingKeys
from tests.test_utils import TwoDevices

logging.disable(logging.CRITICAL)


async def main():
    d = await TwoDevices.create_with_connection()
    c0, c1 = d.connections[0], d.connections[1]
    d[1].keystore = MemoryKeyStore()
    keys = PairingKeys()
    keys.ltk = PairingKeys.Key(value=bytes(range(16)))
    await d[1].keystore.update(str(c1.peer_address), keys)
    before = await d[1].get_long_term_key(c1.handle, bytes(8), 0)
    d[0].send_l2cap_pdu(c0.handle, smp.SMP_CID, bytes([0xFF, 1, 2, 3]))
    await asyncio.sleep(0.2)
    try:
        after = await d[1].get_long_term_key(c1.handle, bytes(8), 0)
    except Exception as e:  # noqa
        after = f'{type(e).__name__}: {e}'
    print('before:', before.hex() if before else before, '| after:', after.hex() if isinstance(after, bytes) else after)
    return before == after == bytes(range(16))


sys.exit(0 if asyncio.run(main()) else 1)
