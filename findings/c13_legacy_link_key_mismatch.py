"""C13: after LE legacy pairing with the LinkKey distribution bit negotiated, the two devices store different link keys.

Session.distribute_keys derived the BR/EDR link key from `self.ltk` whenever the LinkKey bit was set.  With legacy
pairing each side's `self.ltk` is its own random LTK (the one it distributes), not a shared key: the two key stores ended
up with different `link_key` values for the same bond (the specification ignores the LinkKey bit without Secure
Connections).  Expected: both stores hold the same keys - here: no link key at all.
"""
import asyncio
import logging
import sys

from bumble.keys import MemoryKeyStore
from bumble.pairing import PairingConfig, PairingDelegate
from tests.test_utils import TwoDevices

logging.disable(logging.CRITICAL)


async def main():
    d = await TwoDevices.create_with_connection()
    kd = PairingDelegate.KeyDistribution
    both = kd.DISTRIBUTE_ENCRYPTION_KEY | kd.DISTRIBUTE_IDENTITY_KEY | kd.DISTRIBUTE_LINK_KEY
    for dev in (d[0], d[1]):
        dev.keystore = MemoryKeyStore()
        dev.pairing_config_factory = lambda connection: PairingConfig(sc=False, mitm=False, bonding=True, delegate=PairingDelegate(local_initiator_key_distribution=both, local_responder_key_distribution=both))
    await asyncio.wait_for(d.connections[0].pair(), 10)
    await asyncio.sleep(0.3)
    keys = []
    for dev in (d[0], d[1]):
        all_keys = await dev.keystore.get_all()
        keys.append(all_keys[0][1].link_key.value.hex() if all_keys and all_keys[0][1].link_key else None)
    print('stored link keys:', keys)
    return keys[0] == keys[1]


sys.exit(0 if asyncio.run(main()) else 1)
