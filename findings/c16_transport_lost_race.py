"""C16: when the transport is lost in the same loop iteration in which a command's response arrived (before the awaiting
task resumes), the teardown must still run: no connection entries may survive.  Exit 1 if defect present."""
import asyncio, logging, sys
sys.path.insert(0, '/repo'); sys.path.insert(0, '/repo/tests')
logging.disable(logging.CRITICAL)
from bumble import hci
from test_utils import TwoDevices

bad = []
async def main():
    d = TwoDevices()
    await d.setup_connection()
    host = d.devices[0].host
    flushed = []
    host.on('flush', lambda: flushed.append(1))
    task = asyncio.create_task(host.send_command(hci.HCI_Read_BD_ADDR_Command()))
    # let the command go out and the response come back, but intercept right when the response is set
    orig = host.on_command_processed
    def after(*a, **k):
        orig(*a, **k)
        # the response future is done, the awaiting task has not resumed yet: the transport dies now
        try:
            host.on_transport_lost()
        except Exception as e:
            bad.append(f'on_transport_lost raised {e!r}')
    host.on_command_processed = after
    try:
        await asyncio.wait_for(task, 2)
    except Exception:
        pass
    await asyncio.sleep(0.05)
    if host.connections:
        bad.append(f'host.connections still holds {sorted(host.connections)} after the transport was lost')
    if d.devices[0].connections:
        bad.append(f'device.connections still holds {sorted(d.devices[0].connections)} after the transport was lost')
    if not flushed:
        bad.append("no 'flush' was emitted")
    print('DEFECTS:')
    for b in bad: print('  -', b)
    return 1 if bad else 0
sys.exit(asyncio.run(main()))
