"""C03: every HCI command gets exactly one Command Status / Command Complete, also when the peer of the connection it
names has left the link: LE Enable Encryption, LE Create CIS, LE Accept CIS Request.  Exit 1 if defect present."""
import asyncio, logging, sys
sys.path.insert(0, '/repo'); sys.path.insert(0, '/repo/tests')
logging.disable(logging.CRITICAL)
from bumble import hci
from bumble.device import CigParameters
from test_utils import TwoDevices

bad = []

async def replies(host, command, label):
    events = []
    orig = host.on_hci_event_packet
    def spy(ev):
        events.append(ev); orig(ev)
    host.on_hci_event_packet = spy
    try:
        try:
            await asyncio.wait_for(host.send_command(command, check_result=False) if 'check_result' in host.send_command.__code__.co_varnames else host.send_command(command), 1.0)
        except asyncio.TimeoutError:
            pass
        except Exception:
            pass
        await asyncio.sleep(0.1)
    finally:
        host.on_hci_event_packet = orig
    n = sum(1 for e in events if isinstance(e, (hci.HCI_Command_Status_Event, hci.HCI_Command_Complete_Event)) and e.command_opcode == command.op_code)
    if n != 1:
        bad.append(f'{label}: {n} Command Status/Complete events for the command (events: {[type(e).__name__ for e in events]})')
    # the host must be usable afterwards
    host.pending_command = None; host.pending_response = None
    if host.command_semaphore.locked():
        host.command_semaphore.release()

async def main():
    # LE Enable Encryption, peer gone
    d = TwoDevices(); await d.setup_connection()
    d.link.remove_controller(d.controllers[1])
    await replies(d.devices[0].host, hci.HCI_LE_Enable_Encryption_Command(connection_handle=d.connections[0].handle, random_number=bytes(8), encrypted_diversifier=0, long_term_key=bytes(16)), 'LE Enable Encryption, peer gone')
    # LE Create CIS, peer gone
    d = TwoDevices(); await d.setup_connection()
    handles = await d.devices[0].setup_cig(CigParameters(cig_id=1, cis_parameters=[CigParameters.CisParameters(cis_id=2)], sdu_interval_c_to_p=0, sdu_interval_p_to_c=0))
    d.link.remove_controller(d.controllers[1])
    await replies(d.devices[0].host, hci.HCI_LE_Create_CIS_Command(cis_connection_handle=[handles[0]], acl_connection_handle=[d.connections[0].handle]), 'LE Create CIS, peer gone')
    # LE Accept CIS Request, central gone
    d = TwoDevices(); await d.setup_connection()
    reqs = asyncio.Queue()
    d.devices[1].on('cis_request', reqs.put_nowait)
    handles = await d.devices[0].setup_cig(CigParameters(cig_id=1, cis_parameters=[CigParameters.CisParameters(cis_id=2)], sdu_interval_c_to_p=0, sdu_interval_p_to_c=0))
    t = asyncio.create_task(d.devices[0].create_cis([(handles[0], d.connections[0])]))
    link = await asyncio.wait_for(reqs.get(), 1)
    d.link.remove_controller(d.controllers[0])
    await replies(d.devices[1].host, hci.HCI_LE_Accept_CIS_Request_Command(connection_handle=link.handle), 'LE Accept CIS Request, central gone')
    t.cancel()
    print('DEFECTS:')
    for b in bad: print('  -', b)
    return 1 if bad else 0
sys.exit(asyncio.run(main()))
