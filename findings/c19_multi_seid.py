"""C19: an AVDTP Start (or Suspend) naming several stream end points, one of which is not in the required state, must be
refused without changing the state of the others.  Exit 1 if defect present."""
import asyncio, logging, sys
sys.path.insert(0, '/repo')
logging.disable(logging.CRITICAL)
from bumble import avdtp

bad = []
class Ep:
    def __init__(self, seid): self.seid = seid; self.stream = None; self.in_use = 1
    async def on_start_command(self): return None
    async def on_suspend_command(self): return None

def mk(state, seid):
    ep = Ep(seid)
    s = avdtp.Stream.__new__(avdtp.Stream)
    s.state = state; s.rtp_channel = object(); s.local_endpoint = ep
    s.__class__.__str__ = lambda self: f'Stream({self.local_endpoint.seid})'
    ep.stream = s
    return ep

async def main():
    S = avdtp.State
    p = avdtp.Protocol.__new__(avdtp.Protocol)
    p.local_endpoints = [mk(S.OPEN, 1), mk(S.CONFIGURED, 2)]
    r = await p.on_start_command(avdtp.Start_Command([1, 2]))
    if isinstance(r, avdtp.Start_Response):
        bad.append('Start([1,2]) with stream 2 only CONFIGURED is accepted')
    if p.local_endpoints[0].stream.state != S.OPEN:
        bad.append(f'Start([1,2]) is refused ({type(r).__name__}) but stream 1 went {S.OPEN.name} -> {p.local_endpoints[0].stream.state.name}')
    p.local_endpoints = [mk(S.STREAMING, 1), mk(S.OPEN, 2)]
    r = await p.on_suspend_command(avdtp.Suspend_Command([1, 2]))
    if p.local_endpoints[0].stream.state != S.STREAMING:
        bad.append(f'Suspend([1,2]) is refused ({type(r).__name__}) but stream 1 went STREAMING -> {p.local_endpoints[0].stream.state.name}')
    print('DEFECTS:')
    for b in bad: print('  -', b)
    return 1 if bad else 0
sys.exit(asyncio.run(main()))
