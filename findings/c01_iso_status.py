"""C01: an ISO data packet with a non-zero Packet_Status_Flag (2-bit field, bits 14-15 of the SDU info word)
must re-serialise to the bytes it was parsed from. Exit 1 if defect present."""
import sys
sys.path.insert(0, '/repo')
from bumble import hci
bad = []
for flag in (0, 1, 2, 3):
    sdu_info = 5 | (flag << 14)
    raw = bytes([0x05]) + (0x0001 | (0b10 << 12)).to_bytes(2, 'little') + (4 + 5).to_bytes(2, 'little') + (7).to_bytes(2, 'little') + sdu_info.to_bytes(2, 'little') + b'abcde'
    p = hci.HCI_Packet.from_bytes(raw)
    try:
        out = bytes(p)
    except Exception as e:
        out = f'{type(e).__name__}: {e}'.encode()
    if out != raw or p.packet_status_flag != flag:
        bad.append(f'status flag {flag:02b}: parsed as {p.packet_status_flag}, {raw.hex()} -> {out.hex() if isinstance(out, bytes) else out}')
print('DEFECTS:')
for b in bad: print('  -', b)
sys.exit(1 if bad else 0)
