"""C18: an AV/C PASS THROUGH frame with operation data serialises to bytes that parse back to an equal frame and
re-serialise to the same bytes; distinct operation ids of the panel subunit have distinct codes.  Exit 1 if defect present."""
import logging, sys
sys.path.insert(0, '/repo')
logging.disable(logging.CRITICAL)
from bumble import avc

bad = []
for data in (b'', b'\xaa', b'\xaa\xbb\xcc'):
    f = avc.PassThroughCommandFrame(avc.CommandFrame.CommandType.CONTROL, avc.Frame.SubunitType.PANEL, 0, avc.PassThroughFrame.StateFlag.PRESSED, avc.PassThroughFrame.OperationId.VENDOR_UNIQUE, data)
    raw = bytes(f)
    g = avc.Frame.from_bytes(raw)
    if g.operation_data != data:
        bad.append(f'operation_data {data.hex()!r}: {raw.hex()} parses back with operation_data {g.operation_data.hex()!r}')
    if bytes(g) != raw:
        bad.append(f'operation_data {data.hex()!r}: {raw.hex()} re-serialises to {bytes(g).hex()}')
ids = avc.PassThroughFrame.OperationId
if ids.UP.value == ids.DOWN.value:
    bad.append(f'OperationId.DOWN has the code of UP (0x{ids.DOWN.value:02x}): a DOWN key press goes out, and parses back, as UP')
print('DEFECTS:')
for b in bad: print('  -', b)
sys.exit(1 if bad else 0)
