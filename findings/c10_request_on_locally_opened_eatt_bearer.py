"""C10: a request the peer sends on an enhanced ATT bearer that the local device opened is never answered.

Client.connect_eatt() attaches the client as the only consumer of the channels it opens: a client->server PDU (even
opcode) arriving on such a bearer was parsed and handed to the client, which logged "Ignoring GATT Response".  EATT
bearers carry both directions (the fixed bearer dispatches on the opcode parity in Device.on_gatt_pdu).
Expected: a Read Request arriving on that bearer gets exactly one reply.
"""
import asyncio
import logging
import sys

from bumble import att, gatt, l2cap
from bumble.gatt_client import Client
from tests.test_utils import TwoDevices

logging.disable(logging.CRITICAL)


async def scenario():
    d = TwoDevices()
    ch = gatt.Characteristic('FDB159DB-036C-49E3-B3DB-6325AC750806', gatt.Characteristic.Properties.READ, gatt.Characteristic.READABLE, b'hello')
    d[0].add_service(gatt.Service('3A657F47-D34F-46B3-B1EC-698E29B6B829', [ch]))
    d[1].gatt_server.register_eatt()
    await d.setup_connection()
    # device 0 (which also has a GATT server) opens the enhanced bearer
    await Client.connect_eatt(d.connections[0])
    await asyncio.sleep(0.1)
    # the peer's end of that bearer
    peer_channels = [c for c in d[1].l2cap_channel_manager.channels[d.connections[1].handle].values() if isinstance(c, l2cap.LeCreditBasedChannel)]
    replies = []
    peer_channels[0].sink = replies.append
    value_handle = next(a.handle for a in d[0].gatt_server.attributes if a is ch)
    peer_channels[0].write(bytes(att.ATT_Read_Request(attribute_handle=value_handle)))
    await asyncio.sleep(0.3)
    print('replies:', [r.hex() for r in replies])
    return len(replies) == 1 and replies[0] == bytes(att.ATT_Read_Response(attribute_value=b'hello'))


async def main():
    try:
        return await asyncio.wait_for(scenario(), 10)
    except asyncio.TimeoutError:
        print('timeout')
        return False


sys.exit(0 if asyncio.run(main()) else 1)
