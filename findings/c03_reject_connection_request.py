"""C03: a classic connection request that the responder's host rejects (Reject Connection Request) must conclude the
initiator's pending Create Connection with a Connection Complete event carrying an error.  Exit 1 if defect present."""
import asyncio, logging, sys
sys.path.insert(0, '/repo'); sys.path.insert(0, '/repo/tests')
logging.disable(logging.CRITICAL)
from bumble import hci
from bumble.core import PhysicalTransport
from test_utils import TwoDevices

bad = []
async def main():
    d = TwoDevices()
    for dev in d.devices:
        dev.classic_enabled = True
    await d.devices[0].power_on(); await d.devices[1].power_on()
    d.devices[1].classic_accept_any = False        # the responder's host rejects incoming connections
    events = []
    h = d.devices[0].host
    orig = h.on_hci_event_packet
    h.on_hci_event_packet = lambda ev: (events.append(type(ev).__name__), orig(ev))[1]
    t = asyncio.create_task(d.devices[0].connect(d.devices[1].public_address, transport=PhysicalTransport.BR_EDR))
    await asyncio.sleep(0.5)
    if 'HCI_Connection_Complete_Event' not in events:
        bad.append(f'the initiator never receives a Connection Complete event after the responder rejected (events: {events})')
    if not t.done():
        bad.append('connect() is still waiting 0.5 s after the rejection')
        t.cancel()
    else:
        t.exception()
    if d.controllers[1].classic_connections:
        bad.append(f'the responder controller keeps a placeholder for {list(d.controllers[1].classic_connections)}')
    await asyncio.sleep(0.05)
    print('DEFECTS:')
    for b in bad: print('  -', b)
    return 1 if bad else 0
sys.exit(asyncio.run(main()))
