"""C10/C11/C12 GATT server/client defects. Exit 1 if any defect of the selected group is present.
usage: c10_c12_gatt.py [c10|c11|c12|all]"""
import asyncio, logging, sys
sys.path.insert(0, '/repo')
logging.disable(logging.CRITICAL)
from tests.test_utils import TwoDevices, async_barrier
from bumble import att, gatt, device as dev_mod
from bumble.gatt import Service, Characteristic
from bumble.att import Attribute

which = sys.argv[1] if len(sys.argv) > 1 else 'all'
bad = []

async def setup(chars):
    d = TwoDevices()
    d[1].add_service(Service('33333333-3333-3333-3333-333333333333', chars))
    await d.setup_connection()
    peer = dev_mod.Peer(d.connections[0])
    return d, peer.gatt_client

async def c10():
    def chars():
        secret = Characteristic('2A19', Characteristic.Properties.READ, Attribute.READABLE | Attribute.READ_REQUIRES_ENCRYPTION, b'secret')
        plain = Characteristic('22222222-2222-2222-2222-222222222222', Characteristic.Properties.READ, Attribute.READABLE, bytes(12))
        return secret, plain
    reqs = {
        'Read Multiple with a protected handle': lambda s, p: att.ATT_Read_Multiple_Request(set_of_handles=[p.handle, s.handle]),
        'Read Multiple Variable with a protected handle': lambda s, p: att.ATT_Read_Multiple_Variable_Request(set_of_handles=[s.handle, p.handle]),
        'Find By Type Value over a protected attribute': lambda s, p: att.ATT_Find_By_Type_Value_Request(starting_handle=1, ending_handle=0xFFFF, attribute_type=s.type, attribute_value=b'x'),
    }
    for name, mk in reqs.items():
        secret, plain = chars()
        d, client = await setup([secret, plain])
        try:
            r = await asyncio.wait_for(client.send_request(mk(secret, plain)), 1)
            print(name, '->', r)
        except asyncio.TimeoutError:
            bad.append(f'C10 {name}: no response (request never answered)')
        except Exception as e:
            print(name, 'exception', repr(e))
    # size: read multiple variable with values that overflow ATT_MTU (23)
    secret, plain = chars()
    d, client = await setup([secret, plain])
    sent = []
    srv = d[1].gatt_server
    orig = srv.send_gatt_pdu
    srv.send_gatt_pdu = lambda bearer, pdu: (sent.append((bearer.att_mtu, len(pdu), pdu[0])), orig(bearer, pdu))[1]
    try:
        await asyncio.wait_for(client.send_request(att.ATT_Read_Multiple_Variable_Request(set_of_handles=[plain.handle, plain.handle])), 1)
    except Exception as e:
        print('rmv exception', repr(e))
    over = [s for s in sent if s[1] > s[0]]
    if over:
        bad.append(f'C10 Read Multiple Variable response of {over[0][1]} bytes sent with ATT_MTU {over[0][0]}')

async def c11():
    hidden = Characteristic('22222222-2222-2222-2222-222222222222', Characteristic.Properties.WRITE, Attribute.Permissions(0), b'hidden-value')
    ro = Characteristic('11111111-1111-1111-1111-111111111111', Characteristic.Properties.READ, Attribute.READABLE, b'ro')
    d, client = await setup([hidden, ro])
    try:
        v = await asyncio.wait_for(client.read_value(hidden.handle), 1)
        bad.append(f'C11 read of an attribute without READABLE returned {bytes(v)!r}')
    except Exception:
        pass
    try:
        await asyncio.wait_for(client.write_value(ro.handle, b'x', with_response=True), 1)
        if ro.value == b'x':
            bad.append('C11 write to an attribute without WRITEABLE was accepted and changed the value')
    except Exception:
        pass

async def c12():
    ch = Characteristic('11111111-1111-1111-1111-111111111111', Characteristic.Properties.READ | Characteristic.Properties.INDICATE, Attribute.READABLE, b'v')
    d, client = await setup([ch])
    seen = []
    srv = d[1].gatt_server
    orig = srv.send_gatt_pdu
    srv.send_gatt_pdu = lambda bearer, pdu: (seen.append(pdu[0]), orig(bearer, pdu))[1]
    try:
        await asyncio.wait_for(srv.indicate_subscriber(d.connections[1], ch, b'zz', force=True), 1)
    except Exception:
        pass
    if att.Opcode.ATT_HANDLE_VALUE_NOTIFICATION in seen and att.Opcode.ATT_HANDLE_VALUE_INDICATION not in seen:
        bad.append('C12 indicate_subscriber(force=True) sent a notification PDU instead of an indication')
    # discovery termination on empty Find Information responses
    srv.on_att_find_information_request = lambda bearer, request: srv.send_response(bearer, att.ATT_Find_Information_Response(format=1, information_data=b''))
    try:
        await asyncio.wait_for(client.discover_attributes(), 1)
    except asyncio.TimeoutError:
        bad.append('C12 discover_attributes() does not terminate on empty Find Information responses')
    except Exception as e:
        bad.append(f'C12 discover_attributes() fails on an empty Find Information response: {e!r}')

async def main():
    for name, f in (('c10', c10), ('c11', c11), ('c12', c12)):
        if which in (name, 'all'):
            await asyncio.wait_for(f(), 30)
    print('DEFECTS:')
    for b in bad: print('  -', b)
    return 1 if bad else 0
sys.exit(asyncio.run(main()))
