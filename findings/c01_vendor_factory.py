"""C01: a vendor event that a registered vendor factory cannot parse (empty, truncated) must be carried as a generic
HCI_Vendor_Event that re-serialises to the received bytes, not raise.  Exit 1 if defect present."""
import logging, sys
sys.path.insert(0, '/repo')
logging.disable(logging.CRITICAL)
from bumble import hci
import bumble.vendor.android.hci  # registers the Android vendor-event factory

bad = []
for hx in ('04ff00', '04ff0158', '04ff025801', '04ff0458010203', '04ff03aabbcc'):
    raw = bytes.fromhex(hx)
    try:
        ev = hci.HCI_Packet.from_bytes(raw)
    except Exception as e:
        bad.append(f'{hx}: parsing raises {type(e).__name__}: {e}')
        continue
    if bytes(ev) != raw:
        bad.append(f'{hx}: re-serialises to {bytes(ev).hex()}')
print('DEFECTS:')
for b in bad: print('  -', b)
sys.exit(1 if bad else 0)
