"""C18: an AVDTP reject for a signal without a dedicated reject class (e.g. Discover) parses to a message whose payload
re-serialises to the received bytes (the error code is kept).  Exit 1 if defect present."""
import logging, sys
sys.path.insert(0, '/repo')
logging.disable(logging.CRITICAL)
from bumble import avdtp

bad = []
for sig in (avdtp.AVDTP_DISCOVER, avdtp.AVDTP_ABORT):
    raw = bytes([0x19])
    m = avdtp.Message.create(avdtp.SignalIdentifier(sig), avdtp.Message.MessageType.RESPONSE_REJECT, raw)
    if m.payload != raw:
        bad.append(f'reject for signal {sig}: payload {raw.hex()} parses to {type(m).__name__} whose payload is {m.payload.hex()!r}')
print('DEFECTS:')
for b in bad: print('  -', b)
sys.exit(1 if bad else 0)
