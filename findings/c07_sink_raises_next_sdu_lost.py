"""C07: after a receiver's sink raises on one SDU, the next SDU of an LE credit-based channel is lost.

LeCreditBasedChannel.on_pdu cleared its reassembly buffer only after the sink returned: when the sink raised (an EATT
server re-raises after answering a malformed request, an application handler fails on one message) the complete SDU
stayed in the buffer, the first frame of the next SDU was appended to it, reported as "SDU overflow" and dropped.
Expected: the SDUs written after the failing one are all delivered.
"""
import asyncio
import logging
import sys

from bumble import l2cap
from tests.test_utils import TwoDevices

logging.disable(logging.CRITICAL)


async def main():
    d = await TwoDevices.create_with_connection()
    got = []

    def on_channel(ch):
        def sink(sdu):
            if sdu.startswith(b'BAD'):
                raise ValueError('malformed')
            got.append(sdu)

        ch.sink = sink

    d[1].create_l2cap_server(l2cap.LeCreditBasedChannelSpec(psm=0x80), handler=on_channel)
    ch = await d.connections[0].create_l2cap_channel(l2cap.LeCreditBasedChannelSpec(psm=0x80))
    for m in (b'BAD!', b'good 1', b'good 2'):
        ch.write(m)
        await asyncio.sleep(0.1)
    print('delivered:', got)
    return got == [b'good 1', b'good 2']


sys.exit(0 if asyncio.run(main()) else 1)
