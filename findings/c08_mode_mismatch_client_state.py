"""C08: an ERTM server and a Basic-mode client: the client detects the mismatch while configuring, fails its connect() and
sends a Disconnection Request.  create_classic_channel then removed the channel from the table at once, so the peer's
Disconnection Response found no channel ("channel 64 not found") and the client's channel object stayed in WAIT_DISCONNECT
for ever while the server's end was CLOSED.  Set-up must end with both ends closed.
Run from a bumble checkout (cwd): exit 0 when both ends are closed and deregistered, 1 otherwise."""
import asyncio, logging, sys
logging.disable(logging.CRITICAL)
sys.path.insert(0, 'tests')
from bumble import l2cap
from bumble.core import PhysicalTransport
from test_utils import TwoDevices  # type: ignore


async def main():
    devices = TwoDevices()
    for d in devices.devices:
        d.classic_enabled = True
        await d.power_on()
    conn = await asyncio.wait_for(devices[0].connect(devices[1].public_address, transport=PhysicalTransport.BR_EDR), 3)
    accepted = []
    devices[1].create_l2cap_server(l2cap.ClassicChannelSpec(psm=0x1001, mode=l2cap.TransmissionMode.ENHANCED_RETRANSMISSION), handler=accepted.append)
    made = []
    mgr = devices[0].l2cap_channel_manager
    orig = l2cap.ClassicChannel.__init__

    def spy(self, *a, **k):
        orig(self, *a, **k)
        made.append(self)
    l2cap.ClassicChannel.__init__ = spy
    try:
        await asyncio.wait_for(conn.create_l2cap_channel(l2cap.ClassicChannelSpec(psm=0x1001, mode=l2cap.TransmissionMode.BASIC)), 2)
        print('?? the open succeeded')
    except Exception:
        pass
    finally:
        l2cap.ClassicChannel.__init__ = orig
    await asyncio.sleep(0.3)
    mine = [c for c in made if c.manager is mgr]
    problems = []
    for c in mine:
        if c.state != c.State.CLOSED:
            problems.append(f'client channel is {c.state.name}')
    for i in (0, 1):
        left = {h: {cid: ch.state.name for cid, ch in t.items()} for h, t in devices[i].l2cap_channel_manager.channels.items() if t}
        if left:
            problems.append(f'device {i} still lists {left}')
    if problems:
        print('FAIL: ' + '; '.join(problems))
        return 1
    print('ok: both ends closed and deregistered')
    return 0


sys.exit(asyncio.run(main()))
