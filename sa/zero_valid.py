"""0 is a value: a field declared `int | None` is tested for presence with `is None` / `is not None`, never by truthiness.

A bare `self.<field>` (or `not self.<field>`) in a test treats the legal value 0 like an absent field: the serialiser
leaves out a header for sequence number 0, a parser keeps a stale value, a length of 0 is taken for "unknown".
Rule instances: every class of the given modules with such fields, every test in its methods."""
from __future__ import annotations

import ast
import re

from .core import dotted, text


def _optional_int(ann) -> bool:
    t = text(ann).replace(' ', '')
    return bool(re.fullmatch(r'(int\|None|None\|int|Optional\[int\]|typing\.Optional\[int\])', t))


def truthiness_tests(fn, fields):
    out = []
    for node in ast.walk(fn):
        tests = []
        if isinstance(node, (ast.If, ast.IfExp, ast.While, ast.Assert)):
            tests = [node.test]
        elif isinstance(node, ast.comprehension):
            tests = list(node.ifs)
        for t in tests:
            atoms = [t]
            while atoms:
                a = atoms.pop()
                if isinstance(a, ast.BoolOp):
                    atoms += a.values
                elif isinstance(a, ast.UnaryOp) and isinstance(a.op, ast.Not):
                    atoms.append(a.operand)
                elif isinstance(a, ast.Attribute) and dotted(a.value) == 'self' and a.attr in fields:
                    out.append(a)
    return out


def zero_valid(ctx, rule, modules):
    R, p = ctx.r, ctx.p
    n_cls = n_fields = 0
    for q, ci in sorted(p.classes.items()):
        if not any(q.startswith(m + '.') for m in modules):
            continue
        fields = {k for k, a in ci.annots.items() if _optional_int(a)}
        init = ci.methods.get('__init__')
        if init is not None:
            fields |= {a.arg for a in init.args.args + init.args.kwonlyargs if a.annotation is not None and _optional_int(a.annotation)
                       and any(isinstance(n, ast.Assign) and dotted(n.targets[0]) == f'self.{a.arg}' and isinstance(n.value, ast.Name) and n.value.id == a.arg for n in ast.walk(init))}
        if not fields:
            continue
        n_cls += 1
        n_fields += len(fields)
        bad = [(mn, a) for mn, m in ci.methods.items() for a in truthiness_tests(m, fields)]
        R.check(not bad, rule, q, f'{len(fields)} optional integer field(s) ({", ".join(sorted(fields)[:4])}) tested with `is None` / `is not None` only',
                f'`self.{bad[0][1].attr}` (an `int | None` field) is tested by truthiness in {bad[0][0]}: the legal value 0 is treated like an absent field' if bad else '', p.loc(bad[0][1]) if bad else '')
    ctl = ast.parse('def f(self):\n    if self.seq and self.n is not None:\n        pass\n').body[0]
    R.check([a.attr for a in truthiness_tests(ctl, {'seq', 'n'})] == ['seq'] and n_cls >= 1, rule, f'{", ".join(modules)} | optional integer fields', f'{n_cls} classes, {n_fields} optional integer fields (positive control matched)', f'no class with optional integer fields found in {modules} or control not matched')


def truthiness_uses(tree, names):
    """attribute accesses `<anything>.<name>` (name in names) used for their truth value: test atoms and operands of and/or."""
    out = []

    def atoms(t):
        st = [t]
        while st:
            a = st.pop()
            if isinstance(a, ast.BoolOp):
                st += a.values
            elif isinstance(a, ast.UnaryOp) and isinstance(a.op, ast.Not):
                st.append(a.operand)
            elif isinstance(a, ast.Attribute) and a.attr in names:
                out.append(a)
    for node in ast.walk(tree):
        if isinstance(node, (ast.If, ast.IfExp, ast.While, ast.Assert)):
            atoms(node.test)
        elif isinstance(node, ast.comprehension):
            for t in node.ifs:
                atoms(t)
        elif isinstance(node, ast.BoolOp):
            # `x.f or default`, `x.f and ...` outside a test position: all operands but the last are truth-tested
            if isinstance(node.op, ast.Or) and isinstance(node.values[-1], ast.Constant) and node.values[-1].value == 0 and not isinstance(node.values[-1].value, bool):
                continue  # `x.f or 0`: None and 0 both give 0, nothing is lost
            for v in node.values[:-1]:
                atoms(v)
    seen, uniq = set(), []
    for a in out:
        if id(a) not in seen:
            seen.add(id(a))
            uniq.append(a)
    return uniq


def zero_valid_attrs(ctx, rule, class_modules, use_modules, int_like=('int',)):
    """Fields declared `<int-like> | None` in classes of class_modules; every truth-valued use of an attribute of that
    name anywhere in use_modules is a violation (0 -- e.g. the public address type -- would be read as absent)."""
    R, p = ctx.r, ctx.p
    pat = re.compile(r'^(?:[\w.]*\.)?(' + '|'.join(re.escape(x) for x in int_like) + r')\|None$|^None\|(?:[\w.]*\.)?(' + '|'.join(re.escape(x) for x in int_like) + r')$')
    names = {}
    for q, ci in sorted(p.classes.items()):
        if any(q.startswith(m + '.') for m in class_modules):
            for k, a in ci.annots.items():
                if pat.match(text(a).replace(' ', '')):
                    names.setdefault(k, q)
    bad = []
    for mn in use_modules:
        m = p.modules.get(mn)
        if m is None:
            R.bad(rule, mn, 'anchor missing')
            continue
        for a in truthiness_uses(m.tree, set(names)):
            bad.append((mn, a, m))
    for mn, a, m in bad:
        R.bad(rule, f'{p.qual_of(a)} | {text(a)}', f'`{text(a)}` ({names[a.attr]}.{a.attr}, an optional integer-valued field) is used for its truth value: the legal value 0 is treated like a missing one', f'{m.rel}:{a.lineno}')
    ctl = ast.parse('x = keys.address_type or 1\nif k.ediv:\n    pass\ny = keys.address_type if keys.address_type is not None else 1\n')
    R.check(sorted(a.attr for a in truthiness_uses(ctl, {'address_type', 'ediv'})) == ['address_type', 'ediv'] and len(names) >= 1, rule, f'{", ".join(use_modules)} | optional integer-valued fields',
            f'{len(names)} field name(s) ({", ".join(sorted(names))}): presence is tested with `is None` only (positive control matched)', f'no optional integer-valued field found in {class_modules} or control not matched')
