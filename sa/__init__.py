"""Static-analysis machinery for google/bumble (see /verif/DESIGN.md).

Everything here reads /repo's working tree with `ast`; nothing under test is
imported or executed.
"""
