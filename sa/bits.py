"""Bit-layout extraction for hand-written codecs.

Parse side:   field = [wrap(] (data[i] >> s) & m [)]   |  data[i] & m  |  (data[i] & M) >> s
              | data[i] >> s | data[i]
Serialise:    bytes([ t0 | t1 | ..., ... ])  with terms  self.f << s | (self.f & m) << s | self.f | CONST
A layout entry is (byte_index, shift, width) with width None when unknown.
"""
from __future__ import annotations

import ast

from .core import call_attr, const, dotted, is_const, norm, text, walk_local


def _mask_width(m):
    """m == 2**w - 1 -> w else None"""
    if m <= 0:
        return None
    w = m.bit_length()
    return w if m == (1 << w) - 1 else None


def _strip_wrappers(e):
    while True:
        if isinstance(e, ast.Call) and len(e.args) == 1 and not e.keywords and not isinstance(e.args[0], ast.Starred):
            e = e.args[0]
            continue
        if isinstance(e, ast.Compare) and len(e.ops) == 1 and isinstance(e.ops[0], (ast.NotEq, ast.Eq)) and is_const(e.comparators[0]):
            e = e.left
            continue
        return e


def parse_term(e, data_names):
    """-> (index_expr_text, shift, width|None) or None"""
    e = _strip_wrappers(e)
    shift, width = 0, None
    if isinstance(e, ast.BinOp) and isinstance(e.op, ast.BitAnd):
        l, r = e.left, e.right
        if is_const(r):
            mask, inner = const(r), l
        elif is_const(l):
            mask, inner = const(l), r
        else:
            return None
        inner = _strip_wrappers(inner)
        if isinstance(inner, ast.BinOp) and isinstance(inner.op, ast.RShift) and is_const(inner.right):
            shift = const(inner.right)
            width = _mask_width(mask)
            if width is None:
                return None
            e = inner.left
        else:
            # data[i] & M  (mask possibly not at bit 0; result is then NOT shifted down)
            if mask <= 0:
                return None
            low = (mask & -mask).bit_length() - 1
            w = _mask_width(mask >> low)
            if w is None:
                return None
            shift, width = low, w
            e = inner
            if low != 0:
                # value keeps its position: only comparable as a flag / pre-shifted field
                pass
    elif isinstance(e, ast.BinOp) and isinstance(e.op, ast.RShift) and is_const(e.right):
        inner = _strip_wrappers(e.left)
        shift = const(e.right)
        if isinstance(inner, ast.BinOp) and isinstance(inner.op, ast.BitAnd) and (is_const(inner.right) or is_const(inner.left)):
            mask = const(inner.right) if is_const(inner.right) else const(inner.left)
            w = _mask_width(mask >> shift) if mask >> shift else None
            if w is None:
                return None
            width = w
            e = inner.left if is_const(inner.right) else inner.right
        else:
            e = inner
            width = None  # rest of the byte: 8 - shift
    e = _strip_wrappers(e)
    if isinstance(e, ast.Subscript) and not isinstance(e.slice, ast.Slice):
        base = dotted(e.value)
        if base in data_names:
            idx = norm(e.slice)
            if width is None:
                width = 8 - shift if shift < 8 else None
            return (idx, shift, width)
    return None


def parse_layout(fn, data_names=None):
    """{field: (index, shift, width)} from keyword arguments, local assigns and
    self.<attr> assigns in `fn`."""
    if data_names is None:
        data_names = {a.arg for a in fn.args.args} - {'self', 'cls'}
    out = {}
    # local aliases of a data byte: `b = data[0]`
    for n in walk_local(fn):
        if isinstance(n, ast.keyword) and n.arg:
            t = parse_term(n.value, data_names)
            if t:
                out[n.arg] = t
        elif isinstance(n, ast.Assign) and len(n.targets) == 1:
            tg = n.targets[0]
            name = None
            if isinstance(tg, ast.Name):
                name = tg.id
            elif isinstance(tg, ast.Attribute) and dotted(tg.value) == 'self':
                name = tg.attr
            if name:
                t = parse_term(n.value, data_names)
                if t:
                    out[name] = t
    return out


def _or_terms(e):
    if isinstance(e, ast.BinOp) and isinstance(e.op, ast.BitOr):
        return _or_terms(e.left) + _or_terms(e.right)
    return [e]


def ser_term(t):
    """-> (field|None, shift, width|None, const_value|None)"""
    shift, width = 0, None
    e = t
    if isinstance(e, ast.BinOp) and isinstance(e.op, ast.LShift) and is_const(e.right):
        shift = const(e.right)
        e = e.left
    e = _strip_wrappers(e)
    if isinstance(e, ast.BinOp) and isinstance(e.op, ast.BitAnd):
        if is_const(e.right):
            width = _mask_width(const(e.right))
            e = e.left
        elif is_const(e.left):
            width = _mask_width(const(e.left))
            e = e.right
    e = _strip_wrappers(e)
    if isinstance(e, ast.IfExp):
        # `1 if self.flag else 0`
        tt = _strip_wrappers(e.test)
        if isinstance(tt, ast.Attribute) and dotted(tt.value) == 'self':
            return tt.attr, shift, 1, None
    if isinstance(e, ast.Attribute) and dotted(e.value) == 'self':
        return e.attr, shift, width, None
    if is_const(e):
        return None, shift, width, const(e) << shift
    return None, shift, width, None


def ser_layout(fn):
    """{field: (index, shift, width)} from `bytes([...])` element expressions
    (index = position in the list) in `fn`; also returns overlaps found."""
    out, clashes = {}, []
    for n in walk_local(fn):
        if isinstance(n, ast.Call) and call_attr(n) == 'bytes' and isinstance(n.func, ast.Name) and n.args and isinstance(n.args[0], (ast.List, ast.Tuple)):
            for idx, el in enumerate(n.args[0].elts):
                seen = {}
                for t in _or_terms(el):
                    f, sh, w, c = ser_term(t)
                    if f is None:
                        continue
                    out[f] = (str(idx), sh, w)
                    if sh in seen:
                        clashes.append((idx, sh, seen[sh], f))
                    seen[sh] = f
            break  # first bytes([...]) literal is the header
    return out, clashes


def compare(parse, ser):
    """-> list of (field, parse_entry, ser_entry, problem)"""
    probs = []
    for f in sorted(set(parse) & set(ser)):
        pi, ps, pw = parse[f]
        si, ss, sw = ser[f]
        if pi != si:
            probs.append((f, parse[f], ser[f], f'parsed from byte {pi} but serialised into byte {si}'))
        elif ps != ss:
            probs.append((f, parse[f], ser[f], f'parsed at bit {ps} but serialised at bit {ss}'))
        elif pw is not None and sw is not None and pw != sw:
            probs.append((f, parse[f], ser[f], f'parsed with {pw} bits but serialised with {sw} bits'))
    return probs


def overlaps(layout):
    """fields of one side that share bits -> [(f1, f2, byte)]"""
    out = []
    items = sorted(layout.items())
    for i, (f1, (b1, s1, w1)) in enumerate(items):
        for f2, (b2, s2, w2) in items[i + 1:]:
            if b1 != b2:
                continue
            w1_, w2_ = (w1 or 1), (w2 or 1)
            if s1 < s2 + w2_ and s2 < s1 + w1_:
                out.append((f1, f2, b1))
    return out
