"""Obligation bookkeeping, known findings, evidence files, exit codes."""
from __future__ import annotations

import hashlib
import json
import os
import time

from .core import AnalysisError

VERIF = os.path.dirname(os.path.dirname(os.path.abspath(__file__)))
EVIDENCE_DIR = os.environ.get('SA_EVIDENCE_DIR') or os.path.join(VERIF, 'evidence')
REPLAY_DIR = os.path.join(EVIDENCE_DIR, 'replay')
KNOWN = os.path.join(VERIF, 'known_findings.json')


class Obligation:
    __slots__ = ('rule', 'key', 'status', 'fact', 'loc', 'detail', 'trivial')

    def __init__(self, rule, key, status, fact, loc, detail=None, trivial=False):
        self.rule, self.key, self.status = rule, key, status
        self.fact, self.loc, self.detail, self.trivial = fact, loc, detail, trivial

    def as_dict(self):
        d = {
            'rule': self.rule,
            'key': self.key,
            'status': self.status,
            'fact': self.fact,
            'loc': self.loc,
        }
        if self.detail is not None:
            d['detail'] = self.detail
        return d


class Reporter:
    def __init__(self, prop: str, tier: str = 'quick'):
        self.prop = prop
        self.tier = tier
        self.obs: list[Obligation] = []
        self.notes: list[str] = []
        self.assumptions: list[str] = []
        self.explanations: list[str] = []
        self.extra: dict = {}
        self.floors: list = []
        self.controls: list = []
        self._seen = set()

    # -- recording -------------------------------------------------------
    def _add(self, rule, key, status, fact, loc, detail=None, trivial=False):
        k = (rule, key, status)
        if status != 'ok' and k in self._seen:
            return
        self._seen.add(k)
        self.obs.append(Obligation(rule, key, status, fact, loc, detail, trivial))

    def ok(self, rule, key, fact='', loc='', trivial=False):
        self._add(rule, key, 'ok', fact, loc, None, trivial)

    def bad(self, rule, key, what, loc='', detail=None):
        self._add(rule, key, 'bad', what, loc, detail)

    def skip(self, rule, key, reason, loc=''):
        self._add(rule, key, 'skip', reason, loc)

    def check(self, cond, rule, key, fact_ok, what_bad, loc='', detail=None):
        if cond:
            self.ok(rule, key, fact_ok, loc)
        else:
            self.bad(rule, key, what_bad, loc, detail)
        return bool(cond)

    def note(self, s):
        self.notes.append(s)

    def assume(self, s):
        if s not in self.assumptions:
            self.assumptions.append(s)

    def explain(self, s):
        self.explanations.append(s)

    def floor(self, rule, n, what='instances'):
        """Coverage floor: fewer analysed instances than confirmed by hand
        means the extractor silently lost coverage -> analysis error."""
        self.floors.append((rule, n, what))

    def control(self, name, fired: bool):
        """Positive control: a tiny known-bad example the rule must flag."""
        self.controls.append((name, bool(fired)))

    # -- queries ---------------------------------------------------------
    def count(self, rule=None, status=None):
        return sum(
            1
            for o in self.obs
            if (rule is None or o.rule == rule or o.rule.startswith(rule + '/'))
            and (status is None or o.status == status)
        )


def load_known():
    if not os.path.exists(KNOWN):
        return []
    with open(KNOWN) as f:
        return json.load(f).get('findings', [])


def finish(rep: Reporter, t0: float, seed: int = 0) -> int:
    """Print the report, write evidence and replay files, return exit code."""
    prop = rep.prop
    known = [k for k in load_known() if k.get('property') == prop]
    open_known = {(k['rule'], k['key']): k for k in known if k.get('status') == 'open'}

    # floors and controls -> analysis errors
    errors = []
    for rule, n, what in rep.floors:
        got = rep.count(rule) - rep.count(rule, 'skip')
        if got < n:
            errors.append(
                f'coverage floor: rule {rule} analysed {got} {what}, '
                f'floor confirmed by hand is {n}'
            )
    for name, fired in rep.controls:
        if not fired:
            errors.append(f'positive control {name} did not fire')

    bad = [o for o in rep.obs if o.status == 'bad']
    new, listed = [], []
    for o in bad:
        (listed if (o.rule, o.key) in open_known else new).append(o)

    os.makedirs(REPLAY_DIR, exist_ok=True)
    # remove stale replay files of this property
    for fn in os.listdir(REPLAY_DIR):
        if fn.startswith(prop + '-'):
            try:
                os.unlink(os.path.join(REPLAY_DIR, fn))
            except OSError:
                pass

    rules = {}
    for o in rep.obs:
        r = rules.setdefault(o.rule, {'ok': 0, 'bad': 0, 'skip': 0})
        r[o.status] += 1

    print(f'== {prop} [{rep.tier}] static analysis of {os.environ.get("SA_REPO", "/repo")}')
    for rule in sorted(rules):
        c = rules[rule]
        print(
            f'  rule {rule}: {c["ok"] + c["bad"]} obligations, {c["ok"]} discharged'
            + (f', {c["bad"]} violated' if c['bad'] else '')
            + (f', {c["skip"]} not analysed' if c['skip'] else '')
        )
    for n in rep.notes:
        print(f'  note: {n}')
    for o in listed:
        k = open_known[(o.rule, o.key)]
        print(
            f'KNOWN-FINDING: property={prop} {o.rule} | {o.key} | '
            f'{k.get("what_fails", o.fact)} [{o.loc}]'
        )
    observed = {(o.rule, o.key) for o in bad}
    for (rule, key), k in open_known.items():
        if (rule, key) not in observed:
            print(f'  note: listed finding no longer observed: {rule} | {key}')
    for o in new:
        h = hashlib.sha1(f'{o.rule}|{o.key}'.encode()).hexdigest()[:10]
        path = os.path.join(REPLAY_DIR, f'{prop}-{h}.json')
        with open(path, 'w') as f:
            json.dump(
                {
                    'property': prop,
                    'rule': o.rule,
                    'key': o.key,
                    'what': o.fact,
                    'loc': o.loc,
                    'detail': o.detail,
                    'replay': f'/venv/bin/python -m sa.check {prop} --only {o.rule}',
                },
                f,
                indent=1,
                default=str,
            )
        print(f'VIOLATION property={prop} replay={path}')
        print(f'    {o.rule} | {o.key} | {o.fact} [{o.loc}]')
    for e in errors:
        print(f'ANALYSIS-ERROR property={prop} {e}')

    n_ob = sum(1 for o in rep.obs if o.status in ('ok', 'bad'))
    n_ok = sum(1 for o in rep.obs if o.status == 'ok')
    distinct = len({(o.rule, o.key) for o in rep.obs if o.status in ('ok', 'bad') and not o.trivial})
    samples = []
    seen_rules = set()
    for o in rep.obs:
        if o.status == 'ok' and o.rule not in seen_rules and not o.trivial:
            seen_rules.add(o.rule)
            samples.append(o.as_dict())
    for o in bad[:10]:
        samples.append(o.as_dict())
    wall = time.time() - t0
    ev = {
        'property_id': prop,
        'tier': rep.tier,
        'seed': seed,
        'level': 'other',
        'coverage': {
            'explanation': ' '.join(rep.explanations)
            or 'static analysis of the source tree; see rules',
            'obligations': n_ob,
            'discharged': n_ok,
            'evaluations': n_ob,
            'distinct_nontrivial': distinct,
            'rule': 'one obligation per (rule, construct) instance extracted from the '
            'current source; non-trivial = decided by analysing at least one '
            'branch, guard, table entry or call site (anchor-existence '
            'obligations are counted as trivial); distinct = distinct (rule, key)',
            'samples': samples,
            'rules': rules,
            'not_analysed': [o.as_dict() for o in rep.obs if o.status == 'skip'],
            'known_findings_observed': [f'{o.rule} | {o.key}' for o in listed],
            'notes': rep.notes,
            'exhaustive': True,
            **rep.extra,
        },
        'assumptions': rep.assumptions,
        'wall_s': round(wall, 3),
        'violations': len(new),
    }
    os.makedirs(EVIDENCE_DIR, exist_ok=True)
    with open(os.path.join(EVIDENCE_DIR, f'{prop}.json'), 'w') as f:
        json.dump(ev, f, indent=1, default=str)
    print(
        f'== {prop}: {n_ob} obligations, {n_ok} discharged, {len(listed)} known '
        f'finding(s), {len(new)} new violation(s), {wall:.2f}s'
    )
    if new:
        return 1
    return 2 if errors else 0
