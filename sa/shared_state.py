"""Per-instance state must not live in one object shared by all instances.

Two shapes are recognised (rule instances are the class-level attributes of the anchored modules):

  * a class-level attribute, not annotated ClassVar, whose default is an *empty* mutable container ({}, [], set(),
    dict(), deque(), defaultdict(...)) or a synchronisation object, that instance methods read through `self.<name>`
    and that `__init__` does not rebind: whatever one instance puts into it, every instance sees;
  * an annotated dataclass field whose default is such an object (evaluated once, at class definition).

Process-wide registries are meant to be shared: they are listed by name, with the reason.
"""
from __future__ import annotations

import ast

from .core import dotted, text

MUT_CALLS = {'dict', 'list', 'set', 'bytearray', 'deque', 'collections.deque', 'defaultdict', 'collections.defaultdict', 'asyncio.Event', 'asyncio.Queue',
             'asyncio.Semaphore', 'asyncio.Lock', 'asyncio.Condition', 'OrderedDict', 'collections.OrderedDict'}

REGISTRIES = {
    'bumble.core.UUID.UUIDS': 'process-wide interning table of UUID objects (C18.interning decides what may be reused)',
}


def _empty_mutable(v) -> bool:
    if isinstance(v, ast.Dict):
        return not v.keys
    if isinstance(v, (ast.List, ast.Set)):
        return not v.elts
    if isinstance(v, ast.Call) and (dotted(v.func) or '') in MUT_CALLS:
        return True
    return False


def candidates(ci):
    """(name, value node, annotation text, is dataclass field) for class-level attributes with an empty mutable default."""
    node = ci.node
    is_dc = any('dataclass' in text(d) for d in node.decorator_list)
    for st in node.body:
        name = val = None
        ann = ''
        if isinstance(st, ast.Assign) and len(st.targets) == 1 and isinstance(st.targets[0], ast.Name):
            name, val = st.targets[0].id, st.value
        elif isinstance(st, ast.AnnAssign) and isinstance(st.target, ast.Name) and st.value is not None:
            name, val, ann = st.target.id, st.value, text(st.annotation)
        if name is None or not _empty_mutable(val) or 'ClassVar' in ann:
            continue
        yield name, val, ann, (is_dc and isinstance(st, ast.AnnAssign))


def shared_state(ctx, rule, modules):
    R, p = ctx.r, ctx.p
    control = ast.parse('class X:\n    table: dict = {}\n    def __init__(self):\n        pass\n    def f(self):\n        return self.table.get(1)\n').body[0]
    n_cls = n_attr = 0
    for q, ci in sorted(p.classes.items()):
        if not any(q.startswith(m + '.') for m in modules):
            continue
        n_cls += 1
        for name, val, ann, dc_field in candidates(ci):
            n_attr += 1
            key = f'{q}.{name}'
            if key in REGISTRIES:
                R.ok(rule, key, f'shared by design: {REGISTRIES[key]}', p.loc(val))
                continue
            if dc_field:
                R.bad(rule, key, f'dataclass field `{name}` defaults to `{text(val)}`, created once when the class is defined: every instance shares that one object (what one connection / parser does to it, all of them see)', p.loc(val))
                continue
            init = ci.methods.get('__init__')
            rebound = init is not None and any(isinstance(x, (ast.Assign, ast.AnnAssign, ast.AugAssign)) and any(dotted(t) == f'self.{name}' for t in (x.targets if isinstance(x, ast.Assign) else [x.target])) for x in ast.walk(init))
            via_self = sorted({m for m, fn in ci.methods.items() for x in ast.walk(fn) if isinstance(x, ast.Attribute) and x.attr == name and dotted(x.value) == 'self'})
            if via_self and not rebound:
                R.bad(rule, key, f'`{name}` is an empty `{text(val)}` at class level, read through self in {via_self[:3]} and never rebound in __init__: all instances share one container, so state recorded for one instance leaks into the others', p.loc(val))
            else:
                R.ok(rule, key, 'rebound per instance in __init__' if rebound else 'not instance state (never read through self)', p.loc(val))
    # the detector itself, on a fixed positive example
    class _CI:
        pass
    c = _CI()
    c.node, c.methods = control, {n.name: n for n in control.body if isinstance(n, (ast.FunctionDef, ast.AsyncFunctionDef))}
    found = [x[0] for x in candidates(c)]
    R.check(found == ['table'] and n_cls >= 1, rule, f'{", ".join(modules)} | classes', f'{n_cls} classes, {n_attr} class-level empty containers examined (positive control matched)', f'positive control not matched ({found}) or no classes ({n_cls})')
