"""C05 — L2CAP PDUs of any size cross the ACL link intact for any buffer geometry."""
from __future__ import annotations

import ast

from .. import paths
from ..core import call_attr, calls_in, const, dotted, is_const, kwarg, norm, slice_parts, text, walk_local
from . import c04

EXPLANATION = [
    'C05.connect-ind-address: shared with C03: the central registers its end of the link under the address it announces in CONNECT_IND (the ACL relay routes by that address; a mismatch drops every PDU of a link set up from the public address).',
    'C05.deferred-delivery: Controller.send_hci_packet delivers to the host with call_soon(self.host.on_packet, ...), never by calling it directly.',
    'C05.buffer-geometry: in the three Read Buffer Size handlers of the virtual controller every return-parameter keyword is filled from the controller attribute of the same name.',
    'C05.queue-by-transport: host.Connection selects its packet queue by transport alone: host.le_acl_packet_queue for LE, host.acl_packet_queue for BR/EDR, on every path of __init__.',
    'C05.registered-before-emit: every Host handler that enters a link into connections / cis_links / sco_links / bis_links does so before any emit on the path (a listener that sends at once finds the handle).',
    'C05.fragment-forwarded: in Controller.on_hci_acl_data_packet every path on which the connection was found hands the packet to it: no filter in the dispatcher drops a fragment.',
    'C05.header-masks: every constant mask applied to the header word in HCI_AclDataPacket / HCI_SynchronousDataPacket / HCI_IsoDataPacket.from_bytes is a run of low one-bits (2^k - 1), and the ACL connection handle is cut with the 12-bit mask: no handle loses a bit on the way in.',
    'C05.format-safe: (shared with C17.format-safe) the formatting methods of the packet classes read only attributes that exist and format optional fields as numbers only under a guard: every HCI packet is formatted for the debug log before it is sent or dispatched, so a raising __str__ loses the fragment.',
    'C05.completed-pairs: Host.on_hci_number_of_completed_packets_event processes every (handle, count) pair of the event: no return / break / raise inside its loop.',
    'C05.buffer-size-layout: the return parameters of Read Buffer Size, LE Read Buffer Size and LE Read Buffer Size [v2] are declared with the field order and widths of the Core specification (length(2), count(1) pairs for LE; ACL length(2), SCO length(1), ACL count(2), SCO count(2) for BR/EDR).',
    'C05.acl-ctor: every HCI_AclDataPacket(...) construction in host, controller and link, with positional arguments resolved against the declared field order, gives the start/continuation marker to pb_flag, a zero to bc_flag and len(fragment) / fragment to data_total_length / data.',
    'C05.zero-valid: fields declared `int | None` in the anchored modules are tested for presence with `is None` / `is not None`, never by truthiness, so 0 (sequence number 0, time stamp 0, length 0) is handled like any other value.',
    'C05.acl-fragments: every HCI_AclDataPacket construction site lies in a loop whose stride equals the slice width, bounded by a '
    'buffer length; data_total_length == len(fragment); the continuation marker is set iff offset > 0; each fragment is handed on once.',
    'C05.iso-fragments: fragment_length = min(remaining, max - header); data_total_length = header + fragment; the 4-byte SDU header '
    '(sequence number, SDU length) is carried exactly by first fragments; pb encodes (first, last); offsets advance by fragment_length; '
    'the sequence number advances once per SDU, modulo 2^16.',
    'C05.assembler: in HCI_AclDataPacketAssembler.feed_packet a start fragment replaces the state, a continuation without start '
    'changes nothing, completion and overflow reset the state, and the completion threshold is the L2CAP length + the 4-byte basic header. On both the host and the controller side every normal path of Connection.on_hci_acl_data_packet feeds the fragment to the assembler exactly once and on_acl_pdu is reachable only as the assembler\'s callback; the virtual controller returns the buffer of every fragment at once (one completion event, this handle, count 1) on every path, so no buffer count can starve the host in the middle of a PDU.',
    'C05.l2cap-header: L2CAP_PDU header is <HH> (length, cid) on both sides and the payload starts at 4.',
    'C05.queue-geometry: each of the three host data queues takes max_packet_size and max_in_flight from the Read Buffer Size fields of its own buffer pool (ACL / LE ACL / ISO); LE shares the classic queue iff the controller announced no LE pool.',
    'C05.queue-order: the ACL queue between fragmentation and the controller is FIFO (including rebuilds on flush).',
    'Not decided: byte identity end to end for all sizes (runtime data).',
]
ASSUMPTIONS = []

HOST = 'bumble.host.Host'


def _frag_loop_checks(R, p, rule, fn, key):
    """For each HCI_AclDataPacket(...) construction in fn."""
    cons = [c for c in calls_in(fn) if call_attr(c) == 'HCI_AclDataPacket']
    if not cons:
        R.bad(rule, key, 'no HCI_AclDataPacket construction found', p.loc(fn))
        return
    for c in cons:
        loop = next((a for a in _anc(c) if isinstance(a, ast.For)), None)
        if loop is None or not (isinstance(loop.iter, ast.Call) and call_attr(loop.iter) == 'range' and len(loop.iter.args) == 3):
            R.bad(rule, key + ' | in a fragmentation loop', 'an ACL packet is built outside a `for offset in range(0, len(x), size)` loop: a PDU larger than the buffer/length field goes out in one piece', p.loc(c))
            continue
        a0, a1, step = [norm(a) for a in loop.iter.args]
        off = dotted(loop.target)
        # fragment variable: the `data` argument
        params = ['connection_handle', 'pb_flag', 'bc_flag', 'data_total_length', 'data']
        bound = {params[i]: a for i, a in enumerate(c.args) if i < len(params)}
        bound.update({k.arg: k.value for k in c.keywords if k.arg})
        dvar = dotted(bound.get('data'))
        ddef = [slice_parts(n.value) for n in walk_local(loop) if isinstance(n, ast.Assign) and dotted(n.targets[0]) == dvar]
        src = a1[4:-1] if a1.startswith('len(') else None
        ok = a0 == '0' and src is not None and ddef == [(src, off, f'{off} + {step}')]
        R.check(ok, rule, key + ' | stride == slice width', f'range(0, len({src}), {step}) with {dvar} = {src}[{off}:{off} + {step}]: no gap, no overlap, each fragment <= {step}',
                f'fragment slice {ddef} does not match the loop stride {step} over {a1}', p.loc(loop))
        # bound is a buffer length / field width
        sdef = [norm(n.value) for n in walk_local(fn) if isinstance(n, ast.Assign) and dotted(n.targets[0]) == step]
        R.check(sdef in (['packet_queue.max_packet_size'], ['65535']), rule, key + ' | bound', f'fragment size {step} = {sdef[0] if sdef else "?"}', f'fragment size `{step}` is {sdef}: not the queue\'s max_packet_size (or the 16-bit field limit on the controller side)', p.loc(loop))
        R.check(norm(bound.get('data_total_length')) == f'len({dvar})', rule, key + ' | data_total_length', 'length field = len(fragment)', f'data_total_length = {text(bound.get("data_total_length"))}', p.loc(c))
        pb = bound.get('pb_flag')
        okpb = isinstance(pb, ast.IfExp) and norm(pb.test) in (f'{off} > 0', f'{off} == 0', f'{off} != 0')
        if okpb:
            first_val = pb.orelse if norm(pb.test) in (f'{off} > 0', f'{off} != 0') else pb.body
            cont_val = pb.body if first_val is pb.orelse else pb.orelse
            names = {'0': 'first', '2': 'first', 'hci.HCI_ACL_PB_FIRST_FLUSHABLE': 'first', 'hci.HCI_ACL_PB_FIRST_NON_FLUSHABLE': 'first', '1': 'cont', 'hci.HCI_ACL_PB_CONTINUATION': 'cont'}
            okpb = names.get(norm(first_val)) == 'first' and names.get(norm(cont_val)) == 'cont'
        R.check(okpb, rule, key + ' | start/continuation marker', 'continuation marker iff offset > 0', f'pb_flag = {text(pb)}: start/continuation marker is not decided by offset > 0', p.loc(c))
        # handed on exactly once per iteration
        pvar = None
        par = getattr(c, '_parent', None)
        if isinstance(par, ast.Assign):
            pvar = dotted(par.targets[0])
        uses = [x for x in calls_in(loop) if call_attr(x) in ('enqueue', 'send_hci_packet') and x.args and dotted(x.args[0]) == pvar]
        R.check(len(uses) == 1, rule, key + ' | handed on once', 'each fragment enqueued/sent exactly once', f'fragment handed on {len(uses)} times per iteration', p.loc(loop))
        if uses and call_attr(uses[0]) == 'enqueue':
            R.check(len(uses[0].args) == 2 and norm(uses[0].args[1]) == norm(bound.get('connection_handle')), rule, key + ' | queue handle', 'enqueued under the connection handle carried in the packet', 'fragment enqueued under a different handle than it carries', p.loc(uses[0]))


def _anc(n):
    q = getattr(n, '_parent', None)
    while q is not None:
        yield q
        q = getattr(q, '_parent', None)


def acl_fragments(ctx):
    R, p = ctx.r, ctx.p
    rule = 'C05.acl-fragments'
    n = 0
    for q in (f'{HOST}.send_acl_sdu', 'bumble.controller.Controller.on_link_acl_data'):
        fn = p.find(q)
        if fn is None:
            R.bad(rule, q, f'anchor missing: {q}')
            continue
        n += 1
        _frag_loop_checks(R, p, rule, fn, q)
    # census: no other construction site on the sending sides
    for mod in ('bumble.host', 'bumble.controller', 'bumble.l2cap', 'bumble.device'):
        m = p.modules.get(mod)
        for fn in [x for x in ast.walk(m.tree) if isinstance(x, (ast.FunctionDef, ast.AsyncFunctionDef))]:
            q = p.qual_of(fn)
            if q in (f'{HOST}.send_acl_sdu', 'bumble.controller.Controller.on_link_acl_data'):
                continue
            for c in calls_in(fn):
                if call_attr(c) == 'HCI_AclDataPacket':
                    R.bad(rule, f'{q} | extra construction site', 'ACL packet built outside the two fragmenting functions', p.loc(c))
    sl = p.find(f'{HOST}.send_l2cap_pdu')
    if sl is not None:
        R.check('self.send_acl_sdu(connection_handle, bytes(L2CAP_PDU(cid, pdu)))' in norm(sl), rule, f'{HOST}.send_l2cap_pdu', 'L2CAP PDUs go through send_acl_sdu', 'send_l2cap_pdu bypasses fragmentation', p.loc(sl))
    R.floor(rule, 12, 'fragment obligations')


def iso_fragments(ctx):
    R, p = ctx.r, ctx.p
    rule = 'C05.iso-fragments'
    fn = p.find(f'{HOST}.send_iso_sdu')
    if fn is None:
        R.bad(rule, f'{HOST}.send_iso_sdu', 'anchor missing')
        return
    key = f'{HOST}.send_iso_sdu'
    loop = next((s for s in fn.body if isinstance(s, ast.While)), None)
    if loop is None:
        R.bad(rule, key + ' | loop', 'fragment loop not found', p.loc(fn))
        return
    # one packet at least (an empty SDU is a complete SDU of length 0), then until nothing remains
    last = loop.body[-1] if loop.body else None
    exits_when_done = isinstance(last, ast.If) and not last.orelse and len(last.body) == 1 and isinstance(last.body[0], ast.Break) and (norm(last.test), True) in [('not bytes_remaining', True), ('bytes_remaining == 0', True), ('bytes_remaining <= 0', True)]
    breaks = [n for n in ast.walk(loop) if isinstance(n, ast.Break)]
    do_while = isinstance(loop.test, ast.Constant) and loop.test.value is True and exits_when_done and len(breaks) == 1
    R.check(do_while, rule, key + ' | loop', 'runs once, then while bytes remain (test after the advance): an empty SDU still produces its packet',
            'the fragment loop is not "at least once, until nothing remains"' + (': `while bytes_remaining` sends nothing for an empty SDU although the sequence number advances' if norm(loop.test) == 'bytes_remaining' else ''), p.loc(loop))
    if not do_while and norm(loop.test) != 'bytes_remaining':
        return
    d = {dotted(n.targets[0]): n.value for n in loop.body if isinstance(n, ast.Assign) and len(n.targets) == 1 and isinstance(n.targets[0], ast.Name)}
    nd = {k: norm(v) for k, v in d.items()}
    R.check(nd.get('is_first_fragment') == 'offset == 0' and nd.get('header_length') == '4 if is_first_fragment else 0', rule, key + ' | header', '4-byte SDU header iff first fragment (offset == 0)', f'header rule: {nd.get("is_first_fragment")}, {nd.get("header_length")}', p.loc(loop))
    R.check(nd.get('fragment_length') == 'min(bytes_remaining, iso_link.packet_queue.max_packet_size - header_length)', rule, key + ' | fragment <= max - header', 'fragment_length = min(remaining, max_packet_size - header_length)', f'fragment length is {nd.get("fragment_length")}', p.loc(loop))
    R.check(nd.get('is_last_fragment') == 'bytes_remaining == fragment_length', rule, key + ' | last', 'last iff the fragment takes all remaining bytes', f'last-fragment rule {nd.get("is_last_fragment")}', p.loc(loop))
    R.check('iso_sdu_fragment' in d and slice_parts(d['iso_sdu_fragment']) == ('sdu', 'offset', 'offset + fragment_length'), rule, key + ' | slice', 'fragment = sdu[offset:offset + fragment_length]', 'fragment slice changed', p.loc(loop))
    adv = [norm(s) for s in loop.body if isinstance(s, ast.AugAssign)]
    R.check(adv == ['offset += fragment_length', 'bytes_remaining -= fragment_length'], rule, key + ' | advance', 'offset and remaining move by fragment_length', f'advance statements {adv}', p.loc(loop))
    cons = [c for c in calls_in(loop) if call_attr(c) == 'HCI_IsoDataPacket']
    sel = [n for n in ast.walk(loop) if isinstance(n, ast.IfExp) and isinstance(n.body, ast.Call) and call_attr(n.body) == 'HCI_IsoDataPacket']
    ok = len(cons) == 2 and len(sel) == 1 and norm(sel[0].test) == 'is_first_fragment'
    R.check(ok, rule, key + ' | first vs later packet', 'first fragments built with the SDU header, later ones without, selected by is_first_fragment', 'selection between first and later fragment packets changed', p.loc(loop))
    if ok:
        first, later = sel[0].body, sel[0].orelse
        kw = lambda c: {k.arg: norm(k.value) for k in c.keywords}
        f, l = kw(first), kw(later)
        R.check(f.get('data_total_length') == 'header_length + fragment_length' and l.get('data_total_length') == 'fragment_length', rule, key + ' | data_total_length', 'header + fragment (first) / fragment (later)', f'length fields: {f.get("data_total_length")} / {l.get("data_total_length")}', p.loc(first))
        R.check(f.get('packet_sequence_number') == 'iso_link.packet_sequence_number' and f.get('iso_sdu_length') == 'len(sdu)' and 'packet_status_flag' in f and not ({'packet_sequence_number', 'iso_sdu_length'} & set(l)), rule, key + ' | SDU header fields',
                'sequence number and SDU length carried by the first fragment only', 'SDU header fields are not carried exactly by first fragments', p.loc(first))
        R.check(f.get('pb_flag') == '2 if is_last_fragment else 0' and l.get('pb_flag') == '3 if is_last_fragment else 1', rule, key + ' | pb flag', 'pb = 0b10/0b00 (first: complete/start), 0b11/0b01 (later: end/continuation)', f'pb flags: {f.get("pb_flag")} / {l.get("pb_flag")}', p.loc(first))
        R.check(f.get('iso_sdu_fragment') == 'iso_sdu_fragment' and l.get('iso_sdu_fragment') == 'iso_sdu_fragment', rule, key + ' | payload', 'both carry the slice', 'payload argument changed', p.loc(first))
    enq = [c for c in calls_in(loop) if call_attr(c) == 'enqueue']
    R.check(len(enq) == 1 and len(enq[0].args) == 2 and norm(enq[0].args[1]) == 'connection_handle', rule, key + ' | enqueued once', 'one enqueue per fragment under the connection handle', f'{len(enq)} enqueue calls per iteration', p.loc(loop))
    # sequence number: once per SDU (outside the loop), modulo 2^16
    seq = [n for n in ast.walk(fn) if isinstance(n, ast.Assign) and dotted(n.targets[0]) == 'iso_link.packet_sequence_number']
    in_loop = [n for n in seq if any(a is loop for a in _anc(n))]
    ok = len(seq) == 1 and not in_loop and norm(seq[0].value) == 'iso_link.packet_sequence_number + 1 & 65535' and seq[0] in fn.body and fn.body.index(seq[0]) > fn.body.index(loop)
    R.check(ok, rule, key + ' | sequence number per SDU', 'advanced once after the fragment loop, modulo 2^16', 'the ISO packet sequence number is not advanced exactly once per SDU (modulo 65536) after all fragments were queued', p.loc(seq[0]) if seq else p.loc(fn))


def assembler(ctx):
    R, p = ctx.r, ctx.p
    rule = 'C05.assembler'
    fn = p.find('bumble.hci.HCI_AclDataPacketAssembler.feed_packet')
    if fn is None:
        R.bad(rule, 'bumble.hci.HCI_AclDataPacketAssembler.feed_packet', 'anchor missing')
        return
    key = 'bumble.hci.HCI_AclDataPacketAssembler.feed_packet'
    from collections import namedtuple
    V = namedtuple('V', 'kind had_state data length delivered accepted')

    class D(paths.Domain):
        """kind: start/cont/other; had_state: a PDU was in progress; data/length:
        abstract content of the assembler fields after the step."""

        def assume(self, atom, truth, v):
            t = norm(atom)
            if t.startswith('packet.pb_flag in'):
                return (v,) if truth == (v.kind == 'start') else ()
            if t == 'packet.pb_flag == HCI_ACL_PB_CONTINUATION':
                return (v,) if truth == (v.kind == 'cont') else ()
            if truth and v.kind == 'start' and same_ineq_(atom, 'len(packet.data) < 2'):
                return (v._replace(accepted='short'),)     # start fragment too short to hold the L2CAP length: dropped
            if t == 'self.current_data is None':
                none = v.data == 'none'
                return (v,) if truth == none else ()
            if t == 'self.current_data is not None':
                none = v.data == 'none'
                return (v,) if truth != none else ()
            return (v,)

        def may_raise(self, call):
            # reading the length from a fragment shorter than 2 bytes raises
            return 'struct.error' if (dotted(call.func) or '').startswith('struct.unpack') else None

        def event(self, node, v):
            if isinstance(node, ast.Assign):
                tg = dotted(node.targets[0])
                val = norm(node.value)
                if tg == 'self.current_data':
                    return (v._replace(data='none' if val == 'None' else ('new' if val == 'packet.data' else 'other'), accepted=v.accepted or val == 'packet.data'),)
                if tg == 'self.l2cap_pdu_length':
                    return (v._replace(length='zero' if val == '0' else ('new' if val == 'l2cap_pdu_length' else 'other')),)
            if isinstance(node, ast.AugAssign) and dotted(node.target) == 'self.current_data':
                return (v._replace(data='appended' if norm(node.value) == 'packet.data' and isinstance(node.op, ast.Add) else 'other'),)
            if isinstance(node, ast.Call) and dotted(node.func) == 'self.callback':
                return (v._replace(delivered=v.delivered + 1),)
            return (v,)

    def same_ineq_(atom, txt):
        from ..sym import same_ineq
        try:
            return same_ineq(atom, txt)
        except Exception:
            return False

    def run(kind, had):
        init = V(kind, had, 'old' if had else 'none', 'old' if had else 'zero', 0, False)
        res = paths.run(fn, D(), init)
        return {(k, s) for k, st in res.items() for s in st}

    # start fragment: state replaced whatever was there
    for had in (True, False):
        outs = run('start', had)
        bad = [f'{k}: data={s.data} length={s.length}' for k, s in outs if not k.startswith('raise') and not (s.accepted is True and ((s.data == 'new' and s.length == 'new') or (s.data == 'none' and s.length == 'zero' and s.delivered <= 1)))
               and not (s.accepted == 'short' and s.data == 'none' and s.length == 'zero' and s.delivered == 0)]
        R.check(not bad and bool(outs), rule, key + f' | start fragment ({"PDU in progress" if had else "idle"})', 'the start fragment replaces any partial PDU (then completes or waits)', f'a start fragment is not taken as the beginning of a new PDU in every state (a PDU cut short by the peer makes the next, well-formed one disappear): {bad}', p.loc(fn))
    # ... also when reading its length fails (a start fragment of 0 or 1 byte): the partial PDU is forgotten first
    outs = run('start', True)
    kept = [f'{k}: data={s.data}' for k, s in outs if k.startswith('raise') and s.data == 'old']
    R.check(not kept, rule, key + ' | start fragment (length unreadable)', 'no exception can leave the previous partial PDU in place',
            f'a start fragment too short to hold the L2CAP length raises while the previous partial PDU is still in place ({kept}): the continuation that follows is appended to the old PDU and a PDU mixing both is delivered', p.loc(fn))
    # continuation without start: nothing changes, nothing delivered
    outs = run('cont', False)
    bad = [f'{k}: data={s.data} length={s.length} delivered={s.delivered}' for k, s in outs if not k.startswith('raise') and (s.data != 'none' or s.length != 'zero' or s.delivered)]
    R.check(not bad and bool(outs), rule, key + ' | continuation without start', 'dropped without touching the state', f'a continuation without start changes the assembler: {bad}', p.loc(fn))
    # continuation with state: appended; on completion/overflow paths state reset
    outs = run('cont', True)
    bad = [f'{k}: data={s.data} length={s.length}' for k, s in outs if not k.startswith('raise') and not ((s.data == 'appended' and s.length == 'old') or (s.data == 'none' and s.length == 'zero'))]
    R.check(not bad and bool(outs), rule, key + ' | continuation', 'appended, or (complete / overflow) reset', f'continuation handling leaves a mixed state: {bad}', p.loc(fn))
    deliv = [(k, s) for k, s in outs if s.delivered]
    R.check(all(s.data == 'none' and s.length == 'zero' and s.delivered == 1 for k, s in deliv) and bool(deliv), rule, key + ' | delivery resets', 'a delivered PDU is delivered once and the state is reset', 'delivery does not reset the assembler', p.loc(fn))
    # threshold = length + 4 and length read '<H' at 0
    src = norm(fn)
    rd = [n for n in walk_local(fn) if isinstance(n, ast.Assign) and isinstance(n.targets[0], ast.Tuple) and [dotted(e) for e in n.targets[0].elts] == ['l2cap_pdu_length'] and norm(n.value) == "struct.unpack_from('<H', packet.data, 0)"]
    R.check(len(rd) == 1, rule, key + ' | length read', "L2CAP length read '<H' at 0 of the start fragment", 'L2CAP length read changed', p.loc(fn))
    from ..sym import same_ineq
    tests = [n.test for n in ast.walk(fn) if isinstance(n, ast.If)]
    R.check(any(same_ineq(t, 'len(self.current_data) == self.l2cap_pdu_length + 4') for t in tests) and any(same_ineq(t, 'len(self.current_data) > self.l2cap_pdu_length + 4') for t in tests), rule, key + ' | threshold', 'complete at length + 4 (basic L2CAP header); beyond that is overflow', 'completion/overflow threshold is not the L2CAP length + 4', p.loc(fn))
    # the overflow branch resets
    ov = [n for n in ast.walk(fn) if isinstance(n, ast.If) and same_ineq(n.test, 'len(self.current_data) > self.l2cap_pdu_length + 4')]
    ok = len(ov) == 1 and {'self.current_data = None', 'self.l2cap_pdu_length = 0'} <= {norm(s) for s in ov[0].body}
    R.check(ok, rule, key + ' | overflow resets', 'data beyond the announced length discards only this PDU', 'overflow does not reset the assembler (the next PDU is corrupted)', p.loc(fn))
    for q in ('bumble.host.Connection.on_hci_acl_data_packet', 'bumble.controller.Connection.on_hci_acl_data_packet'):
        f2 = p.find(q)
        if f2 is None:
            R.bad(rule, q, 'anchor missing')
            continue

        class Feed(paths.Domain):
            # (fed to the assembler, completion events sent with this connection's handle and count 1, other completion events)
            def event(self, node, v):
                if isinstance(node, ast.Call):
                    if norm(node) == 'self.assembler.feed_packet(packet)':
                        return ((v[0] + 1, v[1], v[2]),)
                    if call_attr(node) == 'HCI_Number_Of_Completed_Packets_Event':
                        kw = {k.arg: norm(k.value) for k in node.keywords}
                        exact = kw.get('connection_handles') == '[self.handle]' and kw.get('num_completed_packets') == '[1]'
                        return ((v[0], v[1] + exact, v[2] + (not exact)),)
                return (v,)
        res = paths.run(f2, Feed(), (0, 0, 0))
        outs = {(k, v) for k, st in res.items() if not k.startswith('raise') for v in st}
        R.check(bool(outs) and all(v[0] == 1 for k, v in outs), rule, q + ' | every fragment through the assembler', 'every normal path feeds the fragment to the per-connection assembler exactly once',
                'a path handles a received ACL fragment without feeding it to the per-connection assembler: the assembler is not reset by that fragment, so a PDU abandoned earlier is later completed with foreign bytes', p.loc(f2), sorted(f'{k}: fed {v[0]}x' for k, v in outs if v[0] != 1)[:3])
        if q.startswith('bumble.controller'):
            R.check(bool(outs) and all(v[1] == 1 and v[2] == 0 for k, v in outs), rule, q + ' | buffer returned per fragment', 'every normal path reports exactly this one buffer as completed (handle of this connection, count 1)',
                    'a path takes a host fragment without returning its buffer at once: with fewer buffers than the deferred count the host runs out of credits in the middle of a PDU and the link stalls', p.loc(f2), sorted(f'{k}: {v[1]} exact / {v[2]} other completion event(s)' for k, v in outs if v[1] != 1 or v[2])[:3])
    # the PDU callback is reachable only through the assembler
    for cq in ('bumble.host.Connection', 'bumble.controller.Connection'):
        ci = p.cls(cq)
        if ci is None:
            continue
        uses = [(mn, n) for mn, m in ci.methods.items() for n in ast.walk(m) if isinstance(n, ast.Attribute) and dotted(n) == 'self.on_acl_pdu']
        okuse = [(mn, n) for mn, n in uses if isinstance(getattr(n, '_parent', None), ast.Call) and call_attr(n._parent) == 'HCI_AclDataPacketAssembler' and n in n._parent.args]
        R.check(len(uses) == len(okuse) == 1, rule, cq + '.on_acl_pdu | only the assembler delivers', 'on_acl_pdu is referenced once, as the callback handed to HCI_AclDataPacketAssembler',
                f'on_acl_pdu is also invoked outside the assembler ({sorted({mn for mn, n in uses if (mn, n) not in okuse})}): PDUs delivered around the assembler do not reset it', p.loc(ci.node) if hasattr(ci, 'node') else '')
    oc = p.find('bumble.host.Connection.on_acl_pdu')
    if oc is not None:
        R.check('L2CAP_PDU.from_bytes(pdu)' in norm(oc), rule, 'bumble.host.Connection.on_acl_pdu', 'reassembled bytes parsed as one L2CAP PDU', 'reassembled data is not parsed as an L2CAP PDU', p.loc(oc))


def acl_ctor_binding(ctx):
    """Every construction of an ACL data packet binds the start/continuation marker to `pb_flag`, the length to
    `data_total_length` and the fragment to `data`, whether it passes its arguments by keyword or by position (positional
    arguments are resolved against the declared field order of the class)."""
    R, p = ctx.r, ctx.p
    rule = 'C05.acl-ctor'
    ci = p.cls('bumble.hci.HCI_AclDataPacket')
    if ci is None:
        R.bad(rule, 'bumble.hci.HCI_AclDataPacket', 'anchor missing')
        return
    order = [st.target.id for st in ci.node.body if isinstance(st, ast.AnnAssign) and isinstance(st.target, ast.Name) and 'ClassVar' not in text(st.annotation)]
    n = 0
    for mn in ('bumble.controller', 'bumble.host', 'bumble.link', 'bumble.device', 'bumble.l2cap'):
        m = p.modules.get(mn)
        for c in (ast.walk(m.tree) if m else []):
            if not (isinstance(c, ast.Call) and call_attr(c) == 'HCI_AclDataPacket'):
                continue
            n += 1
            bound = {order[i]: a for i, a in enumerate(c.args) if i < len(order)}
            bound.update({k.arg: k.value for k in c.keywords if k.arg})
            pb, bc, ln, data = bound.get('pb_flag'), bound.get('bc_flag'), bound.get('data_total_length'), bound.get('data')
            marker = pb is not None and ('PB_' in norm(pb) or 'offset' in norm(pb) or 'pb' in norm(pb).lower())
            ok = marker and bc is not None and (not isinstance(bc, ast.Constant) or bc.value == 0) and 'PB_' not in norm(bc) and ln is not None and data is not None and norm(ln) == f'len({norm(data)})'
            R.check(ok, rule, f'{p.qual_of(c)} | HCI_AclDataPacket(...)', f'pb_flag <- {norm(pb)[:40] if pb is not None else None}, bc_flag <- {norm(bc) if bc is not None else None}, length <- {norm(ln) if ln is not None else None}',
                    f'with the declared field order {order} this construction binds pb_flag <- `{norm(pb)[:50] if pb is not None else None}` and bc_flag <- `{norm(bc)[:50] if bc is not None else None}`: the start / continuation marker does not end up in the packet boundary flag (every fragment is marked as a start, or the length does not describe the fragment)', f'{m.rel}:{c.lineno}')
    R.check(n >= 2 and order[:1] == ['connection_handle'], rule, 'HCI_AclDataPacket constructions', f'{n} constructions resolved against the field order {order}', f'only {n} constructions found / unexpected field order {order}')


# Core Vol 4 Part E 7.4.5, 7.8.2: return parameters of the three Read Buffer Size commands, after the status octet
BUFFER_SIZE_LAYOUT = {
    'bumble.hci.HCI_Read_Buffer_Size_ReturnParameters': [('hc_acl_data_packet_length', 2), ('hc_synchronous_data_packet_length', 1), ('hc_total_num_acl_data_packets', 2), ('hc_total_num_synchronous_data_packets', 2)],
    'bumble.hci.HCI_LE_Read_Buffer_Size_ReturnParameters': [('le_acl_data_packet_length', 2), ('total_num_le_acl_data_packets', 1)],
    'bumble.hci.HCI_LE_Read_Buffer_Size_V2_ReturnParameters': [('le_acl_data_packet_length', 2), ('total_num_le_acl_data_packets', 1), ('iso_data_packet_length', 2), ('total_num_iso_data_packets', 1)],
}


def buffer_size_layout(ctx):
    """The geometry the host fragments against is what a real controller put on the wire: the return parameters of the Read
    Buffer Size commands are declared in the order and with the widths of the specification (bumble's own controller uses
    the same classes, so a permuted declaration still round-trips between two bumble ends)."""
    R, p = ctx.r, ctx.p
    rule = 'C05.buffer-size-layout'
    for q, want in BUFFER_SIZE_LAYOUT.items():
        ci = p.cls(q)
        if ci is None:
            R.bad(rule, q, 'anchor missing')
            continue
        got = []
        for st in ci.node.body:
            if isinstance(st, ast.AnnAssign) and isinstance(st.target, ast.Name) and isinstance(st.value, ast.Call):
                md = next((c for c in ast.walk(st.value) if isinstance(c, ast.Call) and call_attr(c) == 'metadata' and c.args), None)
                got.append((st.target.id, const(md.args[0]) if md is not None and is_const(md.args[0]) else norm(md.args[0]) if md is not None else None))
        R.check(got == want, rule, q, f'fields {[f"{n}({w})" for n, w in want]} in the order of the specification',
                f'declared as {got}, the specification orders them {want}: the host reads another controller\'s buffer size answer into the wrong fields (packet length and packet count mixed up) and fragments against a wrong geometry', p.loc(ci.node))


def l2cap_header(ctx):
    R, p = ctx.r, ctx.p
    rule = 'C05.l2cap-header'
    fb = p.find('bumble.l2cap.L2CAP_PDU.from_bytes')
    tb = p.find('bumble.l2cap.L2CAP_PDU.to_bytes')
    if fb is None or tb is None:
        R.bad(rule, 'bumble.l2cap.L2CAP_PDU', 'anchor missing')
        return
    s1, s2 = norm(fb), norm(tb)
    # the only PDU refused for its size is one shorter than the 4-byte basic header: a PDU of exactly 4 bytes is a
    # well-formed PDU with an empty payload
    from ..sym import same_ineq
    guards = [n for n in walk_local(fb) if isinstance(n, ast.If) and any(isinstance(x, ast.Raise) for x in n.body) and 'len(data)' in norm(n.test)]
    R.check(len(guards) == 1 and same_ineq(guards[0].test, 'len(data) < 4'), rule, 'bumble.l2cap.L2CAP_PDU.from_bytes | minimum size', 'refuses exactly the inputs shorter than the 4-byte header',
            f'the size guard is `{norm(guards[0].test) if guards else None}`, not `len(data) < 4`: a PDU with an empty payload (exactly the 4-byte header) is refused and never reaches the L2CAP layer', p.loc(guards[0]) if guards else p.loc(fb))
    R.check("length, l2cap_pdu_cid = struct.unpack_from('<HH', data, 0)" in s1 and 'l2cap_pdu_payload = data[4:4 + length]' in s1 and 'cls(l2cap_pdu_cid, l2cap_pdu_payload)' in s1, rule, 'bumble.l2cap.L2CAP_PDU.from_bytes', '<HH length, cid; payload = data[4:4+length]', 'basic header parse changed', p.loc(fb))
    R.check("header = struct.pack('<HH', length, self.cid)" in s2 and 'length = len(self.payload)' in s2 and 'body = header + self.payload' in s2, rule, 'bumble.l2cap.L2CAP_PDU.to_bytes', '<HH len(payload), cid then payload', 'basic header serialisation changed', p.loc(tb))


def queue_order(ctx):
    # the FIFO census of C04 restricted to the data packet queue
    R, p = ctx.r, ctx.p
    rule = 'C05.queue-order'
    from ..report import Reporter
    tmp = Reporter('C05', ctx.tier)

    class X:
        pass
    x = X()
    x.r, x.p, x.tier, x.wide = tmp, p, 'quick', p
    c04.fifo(x)
    c04.credit_guard(x)
    for o in tmp.obs:
        if 'DataPacketQueue' not in o.key:
            continue
        if o.status == 'bad':
            R.bad(rule, o.key, o.fact, o.loc)
        elif o.status == 'ok':
            R.ok(rule, o.key, o.fact, o.loc)



QUEUE_FAMILY = {'acl_packet_queue': 'acl', 'le_acl_packet_queue': 'le_acl', 'iso_packet_queue': 'iso'}


def _family_of(field: str):
    """which buffer family a Read Buffer Size return field describes."""
    f = field.lower()
    if 'iso' in f:
        return 'iso'
    if 'le_acl' in f or f.startswith('le_'):
        return 'le_acl'
    if 'acl' in f:
        return 'acl'
    return None


def queue_geometry(ctx, rule='C05.queue-geometry'):
    """Each data queue is dimensioned with the packet length and count the controller announced for *that* buffer pool."""
    R, p = ctx.r, ctx.p
    fn = p.find(f'{HOST}.reset')
    if fn is None:
        R.bad(rule, f'{HOST}.reset', 'anchor missing')
        return
    # local <- response field(s)
    src = {}
    for n in ast.walk(fn):
        if isinstance(n, ast.Assign) and len(n.targets) == 1 and isinstance(n.targets[0], ast.Name) and isinstance(n.value, ast.Attribute) and isinstance(n.value.value, ast.Name) and n.value.value.id.startswith('response'):
            src.setdefault(n.targets[0].id, set()).add(n.value.attr)
    n_q = 0
    for n in ast.walk(fn):
        if isinstance(n, ast.Assign) and isinstance(n.value, ast.Call) and dotted(n.value.func) == 'DataPacketQueue':
            tgt = (dotted(n.targets[0]) or '').replace('self.', '')
            fam = QUEUE_FAMILY.get(tgt)
            if fam is None:
                R.bad(rule, f'{HOST}.reset | {tgt}', 'data queue assigned to an attribute outside the known families', p.loc(n))
                continue
            n_q += 1
            for kw, kind in (('max_packet_size', 'length'), ('max_in_flight', 'num')):
                v = kwarg(n.value, kw)
                fields_ = src.get(v.id, set()) if isinstance(v, ast.Name) else ({v.attr} if isinstance(v, ast.Attribute) else set())
                fams = {_family_of(f) for f in fields_}
                ok = bool(fields_) and fams == {fam} and all(kind in f for f in fields_)
                R.check(ok, rule, f'{HOST}.reset | {tgt}.{kw}', f'from {sorted(fields_)}: the {fam} pool\'s {"packet length" if kind == "length" else "packet count"}',
                        f'{tgt} is dimensioned with {kw}={norm(v) if v is not None else None} taken from {sorted(fields_) or "?"}: not the {fam} buffer pool\'s announced {"data packet length" if kind == "length" else "number of packets"} - fragments can exceed what the controller accepts / more packets in flight than advertised', p.loc(n))
    R.check(n_q == 3, rule, f'{HOST}.reset | queues', '3 data queues (ACL, LE ACL, ISO) dimensioned', f'{n_q} DataPacketQueue constructions found (expected 3)', p.loc(fn))
    # sharing: LE uses the classic queue only when the controller announced no LE pool
    sh = [n for n in ast.walk(fn) if isinstance(n, ast.Assign) and dotted(n.targets[0]) == 'self.le_acl_packet_queue' and dotted(n.value) == 'self.acl_packet_queue']
    g = [sorted(norm(t) for t, pol in paths.flat_guards(x) if pol) for x in sh]
    R.check(len(sh) == 1 and g == [['le_acl_data_packet_length == 0 or total_num_le_acl_data_packets == 0']], rule, f'{HOST}.reset | shared pool', 'LE shares the classic queue iff the LE length or count is 0', 'the condition for sharing the classic buffer pool changed', p.loc(fn))


def zero_valid_rule(ctx):
    from ..zero_valid import zero_valid
    zero_valid(ctx, 'C05.zero-valid', ['bumble.hci', 'bumble.host', 'bumble.l2cap'])


def completed_pairs(ctx):
    """Number Of Completed Packets carries several (handle, count) pairs: the handler walks all of them -- nothing in the
    loop leaves the function or the loop (a pair for a SCO handle or an unknown handle skips that pair only)."""
    R, p = ctx.r, ctx.p
    rule = 'C05.completed-pairs'
    fn = p.find(f'{HOST}.on_hci_number_of_completed_packets_event')
    if fn is None:
        R.bad(rule, f'{HOST}.on_hci_number_of_completed_packets_event', 'anchor missing')
        return
    loops = [x for x in walk_local(fn) if isinstance(x, ast.For)]
    R.check(len(loops) == 1, rule, f'{HOST}.on_hci_number_of_completed_packets_event | loop', 'one loop over the pairs', f'{len(loops)} loops', p.loc(fn))
    for lp in loops:
        leaves = [x for x in ast.walk(lp) if isinstance(x, (ast.Return, ast.Break, ast.Raise))]
        R.check(not leaves, rule, f'{HOST}.on_hci_number_of_completed_packets_event | every pair processed', 'no return / break / raise inside the loop over the pairs',
                f'the loop over the (handle, count) pairs can be left early (line {leaves[0].lineno if leaves else 0}): the credits reported after that pair are never returned and the queue stalls', p.loc(lp))


def format_safe_rule(ctx):
    from .c17 import format_safe
    format_safe(ctx, 'C05.format-safe')


def header_masks(ctx):
    """The 16-bit header word of ACL / SCO / ISO data packets is cut into bit fields with `& mask` after a shift.  Each mask
    is a run of low one-bits (2^k - 1), and the fields tile the word: handle 12 bits, then the flag fields.  A mask such as
    0x0EFF (the largest legal *value* used as a mask) clears bit 8 of every handle."""
    R, p = ctx.r, ctx.p
    rule = 'C05.header-masks'
    n = 0
    for q in ('bumble.hci.HCI_AclDataPacket.from_bytes', 'bumble.hci.HCI_SynchronousDataPacket.from_bytes', 'bumble.hci.HCI_IsoDataPacket.from_bytes'):
        fn = p.find(q)
        if fn is None:
            R.bad(rule, q, 'anchor missing')
            continue
        for b in [x for x in walk_local(fn) if isinstance(x, ast.BinOp) and isinstance(x.op, ast.BitAnd)]:
            for side in (b.left, b.right):
                if is_const(side) and isinstance(const(side), int):
                    m = const(side)
                    n += 1
                    R.check(m > 0 and (m & (m + 1)) == 0, rule, f'{q} | {norm(b)[:50]}', f'mask 0x{m:X} is 2^{m.bit_length()} - 1', f'`{norm(b)[:60]}`: 0x{m:X} is not a run of low one-bits, so some values of the field lose a bit on parsing (handles with that bit set are delivered to another connection or dropped) while the serialiser writes them whole', p.loc(b))
        if q.endswith('HCI_AclDataPacket.from_bytes'):
            hm = [const(s_) for x in walk_local(fn) if isinstance(x, ast.Assign) and dotted(x.targets[0]) == 'connection_handle' and isinstance(x.value, ast.BinOp) and isinstance(x.value.op, ast.BitAnd) for s_ in (x.value.left, x.value.right) if is_const(s_)]
            R.check(hm == [0xFFF], rule, q + ' | handle width', '12 bits', f'the connection handle is cut with {[hex(h) for h in hm]} instead of the 12-bit mask 0xFFF', p.loc(fn))
    R.check(n >= 6, rule, 'bumble.hci | data packet header masks', f'{n} masks, each of the form 2^k - 1', f'only {n} masks found')


def fragment_forwarded(ctx, rule='C05.fragment-forwarded', q='bumble.controller.Controller.on_hci_acl_data_packet', found='connection', forward='connection.on_hci_acl_data_packet'):
    """Once the link a packet belongs to has been found, the packet is handed to it on every path: no size or state filter
    in the dispatcher may drop a fragment (the buffer-size conventions -- an LE length of 0 means "shares the BR/EDR buffers"
    -- live in the host and in the Read Buffer Size handlers, not here)."""
    R, p = ctx.r, ctx.p
    fn = p.find(q)
    if fn is None:
        R.bad(rule, q, 'anchor missing')
        return

    class D(paths.Domain):
        # (link found?, forwarded?)
        def assume(self, atom, truth, v):
            t = norm(atom)
            if t in (found, f'{found} is not None') or (isinstance(atom, ast.NamedExpr) and atom.target.id == found):
                return ((truth, v[1]),)
            if t == f'{found} is None':
                return ((not truth, v[1]),)
            if isinstance(atom, ast.Compare) and isinstance(atom.left, ast.NamedExpr) and atom.left.target.id == found and len(atom.ops) == 1 and isinstance(atom.comparators[0], ast.Constant) and atom.comparators[0].value is None:
                isnone = truth if isinstance(atom.ops[0], ast.Is) else not truth
                return ((not isnone, v[1]),)
            return (v,)

        def event(self, node, v):
            if isinstance(node, ast.Call) and dotted(node.func) == forward:
                return ((True if v[0] is None else v[0], True),)
            return (v,)
    res = paths.run(fn, D(), (None, False))
    ex = paths.normal_exits(res)
    dropped = [' '.join(w) for v, w in ex.items() if v[0] is True and not v[1]]
    R.check(any(v[1] for v in ex) and not dropped, rule, q, f'every path on which `{found}` was found reaches {forward}(...)', f'a path finds the destination (`{found}`) and returns without calling {forward}: a well-formed fragment is dropped by a filter in the dispatcher (no completion is reported for it either, so the sender stalls)', p.loc(fn), dropped[:2])


def registered_before_emit(ctx):
    """The host enters a new link into its handle table before it tells anybody about it: a listener of the connection
    event that sends at once goes through send_acl_sdu, which drops the PDU for a handle it does not know."""
    R, p = ctx.r, ctx.p
    rule = 'C05.registered-before-emit'
    ci = p.cls('bumble.host.Host')
    if ci is None:
        R.bad(rule, 'bumble.host.Host', 'anchor missing')
        return
    TABLES = ('self.connections', 'self.cis_links', 'self.sco_links', 'self.bis_links')
    n = 0
    for name, fn in sorted(ci.methods.items()):
        stores = [s_ for s_ in walk_local(fn) if isinstance(s_, ast.Assign) and isinstance(s_.targets[0], ast.Subscript) and dotted(s_.targets[0].value) in TABLES]
        if not stores:
            continue
        n += 1
        late = []

        class D(paths.Domain):
            def event(self, node, v):
                if isinstance(node, ast.Call) and dotted(node.func) == 'self.emit':
                    return (True,)
                if isinstance(node, ast.Assign) and any(node is s_ for s_ in stores) and v:
                    late.append(node)
                return (v,)
        paths.run(fn, D(), False)
        R.check(not late, rule, f'bumble.host.Host.{name}', f'{len(stores)} table store(s), none after an emit', f'{name} announces the link (emit) before entering it into {dotted(late[0].targets[0].value) if late else "?"}: an L2CAP PDU sent from a listener of that event is dropped by send_acl_sdu ("connection not found") and never reaches the peer', p.loc(late[0]) if late else p.loc(fn))
    R.check(n >= 4, rule, 'bumble.host.Host | handlers that register links', f'{n}', f'only {n} found')


def queue_by_transport(ctx):
    """host.Connection picks its ACL queue by transport alone: LE links use the LE pool (fragment size and credits of
    LE_Read_Buffer_Size), BR/EDR links the BR/EDR pool.  Host.reset() aliases the two when the controller has no LE pool."""
    R, p = ctx.r, ctx.p
    rule = 'C05.queue-by-transport'
    fn = p.find('bumble.host.Connection.__init__')
    if fn is None:
        R.bad(rule, 'bumble.host.Connection.__init__', 'anchor missing')
        return

    def is_le(t):
        return isinstance(t, ast.Compare) and len(t.ops) == 1 and isinstance(t.ops[0], ast.Eq) and {norm(t.left), norm(t.comparators[0])} >= {'transport'} and any(x.endswith('.LE') for x in (norm(t.left), norm(t.comparators[0])))

    def run(le):
        final = set()

        def ev(e, env):
            if isinstance(e, ast.IfExp):
                if is_le(e.test):
                    return ev(e.body if le else e.orelse, env)
                return ev(e.body, env) | ev(e.orelse, env)
            if isinstance(e, ast.Name) and e.id in env:
                return set(env[e.id])
            if isinstance(e, ast.BoolOp):
                return set().union(*[ev(v, env) for v in e.values])
            return {norm(e)}

        class D(paths.Domain):
            def event(self, node, v):
                env = dict(v)
                if isinstance(node, (ast.Assign, ast.AnnAssign)) and getattr(node, 'value', None) is not None:
                    t = node.targets[0] if isinstance(node, ast.Assign) else node.target
                    if isinstance(t, ast.Name):
                        env[t.id] = frozenset(ev(node.value, env))
                        return (tuple(sorted(env.items())),)
                    if dotted(t) == 'self.acl_packet_queue':
                        final.update(ev(node.value, env))
                return (v,)

            def assume(self, atom, truth, v):
                if is_le(atom):
                    return (v,) if truth == le else ()
                return (v,)
        paths.run(fn, D(), ())
        return final
    for le, want in ((True, 'host.le_acl_packet_queue'), (False, 'host.acl_packet_queue')):
        got = run(le)
        R.check(got == {want}, rule, f'bumble.host.Connection.__init__ | {"LE" if le else "BR/EDR"} link', f'uses {want}', f'a{"n LE" if le else " BR/EDR"} link may use {sorted(got)}: its PDUs are fragmented to the other pool\'s packet length and flow-controlled with the other pool\'s credits (fragments longer than the controller accepts for that transport)', p.loc(fn))


def buffer_geometry(ctx):
    """The virtual controller reports each buffer pool with its own numbers: in the Read Buffer Size handlers every
    keyword of the return parameters is filled from the attribute of the same name (minus the `hc_` prefix)."""
    R, p = ctx.r, ctx.p
    rule = 'C05.buffer-geometry'
    n = 0
    for name in ('on_hci_read_buffer_size_command', 'on_hci_le_read_buffer_size_command', 'on_hci_le_read_buffer_size_v2_command'):
        fn = p.find(f'bumble.controller.Controller.{name}')
        if fn is None:
            R.bad(rule, f'bumble.controller.Controller.{name}', 'anchor missing')
            continue
        for c in [x for x in ast.walk(fn) if isinstance(x, ast.Call) and call_attr(x).endswith('ReturnParameters')]:
            for k in c.keywords:
                if k.arg == 'status' or not (dotted(k.value) or '').startswith('self.'):
                    continue
                n += 1
                attr = dotted(k.value)[5:]
                R.check(attr == k.arg or 'hc_' + attr == k.arg, rule, f'bumble.controller.Controller.{name} | {k.arg}', f'from self.{attr}', f'{k.arg} is answered with self.{attr}: the host sizes its fragments / credits for this pool with another pool\'s number (fragments longer than the controller accepts on that transport)', p.loc(k.value))
    R.check(n >= 8, rule, 'bumble.controller.Controller | buffer size answers', f'{n} fields', f'only {n} fields found')


def deferred_delivery(ctx):
    """The virtual controller hands its packets to the host through the event loop (call_soon), never by a direct call:
    a completion or a data packet delivered synchronously re-enters the host while it is still inside the send that
    caused it (the queue counts the packet in flight only after send() returns, a fragment sequence is interleaved with
    the reaction to its first fragment)."""
    R, p = ctx.r, ctx.p
    rule = 'C05.deferred-delivery'
    fn = p.find('bumble.controller.Controller.send_hci_packet')
    if fn is None:
        R.bad(rule, 'bumble.controller.Controller.send_hci_packet', 'anchor missing')
        return
    direct = [c for c in calls_in(fn) if dotted(c.func) == 'self.host.on_packet']
    deferred = [c for c in calls_in(fn) if call_attr(c) in ('call_soon', 'call_soon_threadsafe') and c.args and dotted(c.args[0]) == 'self.host.on_packet']
    R.check(bool(deferred) and not direct, rule, 'bumble.controller.Controller.send_hci_packet', 'delivered with call_soon', 'the controller calls host.on_packet() directly: the Number Of Completed Packets for a fragment reaches the host\'s queue before that fragment is counted as in flight (the credit is discarded as surplus and leaks), and whatever the host sends in reaction is emitted in the middle of the fragment sequence being sent', p.loc(direct[0]) if direct else p.loc(fn))


def connect_ind_address_rule(ctx):
    from .c03 import connect_ind_address
    connect_ind_address(ctx, 'C05.connect-ind-address')


RULES = [
    ('C05.connect-ind-address', connect_ind_address_rule),
    ('C05.deferred-delivery', deferred_delivery),
    ('C05.buffer-geometry', buffer_geometry),
    ('C05.queue-by-transport', queue_by_transport),
    ('C05.registered-before-emit', registered_before_emit),
    ('C05.fragment-forwarded', fragment_forwarded),
    ('C05.header-masks', header_masks),
    ('C05.format-safe', format_safe_rule),
    ('C05.completed-pairs', completed_pairs),
    ('C05.buffer-size-layout', buffer_size_layout),
    ('C05.acl-ctor', acl_ctor_binding),
    ('C05.zero-valid', zero_valid_rule),
    ('C05.queue-geometry', queue_geometry),
    ('C05.acl-fragments', acl_fragments),
    ('C05.iso-fragments', iso_fragments),
    ('C05.assembler', assembler),
    ('C05.l2cap-header', l2cap_header),
    ('C05.queue-order', queue_order),
]

VARIANTS = [
    ('acl fragment slice one byte too wide', 'bumble/host.py', "            pdu = sdu[offset : offset + max_packet_size]\n", "            pdu = sdu[offset : offset + max_packet_size + 1]\n", 'fire', 'C05.acl-fragments'),
    ('continuation flag from offset >= 0', 'bumble/host.py', "                pb_flag=1 if offset > 0 else 0,\n", "                pb_flag=1 if offset >= 0 else 0,\n", 'fire', 'C05.acl-fragments'),
    ('iso sequence number per fragment', 'bumble/host.py',
     '            bytes_remaining -= fragment_length\n            if not bytes_remaining:\n                break\n\n        iso_link.packet_sequence_number = (iso_link.packet_sequence_number + 1) & 0xFFFF\n',
     '            bytes_remaining -= fragment_length\n            iso_link.packet_sequence_number = (iso_link.packet_sequence_number + 1) & 0xFFFF\n            if not bytes_remaining:\n                break\n\n', 'fire', 'C05.iso-fragments'),
    ('iso fragment ignores header', 'bumble/host.py', "                bytes_remaining, iso_link.packet_queue.max_packet_size - header_length\n", "                bytes_remaining, iso_link.packet_queue.max_packet_size\n", 'fire', 'C05.iso-fragments'),
    ('assembler overflow keeps data', 'bumble/hci.py',
     "                logger.warning('!!! ACL data exceeds L2CAP PDU')\n                self.current_data = None\n                self.l2cap_pdu_length = 0\n", "                logger.warning('!!! ACL data exceeds L2CAP PDU')\n", 'fire', 'C05.assembler'),
    ('continuation without start poisons state', 'bumble/hci.py',
     "            if self.current_data is None:\n                logger.warning('!!! ACL continuation without start')\n                return\n",
     "            if self.current_data is None:\n                logger.warning('!!! ACL continuation without start')\n                self.current_data = b''\n", 'fire', 'C05.assembler'),
    ('threshold off by header', 'bumble/hci.py', "        if len(self.current_data) == self.l2cap_pdu_length + 4:\n", "        if len(self.current_data) == self.l2cap_pdu_length:\n", 'fire', 'C05.assembler'),
    ('controller sends whole pdu again', 'bumble/controller.py', "        max_fragment_size = 0xFFFF\n", "        max_fragment_size = 0x1FFFF\n", 'fire', 'C05.acl-fragments'),
    ('benign: log line', 'bumble/host.py', "                '>>> ACL packet enqueue: (handle=0x%04X) %s',\n", "                '>>> ACL fragment enqueue: (handle=0x%04X) %s',\n", 'silent', ''),
    ('LE queue sized with the classic packet length', 'bumble/host.py', "                max_packet_size=le_acl_data_packet_length,", "                max_packet_size=hc_acl_data_packet_length,", 'fire', 'C05.queue-geometry'),
    ('ISO queue counts LE ACL buffers', 'bumble/host.py', "                max_in_flight=total_num_iso_data_packets,", "                max_in_flight=total_num_le_acl_data_packets,", 'fire', 'C05.queue-geometry'),
]
