"""C13 — pairing ends the same way on both sides, with honest authentication."""
from __future__ import annotations

import ast

from .. import paths, waiters
from ..core import FUNC, call_attr, calls_in, const, dotted, is_const, kwarg, norm, text, walk_local

EXPLANATION = [
    'C13.negotiated-sc: smp.Session reads the configured pairing_config.sc only in __init__; protocol steps decide on the negotiated self.sc.',
    'C13.store-key-verbatim: JsonKeyStore.update / get / delete address key_map by the unmodified `name` argument (insert and lookup use the same key).',
    "C13.expected-from-argument: every KeyDistribution test in Session.compute_peer_expected_distributions is made on the function's mask parameter.",
    "C13.link-key-needs-sc: every `self.link_key = derive_link_key(self.ltk, ...)` of smp.Session is guarded by self.sc (with legacy pairing each side's ltk is its own).",
    'C13.passkey-verbatim: Session.input_passkey stores the number the user entered unchanged (the parameter of its continuation is not reassigned before `self.passkey = passkey`).',
    "C13.declared-only-reads: Session.get_long_term_key (callable at any time of a session's life) reads none of the attributes Session only declares and assigns later (ltk, ea, eb, ...) directly.",
    'C13.distribution-order: every distribute_keys() call of smp.Session is guarded by the pairing role (self.is_responder / self.is_initiator), never by the link-layer role.',
    'C13.store-condition: Manager.on_pairing stores the keys under no other condition than the presence of a key store and of an identity address.',
    'C13.stk-identifiers: the initial values of Session.ltk_rand / ltk_ediv equal the Rand / EDIV that start_encryption sends with the STK, and get_long_term_key compares the request with exactly those attributes.',
    'C13.encrypt-source: the long-term key Device.encrypt puts into LE Enable Encryption is assigned only from the key-store record of the peer (keys.ltk*.value); pairing sessions are not consulted there.',
    'C13.uncalled-predicate: done / cancelled / is_set / locked / empty used as truth values are called (a bound method is always true).',
    "C13.ltk-chain: the controller's long-term-key request reaches the pairing session with its arguments in the declared order: the arguments of `Host.long_term_key_provider(...)` have the field types the slot's Callable annotation lists, and along the get_long_term_key chain no Name argument sits at the position of a differently named parameter of the callee.",
    "C13.identity: no `is` / `is not` comparison in the anchored modules has an operand declared as a number, byte string or string (identity of equal integers holds only inside CPython's small-integer cache, so such a test is right for values up to 256 and wrong afterwards).",
    'C13.session-lifecycle: command handlers are reached only while the session has not completed; a Pairing Request for a finished session replaces it; the SC key derivations are reached only with a computed DH key.',
    'C13.zero-valid: in smp.py the presence of a passkey is always tested with `is None` / `is not None` (0 is a valid passkey).',
    'C13.stk-scope: get_long_term_key returns the STK only on paths where the pairing is legacy, not completed, and Rand/EDIV match; the LTK is returned otherwise.',
    'C13.fail-then-leave: in every Session method that can call send_pairing_failed, no protocol effect (command sent, key derived, encryption started) follows that call on any path.',
    'C13.role-symmetry: every call of s1/f5/f6/g2 is evaluated under both roles after rewriting own/peer values into initiator/responder tokens; both roles must feed the same tuple (and the specified order); a c1/f4 confirm value is verified with the tuple the other role generates it with; each side sends its own DHKey check and expects the peer\'s.',
    'C13.table: Session.PAIRING_METHODS (5x5 IO capabilities x {legacy, SC}) equals Core spec Vol 3 Part H Table 2.8 (embedded as '
    'oracle), with complementary display/input roles; decide_pairing_method indexes [initiator][responder], selects the legacy/SC '
    'column by the *negotiated* SC flag and the display flag by role, takes the Just Works shortcut iff neither side asks for MITM; '
    'both call sites pass (initiator IO, responder IO) in that order and SC is the AND of both sides.',
    'C13.auth-flag: `authenticated` is a predicate of pairing_method that is false for JUST_WORKS (exhaustive over the enum) and every stored key takes it.',
    'C13.fail-sym: SMP_Pairing_Failed_Command is constructed only in send_pairing_failed, which also fails locally; Session.on_pairing_failure (local-only failure) is called only from send_pairing_failed, the handler of the peer\'s Pairing Failed and on_disconnection; on_pairing_failure '
    'and on_pairing are idempotent through `completed`.',
    'C13.checks: every check_expected_value result is tested and its false branch leaves before encryption starts or keys are used.',
    'C13.slots: the legacy LTK slots written by on_pairing agree with the readers (Device.encrypt uses ltk_central as central, '
    'get_long_term_key answers ltk_peripheral as peripheral), evaluated over {initiator, responder} x {same, swapped roles}.',
    'C13.distribution: each role distributes under its own negotiated mask, and what a bit makes the sender send is exactly what the '
    'receiver expects for that bit; each side computes its expectations from the peer\'s mask.',
    'C13.waits: every await in smp.py on a future/event is wrapped in cancel-on-disconnection (or runs inside a wrapped task).',
    'Not decided: that both sides derive the same key for every configuration pair (runtime crypto and schedules).',
]
ASSUMPTIONS = ['Core specification 5.x Table 2.8 as transcribed in this file']

S = 'bumble.smp.Session'

# Table 2.8 oracle: [initiator][responder] -> (legacy, sc); passkey entries: ('PK', initiator_displays, responder_displays)
JW, NC = 'JUST_WORKS', 'NUMERIC_COMPARISON'
PK_ID = ('PASSKEY', True, False)   # initiator displays, responder inputs
PK_RD = ('PASSKEY', False, True)   # responder displays, initiator inputs
PK_BOTH = ('PASSKEY', False, False)
IO = ['DISPLAY_ONLY', 'DISPLAY_YES_NO', 'KEYBOARD_ONLY', 'NO_INPUT_NO_OUTPUT', 'KEYBOARD_DISPLAY']
ORACLE = {
    'DISPLAY_ONLY': {'DISPLAY_ONLY': (JW, JW), 'DISPLAY_YES_NO': (JW, JW), 'KEYBOARD_ONLY': (PK_ID, PK_ID), 'NO_INPUT_NO_OUTPUT': (JW, JW), 'KEYBOARD_DISPLAY': (PK_ID, PK_ID)},
    'DISPLAY_YES_NO': {'DISPLAY_ONLY': (JW, JW), 'DISPLAY_YES_NO': (JW, NC), 'KEYBOARD_ONLY': (PK_ID, PK_ID), 'NO_INPUT_NO_OUTPUT': (JW, JW), 'KEYBOARD_DISPLAY': (PK_ID, NC)},
    'KEYBOARD_ONLY': {'DISPLAY_ONLY': (PK_RD, PK_RD), 'DISPLAY_YES_NO': (PK_RD, PK_RD), 'KEYBOARD_ONLY': (PK_BOTH, PK_BOTH), 'NO_INPUT_NO_OUTPUT': (JW, JW), 'KEYBOARD_DISPLAY': (PK_RD, PK_RD)},
    'NO_INPUT_NO_OUTPUT': {k: (JW, JW) for k in IO},
    'KEYBOARD_DISPLAY': {'DISPLAY_ONLY': (PK_RD, PK_RD), 'DISPLAY_YES_NO': (PK_RD, NC), 'KEYBOARD_ONLY': (PK_ID, PK_ID), 'NO_INPUT_NO_OUTPUT': (JW, JW), 'KEYBOARD_DISPLAY': (PK_ID, NC)},
}


def _io_name(e):
    t = text(e)
    return t.replace('SMP_', '').replace('_IO_CAPABILITY', '')


def _entry(e):
    """AST -> 'NAME' | ('PASSKEY', bool, bool) | (legacy, sc)"""
    if isinstance(e, ast.Attribute):
        return e.attr
    if isinstance(e, ast.Tuple):
        if len(e.elts) == 3 and isinstance(e.elts[0], ast.Attribute):
            return (e.elts[0].attr, const(e.elts[1]), const(e.elts[2]))
        if len(e.elts) == 2:
            return ('PAIR', _entry(e.elts[0]), _entry(e.elts[1]))
    return ('?', text(e))


def table(ctx):
    R, p = ctx.r, ctx.p
    rule = 'C13.table'
    ci = p.cls(S)
    if ci is None or 'PAIRING_METHODS' not in ci.assigns:
        R.bad(rule, f'{S}.PAIRING_METHODS', 'anchor missing')
        return
    # the IO capability codes of the specification (Vol 3 Part H 3.5.1) and the application-facing names for them:
    # the value an application configures is the value announced on the wire and looked up in the method table
    SPEC_IO = {'DISPLAY_ONLY': 0, 'DISPLAY_YES_NO': 1, 'KEYBOARD_ONLY': 2, 'NO_INPUT_NO_OUTPUT': 3, 'KEYBOARD_DISPLAY': 4}
    DELEGATE_IO = {'DISPLAY_OUTPUT_ONLY': 'DISPLAY_ONLY', 'DISPLAY_OUTPUT_AND_YES_NO_INPUT': 'DISPLAY_YES_NO', 'KEYBOARD_INPUT_ONLY': 'KEYBOARD_ONLY',
                   'NO_OUTPUT_NO_INPUT': 'NO_INPUT_NO_OUTPUT', 'DISPLAY_OUTPUT_AND_KEYBOARD_INPUT': 'KEYBOARD_DISPLAY'}
    io = p.cls('bumble.smp.IoCapability')
    dio = p.cls('bumble.pairing.PairingDelegate.IoCapability')
    if io is None or dio is None:
        R.bad(rule, 'bumble.smp.IoCapability / bumble.pairing.PairingDelegate.IoCapability', 'anchor missing')
    else:
        vals = {k: const(v) for k, v in io.assigns.items() if is_const(v)}
        R.check(vals == SPEC_IO, rule, 'bumble.smp.IoCapability', 'the five IO capability codes of the specification', f'IO capability codes {vals} differ from the specification {SPEC_IO}', p.loc(io.node))
        got_ = {k: text(v).split('.')[-1] for k, v in dio.assigns.items() if k in DELEGATE_IO}
        R.check(got_ == DELEGATE_IO, rule, 'bumble.pairing.PairingDelegate.IoCapability', 'each application-facing capability name maps to the capability it describes',
                f'capability names are crossed: {sorted((k, v) for k, v in got_.items() if DELEGATE_IO.get(k) != v)}: a device configured with one capability announces another, and the association model no longer matches what its user can do', p.loc(dio.node))
    d = ci.assigns['PAIRING_METHODS']
    got = {}
    for k, v in zip(d.keys, d.values):
        if isinstance(v, ast.Dict):
            got[_io_name(k)] = {_io_name(k2): _entry(v2) for k2, v2 in zip(v.keys, v.values)}
    n = 0
    for i in IO:
        for r in IO:
            e = got.get(i, {}).get(r)
            if isinstance(e, tuple) and e and e[0] == 'PAIR':
                leg, sc = e[1], e[2]
            else:
                leg = sc = e
            want = ORACLE[i][r]
            for col, g, w in (('legacy', leg, want[0]), ('sc', sc, want[1])):
                n += 1
                R.check(g == w, rule, f'{S}.PAIRING_METHODS[{i}][{r}].{col}', f'{w}', f'initiator {i} / responder {r} ({col}): table says {g}, Core spec Table 2.8 says {w}', p.loc(d))
    # decide_pairing_method
    fn = ci.methods.get('decide_pairing_method')
    if fn is None:
        R.bad(rule, f'{S}.decide_pairing_method', 'anchor missing')
        return
    src = norm(fn)
    params = [a.arg for a in fn.args.args[1:]]
    R.check(params == ['auth_req', 'initiator_io_capability', 'responder_io_capability'] and 'self.PAIRING_METHODS[initiator_io_capability][responder_io_capability]' in src, rule, f'{S}.decide_pairing_method | index order', 'table indexed [initiator][responder]', 'table is not indexed [initiator][responder]', p.loc(fn))
    R.check('details = details[1 if self.sc else 0]' in src, rule, f'{S}.decide_pairing_method | column', 'legacy/SC column chosen by the negotiated SC flag (self.sc)', 'the legacy/SC column is not chosen by the negotiated `self.sc` (a side configured for SC but negotiating legacy picks the SC model while its peer picks the legacy one)', p.loc(fn))
    R.check('self.passkey_display = details[1 if self.is_initiator else 2]' in src, rule, f'{S}.decide_pairing_method | display role', 'initiator takes flag 1, responder flag 2', 'display/input role is not taken from the entry by role', p.loc(fn))
    jw = [n_ for n_ in walk_local(fn) if isinstance(n_, ast.If) and 'AuthReq.MITM' in norm(n_.test)]
    R.check(len(jw) == 1 and norm(jw[0].test) == 'not self.mitm and auth_req & AuthReq.MITM == 0' and 'self.pairing_method = PairingMethod.JUST_WORKS' in norm(jw[0]), rule, f'{S}.decide_pairing_method | MITM shortcut', 'Just Works iff neither side sets MITM', 'the Just Works shortcut is not "neither side asks for MITM"', p.loc(fn))
    # the local MITM requirement is this device's configuration: it is not narrowed by what the peer sent (the shortcut is an OR
    # over the two sides: ANDing the flags first turns a one-sided MITM requirement into Just Works on one or both ends)
    mw = sorted({m_ for m_, f_ in ci.methods.items() for n_ in walk_local(f_) if isinstance(n_, (ast.Assign, ast.AugAssign, ast.AnnAssign)) for t_ in (n_.targets if isinstance(n_, ast.Assign) else [n_.target]) if dotted(t_) == 'self.mitm'})
    R.check(mw == ['__init__'], rule, f'{S} | self.mitm writers', 'set once from the pairing configuration', f'`self.mitm` is also assigned in {[m_ for m_ in mw if m_ != "__init__"]}: the local MITM requirement is changed by the peer\'s flags before the association model is chosen (MITM is required when either side asks for it)', p.loc(fn))
    # call sites
    for hname, want_args in (('on_smp_pairing_request_command_async', ['command.auth_req', 'command.io_capability', 'self.io_capability']), ('on_smp_pairing_response_command', ['command.auth_req', 'self.io_capability', 'command.io_capability'])):
        h = ci.methods.get(hname)
        if h is None:
            R.bad(rule, f'{S}.{hname}', 'anchor missing')
            continue
        calls = [c for c in calls_in(h) if dotted(c.func) == 'self.decide_pairing_method']
        R.check(len(calls) == 1 and [norm(a) for a in calls[0].args] == want_args, rule, f'{S}.{hname} | decide arguments', f'({", ".join(want_args)})', f'decide_pairing_method called with {[norm(a) for a in calls[0].args] if calls else None}: initiator/responder IO capabilities swapped or wrong', p.loc(h))
        neg = [norm(n_.value) for n_ in walk_local(h) if isinstance(n_, ast.Assign) and dotted(n_.targets[0]) == 'self.sc']
        R.check(neg == ['self.sc and command.auth_req & AuthReq.SC != 0'], rule, f'{S}.{hname} | SC negotiation', 'SC = ours AND theirs, before the method is decided', f'SC negotiation is {neg}', p.loc(h))
        if calls and neg:
            a = next(n_ for n_ in walk_local(h) if isinstance(n_, ast.Assign) and dotted(n_.targets[0]) == 'self.sc')
            R.check(a.lineno < calls[0].lineno, rule, f'{S}.{hname} | order', 'SC negotiated before the association model is chosen', 'association model chosen before SC is negotiated', p.loc(h))
    R.floor(rule, 55, 'table cells + decision obligations')


def auth_flag(ctx):
    R, p = ctx.r, ctx.p
    rule = 'C13.auth-flag'
    fn = p.find(f'{S}.on_pairing')
    pm = p.cls('bumble.smp.PairingMethod')
    if fn is None or pm is None:
        R.bad(rule, f'{S}.on_pairing', 'anchor missing')
        return
    defs = [n for n in walk_local(fn) if isinstance(n, ast.Assign) and dotted(n.targets[0]) == 'authenticated']
    ok = len(defs) == 1 and norm(defs[0].value) == 'self.pairing_method != PairingMethod.JUST_WORKS'
    members = sorted(k for k, v in pm.assigns.items() if is_const(v))
    R.check(ok, rule, f'{S}.on_pairing | predicate', f'authenticated := method != JUST_WORKS; over {members}: true exactly on the MITM-protected LE models (PASSKEY, NUMERIC_COMPARISON, OOB)', f'authenticated is computed as {[norm(d.value) for d in defs]}: keys from Just Works pairing could be marked authenticated', p.loc(fn))
    keys = [c for c in calls_in(fn) if norm(c.func) == 'PairingKeys.Key']
    bad = [c for c in keys if kwarg(c, 'authenticated') is None or norm(kwarg(c, 'authenticated')) != 'authenticated']
    R.check(len(keys) >= 5 and not bad, rule, f'{S}.on_pairing | every key takes the flag', f'{len(keys)} stored keys all use `authenticated`', f'{len(bad)} stored key(s) do not take the computed authenticated flag', p.loc(fn))
    R.check('PASSKEY' in members and 'NUMERIC_COMPARISON' in members and 'OOB' in members and 'JUST_WORKS' in members, rule, 'bumble.smp.PairingMethod', f'members {members}', 'pairing method enum changed', '')


def fail_sym(ctx):
    R, p = ctx.r, ctx.p
    rule = 'C13.fail-sym'
    m = p.modules.get('bumble.smp')
    ci = p.cls(S)
    if m is None or ci is None:
        R.bad(rule, S, 'anchor missing')
        return
    sites = []
    for fn in [x for x in ast.walk(m.tree) if isinstance(x, FUNC)]:
        for c in calls_in(fn):
            if call_attr(c) == 'SMP_Pairing_Failed_Command':
                sites.append((p.qual_of(fn), c))
    for q, c in sites:
        R.check(q == f'{S}.send_pairing_failed', rule, f'{q} | constructs Pairing Failed', 'only send_pairing_failed tells the peer about a failure', f'{q} sends Pairing Failed to the peer without failing the local session: the local pair() keeps waiting', p.loc(c))
    sp = ci.methods.get('send_pairing_failed')
    if sp is None:
        R.bad(rule, f'{S}.send_pairing_failed', 'anchor missing')
    else:
        calls = [dotted(c.func) for c in calls_in(sp)]
        R.check('self.send_command' in calls and 'self.on_pairing_failure' in calls, rule, f'{S}.send_pairing_failed', 'sends the command and fails locally', 'send_pairing_failed no longer fails the local session', p.loc(sp))
    for name, first in (('on_pairing_failure', None), ('on_pairing', None)):
        fn = ci.methods.get(name)
        if fn is None:
            R.bad(rule, f'{S}.{name}', 'anchor missing')
            continue
        ifs = [n for n in fn.body if isinstance(n, ast.If) and norm(n.test) == 'self.completed' and isinstance(n.body[0], ast.Return)]
        sets = [n for n in fn.body if isinstance(n, ast.Assign) and norm(n) == 'self.completed = True']
        ok = len(ifs) == 1 and len(sets) == 1 and fn.body.index(ifs[0]) < fn.body.index(sets[0])
        uses = [n for n in fn.body if 'pairing_result' in norm(n) or 'manager.on_pairing' in norm(n)]
        ok = ok and all(fn.body.index(u) > fn.body.index(sets[0]) for u in uses)
        R.check(ok, rule, f'{S}.{name} | idempotent', 'returns if completed, sets completed before touching the result or the manager', f'{name} can report an outcome twice or after the other outcome was reported', p.loc(fn))
    of = ci.methods.get('on_pairing_failure')
    if of is not None:
        R.check('self.pairing_result.set_exception(error)' in norm(of) and 'self.manager.on_pairing_failure(self, reason)' in norm(of), rule, f'{S}.on_pairing_failure | reports', 'pair() caller and manager are told', 'failure is not reported to the waiting pair() call / manager', p.loc(of))
    # who may fail only locally: the handler of the peer's Pairing Failed (the peer already knows) and send_pairing_failed
    # (which has just told it); every other place that gives up must go through send_pairing_failed
    LOCAL_ONLY = {'send_pairing_failed': 'has just sent Pairing Failed', 'on_smp_pairing_failed_command': 'the peer declared the failure',
                  'on_disconnection': 'the link is gone: nobody to tell'}
    callers = [(q, c) for fn in [x for x in ast.walk(m.tree) if isinstance(x, FUNC)] for c in calls_in(fn, include_lambda=True) if dotted(c.func) == 'self.on_pairing_failure' for q in [p.qual_of(fn)]]
    callers = [(q, c) for q, c in callers if q.startswith(S + '.')]
    for q, c in callers:
        top = q[len(S) + 1:].split('.')[0]
        R.check(top in LOCAL_ONLY, rule, f'{q} | local-only failure', f'fails the session without telling the peer: {LOCAL_ONLY.get(top, "")}',
                f'{q} gives up locally (on_pairing_failure) without sending Pairing Failed: the peer keeps waiting for the next step and its pair() never ends', p.loc(c))
    R.check(len(callers) >= 2, rule, f'{S} | local failure sites', f'{len(callers)} call sites of Session.on_pairing_failure', f'only {len(callers)} call sites found')
    pf = ci.methods.get('on_smp_pairing_failed_command')
    if pf is not None:
        R.check('self.on_pairing_failure(' in norm(pf), rule, f'{S}.on_smp_pairing_failed_command', 'a failure from the peer fails the local session', 'Pairing Failed from the peer does not fail the local session', p.loc(pf))
    # the Pairing Request is handled in a task of its own: what raises there (an IO capability outside the table, a failing
    # delegate) must fail the pairing on both sides as well, nobody awaits that task
    rq = ci.methods.get('on_smp_pairing_request_command')
    if rq is None:
        R.bad(rule, f'{S}.on_smp_pairing_request_command', 'anchor missing')
    else:
        spawned = [c for c in calls_in(rq) if call_attr(c) == 'cancel_on_disconnection' and c.args and isinstance(c.args[0], ast.Call)]
        okr = bool(spawned)
        for c in spawned:
            target = dotted(c.args[0].func) or ''
            wrapper = next((f for f in ast.walk(rq) if isinstance(f, FUNC) and f is not rq and f.name == target), None)
            cont = False
            if wrapper is not None:
                for t in [x for x in ast.walk(wrapper) if isinstance(x, ast.Try)]:
                    awaited = any(isinstance(x, ast.Await) and 'on_smp_pairing_request_command_async' in norm(x) for s_ in t.body for x in ast.walk(s_))
                    handled = any((h.type is None or text(h.type).split('.')[-1] in ('Exception', 'BaseException')) and any(dotted(x.func) == 'self.send_pairing_failed' for x in ast.walk(h) if isinstance(x, ast.Call)) for h in t.handlers)
                    cont = cont or (awaited and handled)
            okr = okr and cont
        R.check(okr, rule, f'{S}.on_smp_pairing_request_command | task exception', 'the request-handling task is wrapped: an exception there sends Pairing Failed and fails the local session',
                'an exception in the task that handles the Pairing Request (e.g. an IO capability outside the method table) is lost with the task: no Pairing Failed is sent and the initiator waits for a response that never comes', p.loc(rq))
    oc = ci.methods.get('on_smp_command')
    if oc is not None:
        hs = [h for h in ast.walk(oc) if isinstance(h, ast.ExceptHandler)]
        ok = len(hs) == 1 and any(dotted(c.func) == 'self.send_pairing_failed' for c in ast.walk(hs[0]) if isinstance(c, ast.Call))
        R.check(ok, rule, f'{S}.on_smp_command | handler exception', 'an exception in a handler fails both sides via send_pairing_failed', 'an exception in a command handler is not turned into a two-sided failure', p.loc(oc))


def checks(ctx):
    R, p = ctx.r, ctx.p
    rule = 'C13.checks'
    ci = p.cls(S)
    if ci is None:
        R.bad(rule, S, 'anchor missing')
        return
    n = 0
    for name, m in sorted(ci.methods.items()):
        for c in calls_in(m):
            if dotted(c.func) == 'self.check_expected_value':
                n += 1
                par = getattr(c, '_parent', None)
                ok = False
                if isinstance(par, ast.UnaryOp) and isinstance(par.op, ast.Not):
                    iff = getattr(par, '_parent', None)
                    ok = isinstance(iff, ast.If) and iff.test is par and paths._always_leaves(iff.body)
                R.check(ok, rule, f'{S}.{name} | check #{n}', 'result tested; mismatch leaves the handler', 'the result of a confirm/DHKey check is ignored or does not stop the handler', p.loc(c))
                # nothing sensitive before the check in the same handler after... : start_encryption / key use dominated
    ce = ci.methods.get('check_expected_value')
    if ce is not None:
        s = norm(ce)
        R.check('if expected != received:' in s and 'self.send_pairing_failed(error)' in s and 'return False' in s and s.rstrip().endswith('return True'), rule, f'{S}.check_expected_value', 'mismatch fails the pairing on both sides and returns False', 'check_expected_value changed', p.loc(ce))
    # start_encryption sites are dominated by the checks of their handler
    for name, m in sorted(ci.methods.items()):
        for c in calls_in(m):
            if dotted(c.func) in ('self.start_encryption',) or (call_attr(c) == 'start_encryption'):
                chk = [x for x in calls_in(m) if dotted(x.func) == 'self.check_expected_value']
                if chk:
                    R.check(all(x.lineno < c.lineno for x in chk), rule, f'{S}.{name} | encryption after checks', 'encryption starts only after the checks of this handler', 'encryption is started before a check of the same handler', p.loc(c))
    R.floor(rule, 6, 'check sites')


def slots(ctx):
    R, p = ctx.r, ctx.p
    rule = 'C13.slots'
    fn = p.find(f'{S}.on_pairing')
    enc = p.find('bumble.device.Device.encrypt')
    glk = p.find('bumble.device.Device.get_long_term_key')
    if fn is None or enc is None or glk is None:
        R.bad(rule, f'{S}.on_pairing', 'anchor missing: on_pairing / Device.encrypt / Device.get_long_term_key')
        return
    # writer: slot -> abstract key per pairing role
    def writer(role_initiator):
        out = {}

        def walk(stmts):
            for s in stmts:
                if isinstance(s, ast.If):
                    t = norm(s.test)
                    if t == 'self.is_initiator':
                        walk(s.body if role_initiator else s.orelse)
                    elif t in ('self.is_responder', 'not self.is_initiator'):
                        walk(s.orelse if role_initiator else s.body)
                    else:
                        walk(s.body)
                        walk(s.orelse)
                elif isinstance(s, ast.Assign) and (dotted(s.targets[0]) or '').startswith('keys.ltk_'):
                    out[dotted(s.targets[0])[5:]] = key_source(s.value)
        walk(fn.body)
        return out

    def key_source(v):
        # the key material a stored PairingKeys.Key carries: `self.ltk` (generated here) or `self.peer_ltk` (received)
        if isinstance(v, ast.Name):
            defs = [n.value for n in walk_local(fn) if isinstance(n, ast.Assign) and dotted(n.targets[0]) == v.id]
            return key_source(defs[0]) if len(defs) == 1 else None
        if isinstance(v, ast.Call) and call_attr(v) == 'Key':
            val = kwarg(v, 'value')
            t = norm(val) if val is not None else ''
            if t in ('self.ltk',):
                return 'our_ltk_key'
            if t in ('self.peer_ltk', "self.peer_ltk or b''"):
                return 'peer_ltk_key'
        return None

    abstract = {True: {'our_ltk_key': 'K_I', 'peer_ltk_key': 'K_R'}, False: {'our_ltk_key': 'K_R', 'peer_ltk_key': 'K_I'}}
    store = {}
    for role in (True, False):
        w = writer(role)
        store[role] = {slot: abstract[role].get(v, v) for slot, v in w.items()}
    R.extra['ltk_slot_table'] = {('initiator' if r else 'responder'): v for r, v in store.items()}
    # readers
    enc_src, glk_src = norm(enc), norm(glk)
    central_slot = 'ltk_central' if 'keys.ltk_central.value' in enc_src else None
    periph_slot = 'ltk_peripheral' if 'connection.role == hci.Role.PERIPHERAL and keys.ltk_peripheral' in glk_src and 'return keys.ltk_peripheral.value' in glk_src else None
    central_when_central = 'connection.role == hci.Role.CENTRAL and keys.ltk_central' in glk_src
    R.check(central_slot == 'ltk_central' and periph_slot == 'ltk_peripheral' and central_when_central, rule, 'bumble.device.Device | readers', 'central encrypts with ltk_central; peripheral answers ltk_peripheral', 'key selection on re-encryption changed', p.loc(glk))
    if central_slot and periph_slot:
        for arrangement, central_is_initiator in (('same roles', True), ('swapped roles', False)):
            c_store = store[central_is_initiator]
            p_store = store[not central_is_initiator]
            kc, kp = c_store.get(central_slot), p_store.get(periph_slot)
            R.check(kc is not None and kc == kp, rule, f'{S}.on_pairing | legacy LTK, {arrangement}', f'central uses {kc}, peripheral answers {kp}',
                    f'after legacy bonding, on reconnection in {arrangement} the central (pairing {"initiator" if central_is_initiator else "responder"}) uses {kc} but the peripheral answers {kp}: encryption fails', p.loc(fn))
    # only keys that were really exchanged are stored: the peer's key under a test that one was received, our own under a
    # test that our negotiated key distribution contains ENC_KEY
    for slot, need in (('ltk_central', lambda g: any(t == 'self.peer_ltk' and pol for t, pol in g)), ('ltk_peripheral', lambda g: any('ENC_KEY' in t and 'key_distribution' in t and pol for t, pol in g))):
        st_ = [n for n in walk_local(fn) if isinstance(n, ast.Assign) and dotted(n.targets[0]) == f'keys.{slot}']
        g = [(norm(t), pol) for n in st_ for t, pol in paths.flat_guards(n)]
        R.check(len(st_) == 1 and need(g), rule, f'{S}.on_pairing | {slot} only if exchanged', 'stored only when that key was actually distributed in this pairing',
                f'keys.{slot} is stored whether or not the key was exchanged: with a one-sided ENC_KEY distribution a store holds an empty key or an LTK the peer never received, and the two sides disagree on a later connection', p.loc(st_[0]) if st_ else p.loc(fn))
    # SC: one shared ltk slot, read first by both readers
    R.check('keys.ltk = PairingKeys.Key(value=self.ltk, authenticated=authenticated)' in norm(fn) and 'if keys.ltk:' in glk_src, rule, f'{S}.on_pairing | SC LTK', 'single ltk slot written and read first', 'SC LTK slot handling changed', p.loc(fn))
    # EDIV/Rand are stored with the key they belong to
    src = norm(fn)
    R.check('ediv=self.ltk_ediv, rand=self.ltk_rand' in src and 'ediv=self.peer_ediv, rand=self.peer_rand' in src, rule, f'{S}.on_pairing | ediv/rand', 'our key with our EDIV/Rand, peer key with the peer\'s', 'EDIV/Rand stored with the wrong key', p.loc(fn))


def distribution(ctx):
    R, p = ctx.r, ctx.p
    rule = 'C13.distribution'
    ci = p.cls(S)
    dk = ci.methods.get('distribute_keys') if ci else None
    cp = ci.methods.get('compute_peer_expected_distributions') if ci else None
    if dk is None or cp is None:
        R.bad(rule, f'{S}.distribute_keys', 'anchor missing')
        return
    top = next((n for n in dk.body if isinstance(n, ast.If) and norm(n.test) == 'self.is_initiator'), None)
    if top is None:
        R.bad(rule, f'{S}.distribute_keys | role split', '`if self.is_initiator:` split not found', p.loc(dk))
        return
    sent = {}
    for role, blk, own, other in (('initiator', top.body, 'self.initiator_key_distribution', 'self.responder_key_distribution'), ('responder', top.orelse, 'self.responder_key_distribution', 'self.initiator_key_distribution')):
        wrong = [norm(x) for s in blk for x in ast.walk(s) if isinstance(x, ast.Attribute) and norm(x) == other]
        R.check(not wrong, rule, f'{S}.distribute_keys | {role} uses its own mask', f'every test in the {role} branch reads {own}', f'the {role} branch tests the other side\'s mask ({other}): with asymmetric masks one side waits for a key that is never sent', p.loc(blk[0]))
        per_bit = {}
        for s in blk:
            for n in ast.walk(s):
                if isinstance(n, ast.If):
                    bits = [b.attr for b in ast.walk(n.test) if isinstance(b, ast.Attribute) and isinstance(b.value, ast.Name) and b.value.id == 'KeyDistribution']
                    if len(bits) == 1:
                        cmds = {call_attr(a) for c in ast.walk(n) if isinstance(c, ast.Call) and dotted(c.func) == 'self.send_command' for a in c.args if isinstance(a, ast.Call)}
                        # helpers of this class that send exactly one kind of command
                        for c in ast.walk(n):
                            if isinstance(c, ast.Call) and (dotted(c.func) or '').startswith('self.send_') and dotted(c.func)[5:] in ci.methods and dotted(c.func) != 'self.send_command':
                                h = ci.methods[dotted(c.func)[5:]]
                                cmds |= {call_attr(a) for x in ast.walk(h) if isinstance(x, ast.Call) and dotted(x.func) == 'self.send_command' for a in x.args if isinstance(a, ast.Call)}
                        per_bit.setdefault(bits[0], set()).update(cmds)
        sent[role] = per_bit
    expected = {}
    for n in ast.walk(cp):
        if isinstance(n, ast.If):
            bits = [b.attr for b in ast.walk(n.test) if isinstance(b, ast.Attribute) and isinstance(b.value, ast.Name) and b.value.id == 'KeyDistribution']
            if len(bits) == 1:
                cmds = sorted({norm(c.args[0]) for c in ast.walk(n) if isinstance(c, ast.Call) and (dotted(c.func) or '').endswith('peer_expected_distributions.append')})
                expected.setdefault(bits[0], set()).update(cmds)
    for role in ('initiator', 'responder'):
        for bit in ('ENC_KEY', 'ID_KEY', 'SIGN_KEY'):
            s_, e_ = sent[role].get(bit, set()), expected.get(bit, set())
            R.check(s_ == e_ and bool(s_), rule, f'{S} | {role} {bit}', f'sends {sorted(s_)} = what the receiver expects', f'{bit}: the {role} sends {sorted(s_)} but the receiver waits for {sorted(e_)}', p.loc(dk))
    # each side computes its expectations from the peer's mask
    for hname, want in (('on_smp_pairing_request_command_async', 'self.initiator_key_distribution'), ('on_smp_pairing_response_command', 'self.responder_key_distribution')):
        h = ci.methods.get(hname)
        calls = [c for c in calls_in(h) if dotted(c.func) == 'self.compute_peer_expected_distributions'] if h else []
        R.check(len(calls) == 1 and norm(calls[0].args[0]) == want, rule, f'{S}.{hname} | expectations', f'expects what the peer distributes ({want})', f'expectations computed from {[norm(c.args[0]) for c in calls]}', p.loc(h) if h else '')
    h = ci.methods.get('on_smp_pairing_response_command')
    if h is not None:
        s = norm(h)
        R.check('self.initiator_key_distribution = command.initiator_key_distribution' in s and 'self.responder_key_distribution = command.responder_key_distribution' in s and 'command.initiator_key_distribution & ~self.initiator_key_distribution != 0' in s, rule, f'{S}.on_smp_pairing_response_command | masks adopted', 'the response masks (subset of the request) become the negotiated masks', 'negotiated masks are not taken from the response', p.loc(h))
    ck = ci.methods.get('check_key_distribution')
    if ck is not None:
        s = norm(ck)
        R.check('if not self.connection.is_encrypted:' in s and 'self.peer_expected_distributions.remove(command_class)' in s and 'self.on_peer_key_distribution_complete()' in s and s.count('self.send_pairing_failed(') == 2, rule, f'{S}.check_key_distribution', 'keys accepted only on an encrypted link, only when expected; completion when none remain', 'key distribution gating changed', p.loc(ck))


def waits(ctx):
    from .c09 import waiter_rule
    # Session futures are awaited through connection.cancel_on_disconnection; prompts run inside wrapped tasks
    exceptions = {}
    R, p = ctx.r, ctx.p
    aws = waiters.census(p, ['bumble.smp'])
    n = 0
    for aw in aws:
        if aw.kind == 'wrapped':
            n += 1
            R.ok('C13.waits', aw.key(), 'wrapped in cancel_on_disconnection', aw.loc)
        elif aw.kind in ('bare-future', 'bare-event'):
            n += 1
            # accepted when the enclosing coroutine is only ever started through cancel_on_disconnection
            fn = aw.fn
            owner = p.class_of(fn)
            started_wrapped = False
            top = fn
            while getattr(top, '_parent', None) is not None and not isinstance(top._parent, ast.ClassDef):
                top = top._parent
                if isinstance(top, FUNC):
                    break
            outer = top if isinstance(top, FUNC) else fn
            if owner is None:
                owner = p.class_of(outer)
            if owner is not None:
                spawns = []
                for m in owner.methods.values():
                    for c in ast.walk(m):
                        if isinstance(c, ast.Call) and call_attr(c) == 'cancel_on_disconnection' and c.args and isinstance(c.args[0], ast.Call) and call_attr(c.args[0]) in (fn.name, outer.name):
                            spawns.append(c)
                started_wrapped = bool(spawns)
            R.check(started_wrapped, 'C13.waits', aw.key(), 'the enclosing coroutine is started through cancel_on_disconnection', f'bare await on `{aw.target}` in a coroutine that is not tied to the connection: it waits forever if the link drops', aw.loc)
    R.floor('C13.waits', 3, 'awaits')



# --------------------------------------------------------------------------- role symmetry of key derivations
_PRIM = {
    'self.r': ('OWN', 'r'), 'command.random_value': ('PEER', 'r'), 'self.peer_random_value': ('PEER', 'r'),
    'self.ecc_key.x[::-1]': ('OWN', 'pk'), 'self.peer_public_key_x': ('PEER', 'pk'),
    'self_address': ('OWN', 'addr'), 'peer_address': ('PEER', 'addr'),
    # in OOB pairing bumble uses the OOB random as the side's nonce as well
    'self.peer_oob_data.r': ('PEER', 'r'),
}
_SIDE = {'I': {'OWN': 'A', 'PEER': 'B'}, 'R': {'OWN': 'B', 'PEER': 'A'}}


class _Abs(ast.NodeTransformer):
    """Rewrite an expression of smp.Session into role-absolute tokens (A = initiator, B = responder)."""

    def __init__(self, prog, cls, role, depth=0):
        self.prog, self.cls, self.role, self.depth = prog, cls, role, depth

    def _tok(self, side, what):
        return ast.Name(id=f'{_SIDE[self.role][side]}_{what}', ctx=ast.Load())

    def _role_test(self, t):
        n = norm(t)
        if n == 'self.is_initiator':
            return self.role == 'I'
        if n == 'self.is_responder':
            return self.role == 'R'
        if n == 'not self.is_initiator':
            return self.role == 'R'
        return None

    def visit(self, node):
        n = norm(node) if isinstance(node, ast.expr) else None
        if n in _PRIM:
            return self._tok(*_PRIM[n])
        return super().visit(node)

    def visit_IfExp(self, node):
        v = self._role_test(node.test)
        if v is None:
            return self.generic_visit(node)
        return self.visit(node.body if v else node.orelse)

    def visit_Subscript(self, node):
        val = self.visit(node.value)
        sl = self.visit(node.slice)
        if isinstance(val, ast.Tuple) and isinstance(sl, ast.Constant) and isinstance(sl.value, int):
            return val.elts[sl.value]
        return ast.Subscript(value=val, slice=sl, ctx=node.ctx)

    def visit_Attribute(self, node):
        d = dotted(node)
        if d and d.startswith('self.') and d.count('.') == 1 and self.depth < 4:
            name = d[5:]
            m = self.cls.methods.get(name)
            if m is not None and any(text(x) == 'property' for x in m.decorator_list):
                rets = [x.value for x in walk_local(m) if isinstance(x, ast.Return)]
                if len(rets) == 1:
                    return _Abs(self.prog, self.cls, self.role, self.depth + 1).visit(ast.parse(norm(rets[0]), mode='eval').body)
            # role-dependent attributes set in __init__
            init = self.cls.methods.get('__init__')
            for iff in [x for x in walk_local(init) if isinstance(x, ast.If)] if init is not None else []:
                v = self._role_test(iff.test)
                if v is None:
                    continue
                for st in (iff.body if v else iff.orelse):
                    if isinstance(st, ast.Assign) and dotted(st.targets[0]) == d:
                        return _Abs(self.prog, self.cls, self.role, self.depth + 1).visit(ast.parse(norm(st.value), mode='eval').body)
        return self.generic_visit(node)


def _abs(prog, cls, role, e) -> str:
    e = ast.parse(e if isinstance(e, str) else norm(e), mode='eval').body
    t = _Abs(prog, cls, role).visit(e)
    ast.fix_missing_locations(t)
    return norm(t)


def role_symmetry(ctx):
    """Both roles feed the key-derivation functions the same initiator/responder values; a confirm value is verified with the arguments it was generated with."""
    from .. import sym
    R, p = ctx.r, ctx.p
    rule = 'C13.role-symmetry'
    cls = p.cls(S)
    if cls is None:
        R.bad(rule, S, 'anchor missing')
        return
    # 1. the role-absolute accessors mean what their names say
    want = {'self.pka': 'A_pk', 'self.pkb': 'B_pk', 'self.na': 'A_r', 'self.nb': 'B_r', 'self.ia': 'bytes(A_addr)', 'self.ra': 'bytes(B_addr)',
            'self.iat': '1 if A_addr.is_random else 0', 'self.rat': '1 if B_addr.is_random else 0'}
    for acc, w in want.items():
        got = {role: _abs(p, cls, role, acc) for role in 'IR'}
        R.check(got == {'I': w, 'R': w}, rule, f'{S} | {acc}', f'{w} for both roles', f'{acc} evaluates to {got["I"]} on the initiator and {got["R"]} on the responder (expected {w} on both): the two sides feed different values into the same derivation', p.loc(cls.node))
    # 2. collect crypto calls per role
    calls = {}   # (function qualname, crypto fn, ordinal) -> {role: tuple}
    fns = []
    for m in cls.methods.values():
        fns.append(m)
        for x in ast.walk(m):
            if isinstance(x, FUNC) and x is not m:
                fns.append(x)
    for fn in fns:
        own_calls = [c for c in calls_in(fn) if (dotted(c.func) or '').startswith('crypto.') and dotted(c.func)[7:] in ('s1', 'c1', 'f4', 'f5', 'f6', 'g2')]
        if not own_calls:
            continue
        for role in 'IR':
            seen = {}

            class D(sym.Sym):
                def on_event(self, node, extra, facts, store):
                    if isinstance(node, ast.Call) and node in own_calls:
                        args = tuple(_abs(p, cls, role, self.expr(a, store)) for a in node.args)
                        seen.setdefault(own_calls.index(node), set()).add(args)
                    return extra
            init = (frozenset({('self.is_initiator', role == 'I'), ('self.is_responder', role == 'R')}), frozenset(), None)
            keep = sym.slice_locals(fn, [a for c in own_calls for a in c.args])
            try:
                paths.run(fn, D(fact_filter=lambda t: t in ('self.is_initiator', 'self.is_responder'), store_filter=lambda t: t in keep), init)
            except Exception as e:  # e.g. a loop re-assigning: fall back to store-less evaluation
                for i, c in enumerate(own_calls):
                    seen.setdefault(i, set()).add(tuple(_abs(p, cls, role, a) for a in c.args))
            for i, tuples in seen.items():
                calls.setdefault((p.qual_of(fn) if hasattr(p, 'qual_of') else fn.name, dotted(own_calls[i].func)[7:], i), {})[role] = tuples
    derive = {k: v for k, v in calls.items() if k[1] in ('s1', 'f5', 'f6', 'g2')}
    ORACLE = {'s1': ('self.tk', 'B_r', 'A_r'), 'g2': ('A_pk', 'B_pk', 'A_r', 'B_r')}
    n = 0
    for (fq, cf, i), per in sorted(derive.items()):
        n += 1
        both = per.get('I'), per.get('R')
        ok = both[0] is not None and both[0] == both[1]
        R.check(ok, rule, f'{fq} | {cf}#{i + 1} same arguments on both sides', f'{cf}{sorted(both[0])[0] if both[0] else ""} for initiator and responder',
                f'{cf} is fed {sorted(per.get("I") or [])} by the initiator and {sorted(per.get("R") or [])} by the responder: the two sides derive different keys', p.loc(cls.methods.get(fq.split(".")[-1], cls.node)))
        if ok and cf in ORACLE:
            t = next(iter(both[0]))
            R.check(all(x[:len(ORACLE[cf])] == ORACLE[cf] for x in both[0]), rule, f'{fq} | {cf}#{i + 1} argument order', f'{cf}{ORACLE[cf]} as in the specification', f'{cf} is called with {t}, the specification orders them {ORACLE[cf]}', p.loc(cls.node))
    R.check(n >= 4, rule, f'{S} | key derivations', f'{n} derivation calls (s1, f5, f6 x2, g2) evaluated under both roles', f'only {n} derivation calls found')
    # 3. confirm values: what one role generates is what the other verifies
    gen = {}
    ver = {}
    for (fq, cf, i), per in calls.items():
        if cf not in ('c1', 'f4'):
            continue
        bucket = gen if 'send_pairing_confirm' in fq else (ver if 'on_smp_pairing_random' in fq else None)
        if bucket is None:
            continue
        for role, tuples in per.items():
            for t in tuples:
                bucket.setdefault((cf, role), set()).add(t[:3] if cf == 'f4' else t)
    for cf in ('c1', 'f4'):
        for role, other in (('I', 'R'), ('R', 'I')):
            v = ver.get((cf, role), set())
            g = gen.get((cf, other), set())
            if not v and not g:
                continue
            R.check(bool(v) and v <= g, rule, f'{S} | {cf} verified by {"initiator" if role == "I" else "responder"}', f'verifies with {sorted(v)}: what the {"responder" if role == "I" else "initiator"} generates',
                    f'the {"initiator" if role == "I" else "responder"} verifies the peer\'s confirm value with {cf}{sorted(v)} but the peer generates it with {cf}{sorted(g)}: pairing fails (or a wrong value is accepted)', p.loc(cls.node))
    # 4. DHKey check: each side sends its own and expects the peer's
    snd = cls.methods.get('send_pairing_dhkey_check_command')
    rcv = cls.methods.get('on_smp_pairing_dhkey_check_command')
    if snd is not None and rcv is not None:
        c = next((c for c in calls_in(snd) if call_attr(c) == 'SMP_Pairing_DHKey_Check_Command'), None)
        sent = {role: _abs(p, cls, role, kwarg(c, 'dhkey_check', 0)) for role in 'IR'} if c is not None else {}
        ex = next((n_.value for n_ in walk_local(rcv) if isinstance(n_, ast.Assign) and dotted(n_.targets[0]) == 'expected'), None)
        exp = {role: _abs(p, cls, role, ex) for role in 'IR'} if ex is not None else {}
        R.check(sent == {'I': 'self.ea', 'R': 'self.eb'} and exp == {'I': 'self.eb', 'R': 'self.ea'}, rule, f'{S} | DHKey check exchange', 'initiator sends Ea and expects Eb; responder sends Eb and expects Ea', f'DHKey checks sent {sent} / expected {exp}', p.loc(rcv))



def stk_scope(ctx):
    """The short-term key answers an LTK request only while legacy pairing is still in progress."""
    from .. import sym
    R, p = ctx.r, ctx.p
    rule = 'C13.stk-scope'
    fn = p.find(f'{S}.get_long_term_key')
    if fn is None:
        R.bad(rule, f'{S}.get_long_term_key', 'anchor missing')
        return
    res = paths.run(fn, sym.Sym(), sym.Sym.init())
    bad = []
    kinds = set()
    for k, facts, store, extra, w in sym.exits(res):
        r = store.get('<return>')
        if isinstance(r, str) and r.startswith("getattr(self, 'ltk'"):
            r = 'self.ltk'  # the same attribute, read with a default for a session that has not computed it yet
        kinds.add(r)
        if r == 'self.stk':
            if not (sym.holds(facts, 'self.sc', False) and sym.holds(facts, 'self.completed', False)):
                bad.append(f'STK returned under {sorted((a, t) for a, t in facts.items())} ({" ".join(w)})')
            if not (any('rand' in a and t for a, t in facts.items()) and any('ediv' in a and t for a, t in facts.items())):
                bad.append('STK returned without matching Rand and EDIV')
        elif r == 'self.ltk':
            if sym.holds(facts, 'self.sc', False) and sym.holds(facts, 'self.completed', False):
                bad.append('the distributed LTK is returned while legacy pairing is still in progress')
    R.check({'self.stk', 'self.ltk'} <= kinds and not bad, rule, f'{S}.get_long_term_key', 'STK only for legacy pairing that has not completed (and matching Rand/EDIV); the LTK otherwise',
            'after legacy pairing has completed the responder still answers LTK requests with the short-term key (the distributed LTK has the same EDIV/Rand of 0): a re-encryption uses different keys on the two sides', p.loc(fn), bad[:3])


def fail_then_leave(ctx, rule='C13.fail-then-leave'):
    """Once a session has declared the pairing failed, the handler stops: nothing else of the protocol is sent or derived."""
    R, p = ctx.r, ctx.p
    cls = p.cls(S)
    if cls is None:
        R.bad(rule, S, 'anchor missing')
        return
    EFFECT = ('send_command', 'start_encryption', 'send_pairing_', 'send_public_key', 'distribute_keys', 'send_identity', 'send_pairing_dhkey')
    n = 0
    for name, m in sorted(cls.methods.items()):
        if not any(dotted(c.func) == 'self.send_pairing_failed' for c in calls_in(m)) or name == 'send_pairing_failed':
            continue
        n += 1

        class D(paths.Domain):
            implicit_raise = True  # any call may raise: exception handlers are reachable

            def event(self, node, v):
                if isinstance(node, ast.Call):
                    d = dotted(node.func) or ''
                    if d == 'self.send_pairing_failed':
                        return ('failed',)
                    if v == 'failed' and d.startswith('self.') and any(d[5:].startswith(e) for e in EFFECT):
                        return ('continued:' + d,)
                if v == 'failed' and isinstance(node, ast.Assign) and any((dotted(t) or '').startswith('self.') and (dotted(t) or '')[5:] in ('dh_key', 'ltk', 'stk', 'ea', 'eb') for t in node.targets):
                    return ('continued:' + norm(node.targets[0]),)
                return (v,)
        res = paths.run(m, D(), 'ok')
        bad = sorted({f'{v[10:]} after send_pairing_failed ({" ".join(w)})' for k, st in res.items() for v, w in st.items() if isinstance(v, str) and v.startswith('continued:')})
        R.check(not bad, rule, f'{S}.{name} | stops after declaring failure', 'no protocol step follows send_pairing_failed on any path',
                'the handler reports the pairing as failed and then carries on with the protocol (keys are derived / commands sent for a pairing the peer was told had failed)', p.loc(m), bad[:3])
    R.check(n >= 3, rule, f'{S} | handlers that can declare failure', f'{n} methods analysed', f'only {n} methods call send_pairing_failed')



def zero_valid(ctx):
    """A passkey of 0 is a passkey: its presence is tested with `is None`, never by truthiness."""
    R, p = ctx.r, ctx.p
    rule = 'C13.zero-valid'
    m = p.module('bumble.smp')
    if m is None:
        R.bad(rule, 'bumble.smp', 'anchor missing')
        return
    n = 0

    def atoms(t):
        if isinstance(t, ast.BoolOp):
            for v in t.values:
                yield from atoms(v)
        elif isinstance(t, ast.UnaryOp) and isinstance(t.op, ast.Not):
            yield from atoms(t.operand)
        else:
            yield t
    for node in ast.walk(m.tree):
        tests = []
        if isinstance(node, (ast.If, ast.While, ast.IfExp, ast.Assert)):
            tests.append(node.test)
        for t in tests:
            for a in atoms(t):
                if dotted(a) in ('self.passkey', 'passkey'):
                    n += 1
                    R.bad(rule, f'{p.qual_of(node)} | truth test of {dotted(a)}', f'the passkey is tested by truthiness: the valid passkey 000000 is treated as "no passkey" (assertion failure / skipped step), the pairing never completes', p.loc(node))
                elif isinstance(a, ast.Compare) and dotted(a.left) in ('self.passkey', 'passkey') and isinstance(a.ops[0], (ast.Is, ast.IsNot)):
                    n += 1
                    R.ok(rule, f'{p.qual_of(node)} | {norm(a)}', 'presence tested with `is None`', p.loc(node))
    R.check(n >= 3, rule, 'bumble.smp | passkey presence tests', f'{n} tests', f'only {n} passkey tests found')



def session_lifecycle(ctx, rule='C13.session-lifecycle'):
    """A pairing session processes nothing after it has ended, is replaced when a new request arrives, and derives keys only after the key exchange."""
    from .. import sym
    R, p = ctx.r, ctx.p
    oc = p.find(f'{S}.on_smp_command')
    if oc is None:
        R.bad(rule, f'{S}.on_smp_command', 'anchor missing')
        return
    disp = [n for n in ast.walk(oc) if isinstance(n, ast.Match)]
    ok = False
    if disp:
        seen = []

        class D(sym.Sym):
            def on_event(self, node, extra, facts, store):
                if isinstance(node, ast.Call) and (dotted(node.func) or '').startswith('self.on_smp_'):
                    seen.append(sym.holds(facts, 'self.completed', False))
                return extra
        paths.run(oc, D(fact_filter=lambda t: 'completed' in t, store_filter=lambda t: False), sym.Sym.init())
        ok = bool(seen) and all(seen)
    R.check(ok, rule, f'{S}.on_smp_command | nothing after the end', 'every command handler is reached only while `self.completed` is false',
            'a session that has completed or failed still processes SMP commands: a peer that ignores Pairing Failed can drive the exchange to the end', p.loc(oc))
    mp = p.find('bumble.smp.Manager.on_smp_pdu')
    if mp is None:
        R.bad(rule, 'bumble.smp.Manager.on_smp_pdu', 'anchor missing')
    else:
        ends = [c for c in calls_in(mp) if call_attr(c) in ('on_disconnection', 'on_session_end', 'close') and (dotted(c.func) or '').startswith('session.') or dotted(c.func) == 'self.on_session_end']
        g = [sorted(norm(t) for t, pol in paths.flat_guards(c) if pol) for c in ends]
        ok = any(any('session.completed' in x for x in gg) and any('PAIRING_REQUEST' in x for x in gg) for gg in g)
        R.check(ok, rule, 'bumble.smp.Manager.on_smp_pdu | new request, finished session', 'a Pairing Request for a connection whose session has completed ends that session and starts a new one',
                'a new Pairing Request is handed to a session that has already completed: nothing answers it and the initiator\'s pair() never returns (no second pairing, no retry after a failure)', p.loc(mp))
    if mp is not None:
        # ending a session removes the manager's entry *by connection handle*: it must happen before the replacing session is
        # registered under the same handle, or the new session is what gets removed
        late = []

        class Ord(paths.Domain):
            def event(self, node, v):
                if isinstance(node, ast.Assign) and isinstance(node.targets[0], ast.Subscript) and dotted(node.targets[0].value) == 'self.sessions':
                    return (True,)
                if isinstance(node, ast.Call) and (call_attr(node) in ('on_disconnection', 'on_session_end')) and v:
                    late.append(node.lineno)
                return (v,)
        paths.run(mp, Ord(), False)
        R.check(not late, rule, 'bumble.smp.Manager.on_smp_pdu | old session ended before the new one is registered', 'no session is ended after self.sessions[handle] has been given the new session',
                f'a session is ended (line {sorted(set(late))}) after the new session was stored in self.sessions: ending removes the entry by connection handle, i.e. the new session; the rest of the pairing finds no session and fails', p.loc(mp))
    # the same ordering in every other Manager method that registers a session (pair(), request handling helpers)
    mg = p.cls('bumble.smp.Manager')
    if mg is not None:
        for mname, mfn in sorted(mg.methods.items()):
            if mname == 'on_smp_pdu' or not any(isinstance(x, ast.Assign) and isinstance(x.targets[0], ast.Subscript) and dotted(x.targets[0].value) == 'self.sessions' for x in walk_local(mfn)):
                continue
            late2 = []

            class Ord2(paths.Domain):
                def event(self, node, v):
                    if isinstance(node, ast.Assign) and isinstance(node.targets[0], ast.Subscript) and dotted(node.targets[0].value) == 'self.sessions':
                        return (True,)
                    if isinstance(node, ast.Call) and (call_attr(node) in ('on_disconnection', 'on_session_end')) and v:
                        late2.append(node.lineno)
                    return (v,)
            paths.run(mfn, Ord2(), False)
            R.check(not late2, rule, f'bumble.smp.Manager.{mname} | old session ended before the new one is registered', 'no session is ended after self.sessions[handle] has been given the new session',
                    f'a session is ended (line {sorted(set(late2))}) after the new session was stored in self.sessions: ending removes the entry by connection handle, i.e. the new session; the peer\'s answer finds no session and pair() never returns', p.loc(mfn))
    # a session that failed supplies no key: the long-term-key lookup falls through to the key store (the keys of an earlier
    # bonding stay valid after a failed re-pairing)
    gl = p.find(f'{S}.get_long_term_key')
    pf_ = p.find(f'{S}.on_pairing_failure')
    if gl is None or pf_ is None:
        R.bad(rule, f'{S}.get_long_term_key / on_pairing_failure', 'anchor missing')
    else:
        flags = {dotted(n.targets[0]) for n in walk_local(pf_) if isinstance(n, ast.Assign) and isinstance(n.value, ast.Constant) and n.value.value is True} - {'self.completed'}
        first_ret = next((i for i, s_ in enumerate(gl.body) if any(isinstance(x, ast.Return) for x in ast.walk(s_))), None)
        ok = False
        if first_ret is not None:
            s0 = gl.body[first_ret]
            ok = isinstance(s0, ast.If) and norm(s0.test) in flags and len(s0.body) >= 1 and isinstance(s0.body[-1], ast.Return) and (s0.body[-1].value is None or norm(s0.body[-1].value) == 'None')
        R.check(ok, rule, f'{S}.get_long_term_key | failed session', f'returns None first when the failure flag ({sorted(flags)}) is set',
                'a session that ended in failure still answers the long-term-key request with its own (never agreed) key: after a failed re-pairing the peripheral answers a key the central does not have, instead of the bonded one from the key store', p.loc(gl))
    sc = p.find(f'{S}.on_smp_pairing_random_command_secure_connections')
    if sc is not None:
        seen2 = []

        class K(sym.Sym):
            def on_event(self, node, extra, facts, store):
                if isinstance(node, ast.Call) and dotted(node.func) in ('crypto.f5', 'crypto.f6', 'crypto.g2'):
                    seen2.append(sym.holds(facts, 'self.dh_key', True))
                return extra
        paths.run(sc, K(fact_filter=lambda t: 'dh_key' in t, store_filter=lambda t: False), sym.Sym.init())
        R.check(bool(seen2) and all(seen2), rule, f'{S}.on_smp_pairing_random_command_secure_connections | key exchange first', 'f5/f6/g2 are reached only when a DH key has been computed',
                'keys are derived without checking that the public-key exchange took place (dh_key may still be empty): a peer that skips the Public Key PDU gets an LTK derived from an empty shared secret', p.loc(sc))


def identity_rule(ctx):
    from ..generic_rules import identity_compare
    identity_compare(ctx, 'C13.identity', ['bumble.smp', 'bumble.crypto', 'bumble.pairing'])


def ltk_chain(ctx):
    """the controller's key request reaches the pairing session with (rand, ediv) in the order each link declares."""
    from ..generic_rules import argument_agreement, callable_slot_types
    callable_slot_types(ctx, 'C13.ltk-chain', ['bumble.host.Host'])
    argument_agreement(ctx, 'C13.ltk-chain', ['bumble.host', 'bumble.device', 'bumble.smp'], {'get_long_term_key'})


def uncalled_predicate_rule(ctx):
    from ..generic_rules import uncalled_predicate
    uncalled_predicate(ctx, 'C13.uncalled-predicate', ['bumble.smp', 'bumble.pairing'])


def encrypt_source(ctx):
    """"each side's store yields the same key for the central's encryption request": the long-term key the central puts in
    LE Enable Encryption comes from the key store record of the peer (ltk, or the LTK the peer distributed to it), never from
    a pairing session object -- a legacy session's own `ltk` is the key this side generated and gave away, not the one the
    peer will look up."""
    R, p = ctx.r, ctx.p
    rule = 'C13.encrypt-source'
    fn = p.find('bumble.device.Device.encrypt')
    if fn is None:
        R.bad(rule, 'bumble.device.Device.encrypt', 'anchor missing')
        return
    sends = [c for c in calls_in(fn) if call_attr(c) == 'HCI_LE_Enable_Encryption_Command']
    R.check(len(sends) >= 1, rule, 'bumble.device.Device.encrypt | LE Enable Encryption', f'{len(sends)} site(s)', 'the command is no longer built here', p.loc(fn))
    for c in sends:
        k = kwarg(c, 'long_term_key')
        nm = k.id if isinstance(k, ast.Name) else None
        srcs = [norm(s_.value) for s_ in walk_local(fn) if isinstance(s_, ast.Assign) and nm and any(isinstance(t, ast.Name) and t.id == nm for t in s_.targets)]
        bad = [s_ for s_ in srcs if not (s_.startswith('keys.ltk') and s_.endswith('.value'))]
        R.check(bool(srcs) and not bad, rule, 'bumble.device.Device.encrypt | long_term_key', f'taken from the key store record ({sorted(set(srcs))})', f'the key sent in LE Enable Encryption can come from {bad}: after a legacy pairing the session holds the LTK this device distributed, while the peripheral answers with the one it distributed, so re-encryption uses two different keys', p.loc(c))
    sess = [c for c in calls_in(fn) if 'smp_manager' in (dotted(c.func) or '') or 'session' in (dotted(c.func) or '').lower()]
    R.check(not sess, rule, 'bumble.device.Device.encrypt | no session lookup', 'the pairing sessions are not consulted', f'Device.encrypt consults the pairing session ({[norm(c)[:50] for c in sess][:1]})', p.loc(fn))


def stk_identifiers(ctx):
    """During legacy pairing the link is first encrypted with the STK under Rand = 0 / EDIV = 0.  Three places must agree on
    those constants: start_encryption sends them, the responder's get_long_term_key recognises the STK request by comparing
    with self.ltk_rand / self.ltk_ediv, and Session.__init__ gives these their initial values."""
    R, p = ctx.r, ctx.p
    rule = 'C13.stk-identifiers'
    init = p.find(f'{S}.__init__')
    se = p.find(f'{S}.start_encryption')
    gl = p.find(f'{S}.get_long_term_key')
    if init is None or se is None or gl is None:
        R.bad(rule, f'{S}.__init__ / start_encryption / get_long_term_key', 'anchor missing')
        return
    iv = {dotted(s_.targets[0]): norm(s_.value) for s_ in walk_local(init) if isinstance(s_, ast.Assign) and dotted(s_.targets[0]) in ('self.ltk_rand', 'self.ltk_ediv')}
    cmd = next((c for c in calls_in(se) if call_attr(c) == 'HCI_LE_Enable_Encryption_Command'), None)
    sent = {'self.ltk_rand': norm(kwarg(cmd, 'random_number')) if cmd is not None and kwarg(cmd, 'random_number') is not None else None, 'self.ltk_ediv': norm(kwarg(cmd, 'encrypted_diversifier')) if cmd is not None and kwarg(cmd, 'encrypted_diversifier') is not None else None}
    R.check(iv == sent and None not in sent.values(), rule, f'{S} | STK Rand / EDIV', f'initial values {iv} = what start_encryption sends', f'Session.__init__ sets {iv} but start_encryption asks for encryption with {sent}: the responder compares the request with its own ltk_rand / ltk_ediv, never recognises the STK request and answers with no key (or a stale bonded one) while the initiator encrypts with the STK', p.loc(init))
    cmp_ok = all(any(isinstance(c, ast.Compare) and {norm(c.left), norm(c.comparators[0])} == {a.split('.')[-1].replace('ltk_', ''), a} for c in ast.walk(gl)) for a in ('self.ltk_rand', 'self.ltk_ediv'))
    R.check(cmp_ok, rule, f'{S}.get_long_term_key | STK request recognised', 'the requested rand / ediv are compared with self.ltk_rand / self.ltk_ediv', 'the STK request is no longer recognised by its Rand / EDIV', p.loc(gl))


def store_condition(ctx):
    """Whatever a pairing produced is stored: Manager.on_pairing saves the keys whenever there is a key store and an identity
    address - no filter on which keys are present (a filter that forgets one slot, e.g. a peripheral-only legacy LTK, drops
    the bond)."""
    R, p = ctx.r, ctx.p
    rule = 'C13.store-condition'
    fn = p.find('bumble.smp.Manager.on_pairing')
    if fn is None:
        R.bad(rule, 'bumble.smp.Manager.on_pairing', 'anchor missing')
        return
    ups = [c for c in calls_in(fn) if call_attr(c) == 'update_keys']
    R.check(len(ups) == 1, rule, 'bumble.smp.Manager.on_pairing | store', 'one update_keys call', f'{len(ups)} update_keys calls', p.loc(fn))
    for c in ups:
        extra = [norm(t) for t, pol in paths.flat_guards(c, stop=fn) if not ('keystore' in norm(t) or 'identity_address' in norm(t))]
        R.check(not extra, rule, 'bumble.smp.Manager.on_pairing | condition', 'stored whenever there is a key store and an identity address', f'the keys are stored only if `{extra[0] if extra else ""}` also holds: a pairing whose result does not satisfy that extra test is not persisted, and the peers cannot re-encrypt after a reconnection', p.loc(c))


def distribution_order(ctx):
    """Who distributes keys first is decided by the pairing role (is_responder / is_initiator), which is what the Pairing
    Request / Response exchange fixed - not by the link-layer role, which differs from it when the peripheral... when the
    pairing runs over BR/EDR or was started by the other side."""
    R, p = ctx.r, ctx.p
    rule = 'C13.distribution-order'
    ci = p.cls(S)
    if ci is None:
        R.bad(rule, S, 'anchor missing')
        return
    n = 0
    for name, fn in sorted(ci.methods.items()):
        for c in [x for x in calls_in(fn) if dotted(x.func) == 'self.distribute_keys']:
            n += 1
            g = [(norm(t), pol) for t, pol in paths.flat_guards(c, stop=fn)]
            by_pairing_role = any(t in ('self.is_responder', 'self.is_initiator') and pol for t, pol in g)
            by_link_role = [t for t, pol in g if '.role' in t]
            R.check(by_pairing_role and not by_link_role, rule, f'{S}.{name} | distribute_keys', 'decided by the pairing role', f'{name} distributes keys depending on `{by_link_role[0] if by_link_role else [t for t, _ in g]}` rather than on is_responder / is_initiator: when the link-layer role and the pairing role differ both sides wait for the other\'s keys (or both send first) and the pairing never completes', p.loc(c))
    R.check(n >= 3, rule, f'{S} | distribute_keys calls', f'{n}', f'only {n} found')


def declared_only_reads(ctx):
    """Session declares some attributes without a value (`ltk: bytes`) and assigns them when the pairing gets there.  The
    methods the rest of the stack may call at any time of a session's life (the controller's LTK request can arrive for a
    session that a single stray PDU created) do not read such an attribute directly."""
    R, p = ctx.r, ctx.p
    rule = 'C13.declared-only-reads'
    ci = p.cls(S)
    if ci is None:
        R.bad(rule, S, 'anchor missing')
        return
    init = ci.methods.get('__init__')
    in_init = {n_.attr for n_ in ast.walk(init) if isinstance(n_, ast.Attribute) and isinstance(n_.ctx, ast.Store) and isinstance(n_.value, ast.Name) and n_.value.id == 'self'} if init is not None else set()
    declared_only = {a for a in ci.annots if a not in ci.assigns and a not in in_init}
    R.check('ltk' in declared_only or 'ltk' in in_init or 'ltk' in ci.assigns, rule, f'{S} | ltk', 'ltk is declared', 'Session no longer declares ltk (anchor)', p.loc(ci.node))
    ANYTIME = ('get_long_term_key',)
    for name in ANYTIME:
        fn = ci.methods.get(name)
        if fn is None:
            R.bad(rule, f'{S}.{name}', 'anchor missing')
            continue
        reads = [n_ for n_ in walk_local(fn) if isinstance(n_, ast.Attribute) and isinstance(n_.ctx, ast.Load) and isinstance(n_.value, ast.Name) and n_.value.id == 'self' and n_.attr in declared_only]
        R.check(not reads, rule, f'{S}.{name}', f'reads none of the declared-only attributes {sorted(declared_only)} directly', f'{name} reads `self.{reads[0].attr if reads else ""}`, which exists only once the pairing has computed it: for a session created by any earlier SMP PDU the call raises AttributeError, Device.get_long_term_key never reaches the key store and the bonded link cannot be re-encrypted', p.loc(reads[0]) if reads else p.loc(fn))


def passkey_verbatim(ctx):
    """What the user typed is what is compared: the passkey handed to input_passkey's continuation is stored as it is (no
    reduction modulo 10^6, masking or clamping - a wrong entry congruent to the right one would then be accepted)."""
    R, p = ctx.r, ctx.p
    rule = 'C13.passkey-verbatim'
    fn = p.find(f'{S}.input_passkey')
    if fn is None:
        R.bad(rule, f'{S}.input_passkey', 'anchor missing')
        return
    inner = [x for x in ast.walk(fn) if isinstance(x, FUNC) and x is not fn and any(a.arg == 'passkey' for a in x.args.args)]
    R.check(len(inner) == 1, rule, f'{S}.input_passkey | continuation', 'one continuation taking the passkey', f'{len(inner)} found', p.loc(fn))
    for g in inner:
        re_ = [s_ for s_ in walk_local(g) if isinstance(s_, (ast.Assign, ast.AugAssign)) and any(isinstance(t, ast.Name) and t.id == 'passkey' for t in (s_.targets if isinstance(s_, ast.Assign) else [s_.target]))]
        st = [s_ for s_ in walk_local(g) if isinstance(s_, ast.Assign) and dotted(s_.targets[0]) == 'self.passkey']
        ok = not re_ and len(st) == 1 and isinstance(st[0].value, ast.Name) and st[0].value.id == 'passkey'
        R.check(ok, rule, f'{S}.input_passkey.{g.name}', 'self.passkey = passkey, unchanged', f'the typed passkey is changed before it is used (`{norm(re_[0])[:40] if re_ else norm(st[0])[:40] if st else "?"}`): a wrong entry that maps to the displayed value is accepted and keys marked authenticated are stored', p.loc(re_[0]) if re_ else p.loc(g))


def link_key_needs_sc(ctx):
    """A link key derived from `self.ltk` is the same on both sides only when that LTK is the shared Secure Connections key:
    with legacy pairing each side holds the LTK it generated itself.  Every such derivation is guarded by `self.sc`."""
    R, p = ctx.r, ctx.p
    rule = 'C13.link-key-needs-sc'
    ci = p.cls(S)
    if ci is None:
        R.bad(rule, S, 'anchor missing')
        return
    n = 0
    for name, fn in sorted(ci.methods.items()):
        for st in [x for x in walk_local(fn) if isinstance(x, ast.Assign) and dotted(x.targets[0]) == 'self.link_key' and isinstance(x.value, ast.Call) and call_attr(x.value) == 'derive_link_key' and any(norm(a) == 'self.ltk' for a in x.value.args)]:
            n += 1
            g = [(norm(t), pol) for t, pol in paths.flat_guards(st, stop=fn)]
            R.check(('self.sc', True) in g or ('not self.sc', False) in g, rule, f'{S}.{name} | link key from the LTK', 'only under self.sc', f'{name} derives the link key from self.ltk whatever the pairing kind: after legacy pairing the two devices derive it from two different LTKs and store different link keys for the same bond', p.loc(st))
    R.check(n >= 2, rule, f'{S} | link key derivations', f'{n}', f'only {n} found')


def expected_from_argument(ctx):
    """What a side waits for in the key distribution phase is computed from the mask it is given (the peer\'s direction of
    the negotiated masks): every KeyDistribution test of compute_peer_expected_distributions reads that parameter."""
    R, p = ctx.r, ctx.p
    rule = 'C13.expected-from-argument'
    fn = p.find(f'{S}.compute_peer_expected_distributions')
    if fn is None:
        R.bad(rule, f'{S}.compute_peer_expected_distributions', 'anchor missing')
        return
    param = [a.arg for a in fn.args.args if a.arg != 'self'][0]
    tests = [b for b in ast.walk(fn) if isinstance(b, ast.BinOp) and isinstance(b.op, ast.BitAnd) and 'KeyDistribution.' in norm(b)]
    bad = [b for b in tests if param not in (norm(b.left), norm(b.right))]
    R.check(len(tests) >= 3 and not bad, rule, f'{S}.compute_peer_expected_distributions', f'{len(tests)} tests, all on `{param}`', f'`{norm(bad[0]) if bad else ""}` reads another mask than the one passed in: the responder derives what it waits for from its own direction of the negotiated masks - with asymmetric masks it waits for keys that never come (or does not wait for keys that do)', p.loc(bad[0]) if bad else p.loc(fn))


def store_key_verbatim(ctx, rule='C13.store-key-verbatim'):
    """The key store is addressed by the peer address string its callers pass: JsonKeyStore.update / get / delete use `name`
    as it comes (insert and lookup agree on the key - a name normalised on one side only is never found again)."""
    R, p = ctx.r, ctx.p
    ci = p.cls('bumble.keys.JsonKeyStore')
    if ci is None:
        R.bad(rule, 'bumble.keys.JsonKeyStore', 'anchor missing')
        return
    n = 0
    for name in ('update', 'get', 'delete'):
        fn = ci.methods.get(name)
        if fn is None:
            R.bad(rule, f'bumble.keys.JsonKeyStore.{name}', 'anchor missing')
            continue
        keys = [c.args[0] for c in calls_in(fn) if call_attr(c) in ('setdefault', 'get', 'pop') and dotted(c.func.value) == 'key_map' and c.args]
        keys += [s_.slice for s_ in ast.walk(fn) if isinstance(s_, ast.Subscript) and dotted(s_.value) == 'key_map']
        keys += [c.left for c in ast.walk(fn) if isinstance(c, ast.Compare) and isinstance(c.ops[0], (ast.In, ast.NotIn)) and dotted(c.comparators[0]) == 'key_map']
        n += len(keys)
        bad = [k for k in keys if not (isinstance(k, ast.Name) and k.id == 'name')]
        R.check(bool(keys) and not bad, rule, f'bumble.keys.JsonKeyStore.{name}', 'key_map addressed by `name`', f'{name} addresses the entry by `{norm(bad[0]) if bad else ""}`, the other operations by `name`: what one stores the others do not find - after a reconnection the bonded keys are "not found" and the link cannot be encrypted', p.loc(bad[0]) if bad else p.loc(fn))
    R.check(n >= 4, rule, 'bumble.keys.JsonKeyStore | entry accesses', f'{n}', f'only {n} found')


def negotiated_sc(ctx):
    """Whether a pairing is legacy or Secure Connections is the negotiated `self.sc` (the configured flag AND the peer\'s
    AuthReq): the configured `pairing_config.sc` is read where the session is set up and nowhere in the protocol steps."""
    R, p = ctx.r, ctx.p
    rule = 'C13.negotiated-sc'
    ci = p.cls(S)
    if ci is None:
        R.bad(rule, S, 'anchor missing')
        return
    n = 0
    for name, fn in sorted(ci.methods.items()):
        for a in [x for x in walk_local(fn) if isinstance(x, ast.Attribute) and x.attr == 'sc' and norm(x.value).endswith('pairing_config')]:
            n += 1
            R.check(name == '__init__', rule, f'{S}.{name} | {norm(a)}', 'read at set-up only', f'{name} decides on the configured `{norm(a)}` instead of the negotiated self.sc: with a peer that does not do Secure Connections the two differ - the legacy TK is not derived from the displayed passkey, the right passkey fails and passkey 0 pairs', p.loc(a))
    R.check(n >= 1, rule, f'{S} | reads of pairing_config.sc', f'{n} (all in __init__)', 'none found (anchor)')


RULES = [
    ('C13.negotiated-sc', negotiated_sc),
    ('C13.store-key-verbatim', store_key_verbatim),
    ('C13.expected-from-argument', expected_from_argument),
    ('C13.link-key-needs-sc', link_key_needs_sc),
    ('C13.passkey-verbatim', passkey_verbatim),
    ('C13.declared-only-reads', declared_only_reads),
    ('C13.distribution-order', distribution_order),
    ('C13.store-condition', store_condition),
    ('C13.stk-identifiers', stk_identifiers),
    ('C13.encrypt-source', encrypt_source),
    ('C13.uncalled-predicate', uncalled_predicate_rule),
    ('C13.ltk-chain', ltk_chain),
    ('C13.identity', identity_rule),
    ('C13.session-lifecycle', session_lifecycle),
    ('C13.zero-valid', zero_valid),
    ('C13.stk-scope', stk_scope),
    ('C13.fail-then-leave', fail_then_leave),
    ('C13.role-symmetry', role_symmetry),
    ('C13.table', table),
    ('C13.auth-flag', auth_flag),
    ('C13.fail-sym', fail_sym),
    ('C13.checks', checks),
    ('C13.slots', slots),
    ('C13.distribution', distribution),
    ('C13.waits', waits),
]

VARIANTS = [
    ('table cell changed', 'bumble/smp.py', "            SMP_DISPLAY_ONLY_IO_CAPABILITY: PairingMethod.JUST_WORKS,\n            SMP_DISPLAY_YES_NO_IO_CAPABILITY: PairingMethod.JUST_WORKS,\n            SMP_KEYBOARD_ONLY_IO_CAPABILITY: (PairingMethod.PASSKEY, True, False),\n            SMP_NO_INPUT_NO_OUTPUT_IO_CAPABILITY: PairingMethod.JUST_WORKS,\n            SMP_KEYBOARD_DISPLAY_IO_CAPABILITY: (PairingMethod.PASSKEY, True, False),\n        },\n        SMP_DISPLAY_YES_NO_IO_CAPABILITY: {",
     "            SMP_DISPLAY_ONLY_IO_CAPABILITY: PairingMethod.JUST_WORKS,\n            SMP_DISPLAY_YES_NO_IO_CAPABILITY: PairingMethod.JUST_WORKS,\n            SMP_KEYBOARD_ONLY_IO_CAPABILITY: (PairingMethod.PASSKEY, True, True),\n            SMP_NO_INPUT_NO_OUTPUT_IO_CAPABILITY: PairingMethod.JUST_WORKS,\n            SMP_KEYBOARD_DISPLAY_IO_CAPABILITY: (PairingMethod.PASSKEY, True, False),\n        },\n        SMP_DISPLAY_YES_NO_IO_CAPABILITY: {", 'fire', 'C13.table'),
    ('column chosen by configured sc', 'bumble/smp.py', "            details = details[1 if self.sc else 0]\n", "            details = details[1 if self.pairing_config.sc else 0]\n", 'fire', 'C13.table'),
    ('responder IO order swapped', 'bumble/smp.py', "                command.auth_req,\n                command.io_capability,\n                self.io_capability,\n", "                command.auth_req,\n                self.io_capability,\n                command.io_capability,\n", 'fire', 'C13.table'),
    ('authenticated always true with bonding', 'bumble/smp.py', "        authenticated = self.pairing_method != PairingMethod.JUST_WORKS\n", "        authenticated = self.pairing_method != PairingMethod.JUST_WORKS or self.mitm\n", 'fire', 'C13.auth-flag'),
    ('handler exception bypasses local failure', 'bumble/smp.py', "            self.send_pairing_failed(ErrorCode.UNSPECIFIED_REASON)\n\n    def on_smp_pairing_request_command(", "            self.send_command(SMP_Pairing_Failed_Command(reason=ErrorCode.UNSPECIFIED_REASON))\n\n    def on_smp_pairing_request_command(", 'fire', 'C13.fail-sym'),
    ('responder slots mirrored again', 'bumble/smp.py', '            if self.peer_ltk:\n                keys.ltk_central = PairingKeys.Key(\n                    value=self.peer_ltk,\n', '            if self.peer_ltk:\n                keys.ltk_central = PairingKeys.Key(\n                    value=self.peer_ltk if self.is_initiator else self.ltk,\n', 'fire', 'C13.slots'),
    ('responder tests initiator mask for ID', 'bumble/smp.py', "            if self.responder_key_distribution & KeyDistribution.ID_KEY:\n", "            if self.initiator_key_distribution & KeyDistribution.ID_KEY:\n", 'fire', 'C13.distribution'),
    ('pair awaits bare', 'bumble/smp.py', "        await self.connection.cancel_on_disconnection(self.pairing_result)\n", "        await self.pairing_result\n", 'fire', 'C13.waits'),
    ('benign: debug text', 'bumble/smp.py', "        logger.debug('pairing complete')\n", "        logger.debug('pairing completed')\n", 'silent', ''),
    ('STK computed with role-relative argument order', 'bumble/smp.py', "        if self.is_initiator:\n            mrand = self.r\n            srand = command.random_value\n        else:\n            srand = self.r\n            mrand = command.random_value\n        self.stk = crypto.s1(self.tk, srand, mrand)", "        self.stk = crypto.s1(self.tk, command.random_value, self.r)", 'fire', 'C13.role-symmetry'),
    ('pkb accessor picks the own key on both roles', 'bumble/smp.py', "        return self.pkx[0 if self.is_responder else 1]\n\n    @property\n    def nx", "        return self.pkx[0]\n\n    @property\n    def nx", 'fire', 'C13.role-symmetry'),
    ('initiator verifies SC confirm with swapped keys', 'bumble/smp.py', "                confirm_verifier = crypto.f4(\n                    self.pkb, self.pka, command.random_value, bytes([0])\n                )", "                confirm_verifier = crypto.f4(\n                    self.pka, self.pkb, command.random_value, bytes([0])\n                )", 'fire', 'C13.role-symmetry'),
    ('both sides expect Ea', 'bumble/smp.py', "        expected = self.eb if self.is_initiator else self.ea", "        expected = self.ea", 'fire', 'C13.role-symmetry'),
    ('responder address slots not swapped', 'bumble/smp.py', "            self.ra = bytes(self_address)\n            self.rat = 1 if self_address.is_random else 0\n            self.ia = bytes(peer_address)\n            self.iat = 1 if peer_address.is_random else 0", "            self.ia = bytes(self_address)\n            self.iat = 1 if self_address.is_random else 0\n            self.ra = bytes(peer_address)\n            self.rat = 1 if peer_address.is_random else 0", 'fire', 'C13.role-symmetry'),
    ('benign: STK branches written responder-first', 'bumble/smp.py', "        if self.is_initiator:\n            mrand = self.r\n            srand = command.random_value\n        else:\n            srand = self.r\n            mrand = command.random_value\n", "        if not self.is_initiator:\n            srand = self.r\n            mrand = command.random_value\n        else:\n            mrand = self.r\n            srand = command.random_value\n", 'silent', ''),
]
