"""C15 — the JSON key store is exact, persistent, namespace-isolated and crash-atomic."""
from __future__ import annotations

import ast

from .. import paths
from ..core import FUNC, call_attr, calls_in, const, dotted, is_const, kwarg, norm, text, walk_local

EXPLANATION = [
    'C15.store-key-verbatim: shared with C13: JsonKeyStore addresses entries by the unmodified name in update / get / delete.',
    "C15.device-namespace: JsonKeyStore.from_device uses the device's random address as namespace whenever it differs from the ANY_RANDOM placeholder (no further condition on its sub-type).",
    'C15.key-lookup: PairingKeys.key_from_dict looks its dictionary up only under the member name it was given (an absent member is not filled from another one).',
    'C15.filename-resolved: JsonKeyStore canonicalises a configured file name with symbolic links followed (resolve / realpath), which the atomic os.replace in save() relies on.',
    "C15.namespace-resolution: no accessor of JsonKeyStore other than load() indexes the database by self.namespace: all of them work on the key map load() resolved (which may be the file's only namespace adopted by the default store), so get / get_all / update / delete agree.",
    'C15.one-shot: no name bound to a generator expression or to filter() / map() / zip() / reversed() / enumerate() is read in more than one consuming position or inside a loop that evaluates it repeatedly: such an iterator is empty after its first walk.',
    'C15.walrus: no assignment expression in bumble.keys binds the result of a comparison (`(t := x is not None)`): optional fields read from the file keep their stored value.',
    'C15.zero-valid: the optional integer-valued fields of the stored key objects (address_type, ediv) are tested for presence with `is None` everywhere in keys / device / smp, never by truthiness or `x or default`: address type 0 (public) and EDIV 0 read back as stored.',
    'C15.update-precedence: JsonKeyStore.update merges the new fields into the stored entry (stored.update(new)), so later updates override earlier ones.',
    'C15.atomic-write: the only write-mode open in keys.py targets the ".tmp" sibling; os.replace(tmp, filename) comes after the '
    '`with` block has closed the file (not inside it); nothing else in the module writes, truncates, renames or removes files; '
    'every mutator persists through save() with the database object returned by load(), on every path.',
    'C15.load-shape: every return of JsonKeyStore.load is (database, key map of this namespace) with the key map taken from that database.',
    'C15.fields: the dataclass fields of PairingKeys (8) and Key (4) are exactly the keys written by to_dict and read by from_dict; '
    'bytes fields are hex()/fromhex() paired; optional fields are omitted only when they are None (0 and empty values are kept).',
    'Not decided: history equivalence and namespace merge semantics (runtime).',
]
ASSUMPTIONS = ['os.replace is atomic on the target file system (POSIX rename)']

K = 'bumble.keys'
JS = f'{K}.JsonKeyStore'
WRITE_CALLS = {'remove', 'unlink', 'rename', 'renames', 'truncate', 'write_text', 'write_bytes', 'rmtree', 'move', 'copy', 'copyfile', 'rmdir', 'touch'}


def _anc(n):
    q = getattr(n, '_parent', None)
    while q is not None:
        yield q
        q = getattr(q, '_parent', None)


def atomic_write(ctx):
    R, p = ctx.r, ctx.p
    rule = 'C15.atomic-write'
    m = p.modules.get(K)
    save = p.find(f'{JS}.save')
    if m is None or save is None:
        R.bad(rule, f'{JS}.save', 'anchor missing')
        return
    # census of opens and file-system mutations in the module
    for fn in [x for x in ast.walk(m.tree) if isinstance(x, FUNC)]:
        for c in calls_in(fn):
            nm = call_attr(c)
            if nm == 'open' and isinstance(c.func, ast.Name):
                mode = c.args[1] if len(c.args) > 1 else kwarg(c, 'mode')
                mv = const(mode) if mode is not None and is_const(mode) else 'r'
                if any(ch in mv for ch in 'wax+'):
                    q = p.qual_of(fn)
                    tgt = norm(c.args[0])
                    defs = [norm(n.value) for n in walk_local(fn) if isinstance(n, ast.Assign) and dotted(n.targets[0]) == tgt]
                    ok = q == f'{JS}.save' and defs == ["self.filename.with_name(self.filename.name + '.tmp')"]
                    R.check(ok, rule, f'{q} | open({tgt}, {mv!r})', 'the only write-mode open targets the .tmp sibling of the key file', f'file opened for writing: {tgt} (= {defs}) in {q}: the key file itself may be truncated by a crash', p.loc(c))
            elif nm in WRITE_CALLS and isinstance(c.func, ast.Attribute) and (dotted(c.func.value) or '').split('.')[0] in ('os', 'shutil', 'self', 'pathlib') or (nm in ('write_text', 'write_bytes', 'unlink', 'touch') and isinstance(c.func, ast.Attribute)):
                R.bad(rule, f'{p.qual_of(fn)} | {text(c.func)}', 'a second way of writing/removing files next to the atomic save path', p.loc(c))
    # save(): with-block then os.replace as a later sibling statement
    withs = [s for s in save.body if isinstance(s, ast.With)]
    reps = [c for c in calls_in(save) if dotted(c.func) == 'os.replace']
    ok = len(withs) == 1 and len(reps) == 1
    if ok:
        w, r = withs[0], reps[0]
        inside = any(a is w for a in _anc(r))
        rstmt = r._parent
        after = rstmt in save.body and save.body.index(rstmt) > save.body.index(w)
        args = [norm(a) for a in r.args]
        opened = norm(w.items[0].context_expr.args[0]) if isinstance(w.items[0].context_expr, ast.Call) and w.items[0].context_expr.args else None
        R.check(not inside and after, rule, f'{JS}.save | replace after close', 'os.replace runs after the `with` block closed (flushed) the temporary file', 'os.replace runs while the temporary file is still open: a crash right after the rename leaves an empty or partial key file', p.loc(r))
        R.check(args == [opened, 'self.filename'], rule, f'{JS}.save | replace arguments', f'os.replace({opened}, self.filename)', f'os.replace arguments are {args} (temporary file is {opened})', p.loc(r))
        dumps = [c for c in calls_in(w) if dotted(c.func) == 'json.dump']
        out = w.items[0].optional_vars
        R.check(len(dumps) == 1 and norm(dumps[0].args[0]) == 'db' and out is not None and norm(dumps[0].args[1]) == norm(out), rule, f'{JS}.save | content', 'the whole database is dumped into the temporary file', 'save does not dump the database into the temporary file', p.loc(w))
    else:
        R.bad(rule, f'{JS}.save | shape', f'{len(withs)} with-blocks and {len(reps)} os.replace calls (expected one each)', p.loc(save))
    # mutators persist through save(db) on every path
    js = p.cls(JS)
    for name in ('update', 'delete', 'delete_all'):
        fn = js.methods.get(name) if js else None
        if fn is None:
            R.bad(rule, f'{JS}.{name}', 'anchor missing')
            continue
        loads = [n for n in walk_local(fn) if isinstance(n, ast.Assign) and isinstance(n.value, ast.Await) and norm(n.value.value) == 'self.load()']
        dbv = kmv = None
        if loads and isinstance(loads[0].targets[0], ast.Tuple) and len(loads[0].targets[0].elts) == 2:
            dbv, kmv = [dotted(e) for e in loads[0].targets[0].elts]

        class D(paths.Domain):
            def event(self, node, v):
                if isinstance(node, ast.Call) and dotted(node.func) == 'self.save':
                    return ('saved',) if node.args and dotted(node.args[0]) == dbv else ('saved-other',)
                if v == 'clean':
                    t = None
                    if isinstance(node, ast.Delete):
                        t = node.targets[0]
                    elif isinstance(node, ast.Call) and isinstance(node.func, ast.Attribute) and node.func.attr in ('update', 'clear', 'pop', 'setdefault'):
                        t = node.func.value
                    if t is not None and kmv and kmv in norm(t):
                        return ('dirty',)
                return (v,)

        res = paths.run(fn, D(), 'clean')
        outs = {(k, v) for k, st in res.items() for v in st if not k.startswith('raise')}
        R.check(outs and all(v == 'saved' for k, v in outs), rule, f'{JS}.{name} | persists', f'load -> mutate {kmv} -> save({dbv}) on every path', f'{name}() does not reach save({dbv}) after mutating on every path: {sorted(outs)}', p.loc(fn))
        # the mutation acts on the namespace's key map only
        muts = [norm(n) for n in walk_local(fn) if isinstance(n, (ast.Delete, ast.Expr)) and kmv and kmv in norm(n) and 'save' not in norm(n)]
        # the set of namespaces in the file never shrinks through a mutator: which key set a default-namespace store resolves
        # to depends on the namespaces present, so removing one silently re-binds other stores
        drops = [norm(n) for n in ast.walk(fn) if dbv and ((isinstance(n, ast.Call) and isinstance(n.func, ast.Attribute) and n.func.attr in ('pop', 'popitem', 'clear') and dotted(n.func.value) == dbv)
                                                      or (isinstance(n, ast.Delete) and any(isinstance(t_, ast.Subscript) and dotted(t_.value) == dbv for t_ in n.targets)))]
        R.check(not drops, rule, f'{JS}.{name} | namespaces kept', f'never removes a namespace from {dbv}', f'{name}() removes a namespace from the file ({drops[:1]}): a default-namespace store sharing the file then resolves to another store\'s key set', p.loc(fn))
        R.check(bool(muts) and not any(dbv and (f'{dbv}[' in x or f'{dbv}.' in x) for x in muts), rule, f'{JS}.{name} | namespace isolation', f'mutates only {kmv} (this namespace\'s map)', f'{name}() touches the database outside its own namespace: {muts}', p.loc(fn))


def load_shape(ctx):
    from .. import sym
    R, p = ctx.r, ctx.p
    rule = 'C15.load-shape'
    fn = p.find(f'{JS}.load')
    if fn is None:
        R.bad(rule, f'{JS}.load', 'anchor missing')
        return

    class D(sym.Sym):
        # extra = True once the key file was opened (or found missing) on this path
        def on_event(self, node, extra, facts, store):
            if isinstance(node, ast.Call) and dotted(node.func) == 'open' and node.args and norm(node.args[0]) == 'self.filename':
                return True
            return extra

        def may_raise(self, call):
            return 'FileNotFoundError' if dotted(call.func) == 'open' else False

        def enter_handler(self, handler, v):
            facts, store, extra = v
            if handler.type is not None and 'FileNotFoundError' in text(handler.type):
                extra = True
            return ((facts, store, extra),)
    res = paths.run(fn, D(substitute=False), sym.Sym.init(False))
    exits = [e for e in sym.exits(res) if e[0].startswith('ret')]
    cases = {}
    for k, facts, store, opened, w in exits:
        ret = store.get('<return>', '')
        try:
            tup = ast.parse(ret, mode='eval').body
        except SyntaxError:
            tup = None
        if not (isinstance(tup, ast.Tuple) and len(tup.elts) == 2):
            R.bad(rule, f'{JS}.load | return shape `{ret}`', f'load() returns `{ret}` where every caller expects (database, key map of the namespace): a later save() writes the wrong object as the whole file', p.loc(fn))
            continue
        db_e, km = norm(tup.elts[0]), norm(tup.elts[1])
        db_src = store.get(db_e, db_e)
        fresh = bool(opened) and db_src in ('json.load(json_file)', '{}')
        if km == f'{db_e}[self.namespace]':
            case, ok = 'own entry', sym.holds(facts, f'self.namespace in {db_e}')
        elif store.get(km) == '{}':
            case, ok = 'new entry', any(norm(s_) == f'{db_e}[self.namespace] = {km}' for s_ in walk_local(fn)) and any(a.startswith('self.namespace in ') and db_e in a and not t for a, t in facts.items())
        else:
            case = f'adopted entry `{km}`'
            ok = sym.holds(facts, 'self.namespace == self.DEFAULT_NAMESPACE') and sym.holds(facts, f'len({db_e}) == 1') and km == f'next(iter({db_e}.values()))'
        c = cases.setdefault(case, {'ok': True, 'fresh': True, 'w': [], 'src': set()})
        c['ok'] &= ok
        c['fresh'] &= fresh
        c['src'].add(db_src)
        if not ok or not fresh:
            c['w'].append(' '.join(w) + f' facts={sorted((a, t) for a, t in facts.items())}')
    for case, c in sorted(cases.items()):
        R.check(c['fresh'], rule, f'{JS}.load | {case} | database read from the file', 'on every path the database returned was read from the key file during this call (or the file is missing)',
                f'load() can return a database that was not read from the file in this call ({sorted(c["src"])}): another store instance sharing the file has its updates overwritten by the next save()', p.loc(fn), c['w'][:2])
        R.check(c['ok'], rule, f'{JS}.load | {case} | ownership', 'the key map handed out belongs to this namespace (own entry; new entry when absent; the only entry adopted by the default namespace only)',
                f'load() hands out a key map the namespace does not own ({case}): one namespace reads and overwrites another\'s keys', p.loc(fn), c['w'][:2])
    R.check(set(cases) == {'own entry', 'new entry', 'adopted entry `next(iter(db.values()))`'}, rule, f'{JS}.load | cases', 'namespace present / default namespace adopting the only entry / new namespace', f'return cases {sorted(cases)}', p.loc(fn))


def fields_rule(ctx):
    R, p = ctx.r, ctx.p
    rule = 'C15.fields'
    for q, bytes_fields in ((f'{K}.PairingKeys.Key', {'value', 'rand'}), (f'{K}.PairingKeys', set())):
        ci = p.cls(q)
        if ci is None or 'to_dict' not in ci.methods or 'from_dict' not in ci.methods:
            R.bad(rule, q, 'anchor missing')
            continue
        declared = [s.target.id for s in ci.node.body if isinstance(s, ast.AnnAssign) and isinstance(s.target, ast.Name)]
        td, fd = ci.methods['to_dict'], ci.methods['from_dict']
        written = set()
        for n in ast.walk(td):
            if isinstance(n, ast.Assign) and isinstance(n.targets[0], ast.Subscript) and is_const(n.targets[0].slice):
                written.add(const(n.targets[0].slice))
            if isinstance(n, ast.Dict):
                written |= {const(k) for k in n.keys if k is not None and is_const(k)}
        read = set()
        for n in ast.walk(fd):
            if isinstance(n, ast.Call) and call_attr(n) in ('get', 'key_from_dict') and n.args and is_const(n.args[-1] if call_attr(n) == 'key_from_dict' else n.args[0]):
                read.add(const(n.args[-1] if call_attr(n) == 'key_from_dict' else n.args[0]))
            if isinstance(n, ast.Subscript) and is_const(n.slice) and isinstance(const(n.slice), str):
                read.add(const(n.slice))
        R.check(set(declared) == written == read, rule, f'{q} | field coverage', f'{len(declared)} fields = keys written = keys read',
                f'fields {sorted(declared)} vs written {sorted(written)} vs read {sorted(read)}: a field is lost or invented on the way through the file', p.loc(ci.node))
        # constructor binding in from_dict
        cons = [c for c in calls_in(fd) if call_attr(c) in ('cls', 'PairingKeys')]
        if cons:
            c = cons[-1]
            if c.keywords:
                bad = [k.arg for k in c.keywords if k.arg and not ((f"'{k.arg}'" in norm(k.value)) or norm(k.value) == k.arg)]
                R.check(not bad and {k.arg for k in c.keywords} == set(declared), rule, f'{q} | from_dict binding', 'every field filled from the key of its own name', f'from_dict binds {bad} from a differently named key', p.loc(c))
            else:
                R.check([dotted(a) for a in c.args] == declared, rule, f'{q} | from_dict binding', 'positional arguments in field order', f'from_dict passes {[dotted(a) for a in c.args]} for fields {declared}', p.loc(c))
        # optional fields: omitted only when None
        guards = [norm(n.test) for n in walk_local(td) if isinstance(n, ast.If)]
        odd = [g for g in guards if not (g.startswith('self.') and g.endswith(' is not None'))]
        R.check(not odd and bool(guards), rule, f'{q} | optional fields', f'{len(guards)} optional fields written iff `is not None`', f'optional field guard(s) {odd} drop legitimate values such as 0 or an empty byte string', p.loc(td))
        # ... each on its own: an `elif` / `else` chain writes one optional field only when an earlier one is absent
        ifs = [n for n in walk_local(td) if isinstance(n, ast.If)]
        chained = [norm(n.test) for n in ifs if n.orelse or any(n in getattr(o, 'orelse', []) for o in ifs)]
        R.check(not chained, rule, f'{q} | optional fields independent', 'each optional field has its own `if` (no elif / else chain)', f'the guards {chained} are chained with elif / else: a field is written only when the field tested before it is absent, so a record holding both loses one on the way to the file', p.loc(td))
        # an optional field that is absent from the file reads back as None (no other default)
        optional = {s_.target.id for s_ in ci.node.body if isinstance(s_, ast.AnnAssign) and isinstance(s_.target, ast.Name) and ' | None' in text(s_.annotation)}
        defaults = [(const(n.args[0]), norm(n.args[1]) if len(n.args) > 1 else norm(kwarg(n, 'default'))) for n in ast.walk(fd) if isinstance(n, ast.Call) and call_attr(n) == 'get' and n.args and is_const(n.args[0]) and (len(n.args) > 1 or kwarg(n, 'default') is not None)]
        wrong = [(k, d) for k, d in defaults if k in optional and d != 'None']
        R.check(not wrong, rule, f'{q} | absent optional field reads as None', f'{len(optional)} optional fields, none given another default on read', f'from_dict reads {wrong} with a default other than None: a value that was stored as "absent" comes back as a value (ediv None -> 0), and rewriting the entry changes the file', p.loc(fd))
        for bf in bytes_fields:
            w = any(norm(n).endswith(f"self.{bf}.hex()") or f"'{bf}': self.{bf}.hex()" in norm(n) for n in ast.walk(td) if isinstance(n, (ast.Assign, ast.Dict)))
            r_ = 'bytes.fromhex' in norm(fd) and (f"bytes.fromhex(key_dict['{bf}'])" in norm(fd) or f'{bf} = bytes.fromhex({bf})' in norm(fd))
            R.check(w and r_, rule, f'{q}.{bf} | hex pairing', 'hex() on write, bytes.fromhex() on read', f'bytes field {bf} is not hex/fromhex paired', p.loc(td))



def update_precedence(ctx):
    """An update overrides what was stored (later updates win)."""
    R, p = ctx.r, ctx.p
    rule = 'C15.update-precedence'
    fn = p.find(f'{JS}.update')
    if fn is None:
        R.bad(rule, f'{JS}.update', 'anchor missing')
        return
    keys_param = fn.args.args[2].arg
    name_param = fn.args.args[1].arg
    defs = {t.id: n.value for n in walk_local(fn) if isinstance(n, ast.Assign) and len(n.targets) == 1 for t in n.targets if isinstance(t, ast.Name)}

    def origin(e):
        for _ in range(4):
            if isinstance(e, ast.Name) and e.id in defs:
                e = defs[e.id]
        t = norm(e)
        if f'{keys_param}.to_dict()' in t:
            return 'new'
        if 'key_map' in t:
            return 'stored'
        return 'other'
    ups = [c for c in calls_in(fn) if call_attr(c) == 'update' and isinstance(c.func, ast.Attribute) and c.args]
    ok = len(ups) == 1 and origin(ups[0].func.value) == 'stored' and origin(ups[0].args[0]) == 'new'
    replaced = any(isinstance(n, ast.Assign) and isinstance(n.targets[0], ast.Subscript) and norm(n.targets[0]) == f'key_map[{name_param}]' and origin(n.value) == 'new' and not ups for n in walk_local(fn))
    R.check(ok or replaced, rule, f'{JS}.update | new fields win', 'the stored entry receives the new fields (stored.update(new)) or is replaced by them',
            'update() keeps the stored fields in preference to the new ones: re-pairing does not replace the old keys, the store no longer equals the updates applied in order', p.loc(fn))


def zero_valid_rule(ctx):
    from ..zero_valid import zero_valid_attrs
    zero_valid_attrs(ctx, 'C15.zero-valid', ['bumble.keys'], ['bumble.keys', 'bumble.device', 'bumble.smp'], int_like=('int', 'AddressType'))


def walrus_rule(ctx):
    from .. import generic_rules as g
    g.walrus_compare(ctx, 'C15.walrus', ['bumble.keys'])


def one_shot_rule(ctx):
    from ..generic_rules import one_shot_iterators
    one_shot_iterators(ctx, 'C15.one-shot', ['bumble.keys'])


def namespace_resolution(ctx):
    """Which part of the file a store works on is decided in one place, load(): it may adopt the file's only namespace for
    the default store.  Every accessor uses the key map load() returns; none indexes the database by self.namespace itself
    (get() would then look elsewhere than update() / get_all() / delete())."""
    R, p = ctx.r, ctx.p
    rule = 'C15.namespace-resolution'
    ci = p.cls('bumble.keys.JsonKeyStore')
    if ci is None:
        R.bad(rule, 'bumble.keys.JsonKeyStore', 'anchor missing')
        return
    n = 0
    for name, fn in sorted(ci.methods.items()):
        if name in ('__init__', 'load', 'from_device'):
            continue
        uses = [x for x in walk_local(fn) if isinstance(x, ast.Attribute) and dotted(x) == 'self.namespace']
        keyed = []
        for u in uses:
            par = getattr(u, '_parent', None)
            if isinstance(par, ast.Subscript) and par.slice is u:
                keyed.append(u)
            if isinstance(par, ast.Call) and u in par.args and call_attr(par) in ('get', 'setdefault', 'pop'):
                keyed.append(u)
        loads = [c for c in calls_in(fn) if dotted(c.func) == 'self.load']
        if loads or uses:
            n += 1
        R.check(not keyed, rule, f'bumble.keys.JsonKeyStore.{name}', 'works on the key map returned by load()' if loads else 'does not index the database',
                f'{name}() indexes the database by self.namespace itself instead of using the key map load() resolved: for a default-namespace store that adopted the file\'s only namespace, {name}() reads / writes another place than the other accessors', p.loc(fn))
    R.check(n >= 4, rule, 'bumble.keys.JsonKeyStore | accessors', f'{n} accessors go through load()', f'only {n} accessors found')


def filename_resolved(ctx):
    """JsonKeyStore replaces its file atomically (temporary file + os.replace next to it): the file name is therefore
    canonicalised with symbolic links followed (Path.resolve / os.path.realpath), or a store opened through a link replaces
    the link and leaves the shared file untouched."""
    R, p = ctx.r, ctx.p
    rule = 'C15.filename-resolved'
    fn = p.find(f'{K}.JsonKeyStore.__init__')
    if fn is None:
        R.bad(rule, f'{K}.JsonKeyStore.__init__', 'anchor missing')
        return
    sts = [s_ for s_ in walk_local(fn) if isinstance(s_, ast.Assign) and dotted(s_.targets[0]) == 'self.filename' and any(isinstance(x, ast.Name) and x.id == 'filename' for x in ast.walk(s_.value))]
    R.check(len(sts) == 1, rule, f'{K}.JsonKeyStore.__init__ | configured file name', 'one assignment from the `filename` argument', f'{len(sts)} assignments', p.loc(fn))
    for s_ in sts:
        ok = any(call_attr(c) in ('resolve', 'realpath') for c in calls_in(s_))
        R.check(ok, rule, f'{K}.JsonKeyStore.__init__ | links followed', 'resolve() / realpath()', f'`{norm(s_)[:80]}` does not follow symbolic links: save() writes "<link>.tmp" and os.replace() turns the link itself into a regular file - the shared database is never updated and the two paths diverge', p.loc(s_))
    sv = p.find(f'{K}.JsonKeyStore.save')
    R.check(sv is not None and any(dotted(c.func) == 'os.replace' for c in calls_in(sv)), rule, f'{K}.JsonKeyStore.save | atomic replace', 'save() replaces the file with os.replace', 'save() no longer uses os.replace (anchor of this rule)', p.loc(sv) if sv is not None else '')


def key_lookup(ctx):
    """PairingKeys.key_from_dict reads the member it was asked for and nothing else: an absent member is None, it is not
    filled from another member (`ltk_central` from `ltk`)."""
    R, p = ctx.r, ctx.p
    rule = 'C15.key-lookup'
    fn = p.find(f'{K}.PairingKeys.key_from_dict')
    if fn is None:
        R.bad(rule, f'{K}.PairingKeys.key_from_dict', 'anchor missing')
        return
    params = [a.arg for a in fn.args.args if a.arg not in ('cls', 'self')]
    if len(params) < 2:
        R.bad(rule, f'{K}.PairingKeys.key_from_dict', 'signature changed (anchor)', p.loc(fn))
        return
    table, key = params[0], params[1]
    looks = [c.args[0] for c in calls_in(fn) if call_attr(c) in ('get', 'pop') and dotted(c.func.value) == table and c.args]
    looks += [s_.slice for s_ in walk_local(fn) if isinstance(s_, ast.Subscript) and dotted(s_.value) == table]
    bad = [x for x in looks if not (isinstance(x, ast.Name) and x.id == key)]
    R.check(bool(looks) and not bad, rule, f'{K}.PairingKeys.key_from_dict', f'{len(looks)} lookup(s), all by `{key}`', f'the stored entry is also looked up under `{norm(bad[0]) if bad else ""}`: a member that was never stored is read from another member, so what the store returns is not what was put in (a Secure Connections bond comes back with legacy role-specific LTKs)', p.loc(bad[0]) if bad else p.loc(fn))


def device_namespace(ctx):
    """JsonKeyStore.from_device falls back to the shared default namespace only for a device without any address: the
    random address is used whenever it is not the ANY_RANDOM placeholder, whatever its sub-type (a non-static random
    address is still that device's own name space; the default namespace aliases whatever single namespace a shared file
    has)."""
    R, p = ctx.r, ctx.p
    rule = 'C15.device-namespace'
    fn = p.find(f'{K}.JsonKeyStore.from_device')
    if fn is None:
        R.bad(rule, f'{K}.JsonKeyStore.from_device', 'anchor missing')
        return
    sts = [s_ for s_ in walk_local(fn) if isinstance(s_, ast.Assign) and dotted(s_.targets[0]) == 'namespace' and 'random_address' in norm(s_.value)]
    R.check(len(sts) == 1, rule, f'{K}.JsonKeyStore.from_device | random-address namespace', 'one assignment', f'{len(sts)} assignments', p.loc(fn))
    for s_ in sts:
        g = [(t, pol) for t, pol in paths.flat_guards(s_, stop=fn) if 'random_address' in norm(t)]
        ok = len(g) == 1 and isinstance(g[0][0], ast.Compare) and len(g[0][0].ops) == 1 and 'ANY_RANDOM' in norm(g[0][0]) and ((isinstance(g[0][0].ops[0], ast.NotEq) and g[0][1]) or (isinstance(g[0][0].ops[0], ast.Eq) and not g[0][1]))
        R.check(ok, rule, f'{K}.JsonKeyStore.from_device | condition', 'used whenever it differs from ANY_RANDOM', f'the random address names the namespace only if `{[norm(t) for t, _ in g]}`: a device whose random address does not satisfy it shares the default namespace, which load() aliases to the single namespace of a shared file - its updates and deletions land in another device\'s entries', p.loc(s_))


def store_key_verbatim_rule(ctx):
    from .c13 import store_key_verbatim
    store_key_verbatim(ctx, 'C15.store-key-verbatim')


RULES = [
    ('C15.store-key-verbatim', store_key_verbatim_rule),
    ('C15.device-namespace', device_namespace),
    ('C15.key-lookup', key_lookup),
    ('C15.filename-resolved', filename_resolved),
    ('C15.namespace-resolution', namespace_resolution),
    ('C15.one-shot', one_shot_rule),
    ('C15.walrus', walrus_rule),
    ('C15.zero-valid', zero_valid_rule),
    ('C15.update-precedence', update_precedence),
    ('C15.atomic-write', atomic_write),
    ('C15.load-shape', load_shape),
    ('C15.fields', fields_rule),
]

VARIANTS = [
    ('replace inside the with block', 'bumble/keys.py',
     "            json.dump(db, output, sort_keys=True, indent=4)\n\n        # Atomically replace the previous file\n        os.replace(temp_filename, self.filename)\n",
     "            json.dump(db, output, sort_keys=True, indent=4)\n\n            # Atomically replace the previous file\n            os.replace(temp_filename, self.filename)\n", 'fire', 'C15.atomic-write'),
    ('write the key file directly', 'bumble/keys.py', "        with open(temp_filename, 'w', encoding='utf-8') as output:\n", "        with open(self.filename, 'w', encoding='utf-8') as output:\n", 'fire', 'C15.atomic-write'),
    ('delete forgets to save', 'bumble/keys.py', "        del key_map[name]\n        await self.save(db)\n", "        del key_map[name]\n", 'fire', 'C15.atomic-write'),
    ('ediv dropped when zero', 'bumble/keys.py', "            if self.ediv is not None:\n", "            if self.ediv:\n", 'fire', 'C15.fields'),
    ('link_key_type not written', 'bumble/keys.py', "        if self.link_key_type is not None:\n            keys['link_key_type'] = self.link_key_type\n\n", "", 'fire', 'C15.fields'),
    ('load returns namespace name', 'bumble/keys.py', "            return (db, next(iter(db.values())))\n", "            return next(iter(db.items()))\n", 'fire', 'C15.load-shape'),
    ('benign: indent 2', 'bumble/keys.py', "            json.dump(db, output, sort_keys=True, indent=4)\n", "            json.dump(db, output, sort_keys=True, indent=2)\n", 'silent', ''),
    ('any namespace adopts the only entry', 'bumble/keys.py', "        if self.namespace == self.DEFAULT_NAMESPACE and len(db) == 1:", "        if len(db) == 1:", 'fire', 'C15.load-shape'),
    ('database cached on the instance', 'bumble/keys.py', "        try:\n            with open(self.filename, encoding='utf-8') as json_file:\n                db = json.load(json_file)\n        except FileNotFoundError:\n            db = {}\n", "        db = getattr(self, '_db', None)\n        if db is None:\n            try:\n                with open(self.filename, encoding='utf-8') as json_file:\n                    db = json.load(json_file)\n            except FileNotFoundError:\n                db = {}\n            self._db = db\n", 'fire', 'C15.load-shape'),
    ('benign: default-namespace test written the other way', 'bumble/keys.py', "        if self.namespace == self.DEFAULT_NAMESPACE and len(db) == 1:", "        if len(db) == 1 and self.DEFAULT_NAMESPACE == self.namespace:", 'silent', ''),
]
