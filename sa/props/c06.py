"""C06 — the virtual link connects the right peers and delivers only between them."""
from __future__ import annotations

import ast

from .. import paths
from ..core import FUNC, call_attr, calls_in, const, dotted, is_const, kwarg, norm, text, walk_local

EXPLANATION = [
    'C06.set-records-what-it-sent: every AdvertisingSet.set_<x> that sends <x> in an HCI command records the same expression in self.<x>.',
    "C06.connect-ind-address: shared with C03 / C05: CONNECT_IND announces the address the central's Connection is registered under.",
    'C06.adv-set-kept: on_hci_le_set_extended_advertising_parameters_command constructs an AdvertisingSet only for a handle not yet in self.advertising_sets.',
    'C06.lookup-by-address-only: LocalLink.find_classic_controller / find_le_controller select a controller by an address comparison only.',
    'C06.connect-test-reached: every path through Controller.on_advertising_pdu reaches the test of pending_le_connection (no early exit out of the scanning branch).',
    'C06.enum-default: no `value or Enum.MEMBER` default in device / controller / host / link for an enum that has a member 0 (PUBLIC = 0 is a legitimate own-address type).',
    'C06.own-address-agreement: every Device method that sends LE Set Random Address passes the value the device holds in self.random_address afterwards (the one it stores in the same method, or self.random_address itself).',
    'C06.adv-data-verbatim: the LE set-(extended-)advertising-data / scan-response-data handlers use command.advertising_data / command.scan_response_data as received (no method call, slice or arithmetic on it).',
    'C06.link-address-fixed: in bumble.controller the self_address / peer_address of a link are passed to the Connection constructor and never assigned on an existing connection object.',
    'C06.initiate-while-scanning: in Controller.on_advertising_pdu the path to create_le_connection carries no condition on the scan state: reporting to a scanner and completing a pending connection are independent.',
    'C06.public-address-type: both places where Controller builds its public address from a string (constructor and property setter) pass the PUBLIC_DEVICE_ADDRESS type.',
    'C06.address-equality: Address.__eq__ compares exactly the address bytes and the public / random kind (is_public), so identity-typed and device-typed forms of one address are equal where the controller matches pending connections against advertisers.',
    'C06.pdu-carriers: the link-layer PDU classes of bumble.ll are plain carriers: none of their methods assigns a field (no __post_init__ normalisation), so advertising and data payloads reach the peer controller as built.',
    'C06.match-arms: in the match statements of the anchored modules no class arm comes after an arm for one of its base classes (class patterns are isinstance tests in order: the later arm would never run).',
    'C06.derived-index: a controller / host / device / link table that is filled with objects taken out of another table of the same class (a lookup cache) loses its entry in every method that removes an entry from the source table.',
    'C06.shared-state: no class of the anchored modules keeps per-instance state in an object shared by all instances (an empty mutable container or synchronisation object as class-level default that is read through self and not rebound in __init__, or as a dataclass field default); process-wide registries are listed by name.',
    'C06.lmp-pending: Controller.send_lmp_packet returns, on every path, a future created by that very call and registers it under (peer, opcode): a second request to the same peer can never be resolved by the answer to an earlier one.',
    'C06.pending-owner: a pending-procedure slot of the controller (pending_le_connection, ...) is cleared only in functions that read it first, i.e. by the code that concludes or cancels that very procedure.',
    'C06.adv-address: the address an advertiser announces (and against which connect requests are matched) is, with a one-level inlining of controller helpers, the controller public address or the random address configured for that very advertiser (controller-wide for legacy advertising, per set for extended advertising), selected by own_address_type; the per-set writer stores into the set named by the command.',
    'C06.addr-origin: the identity under which a controller stores an LE connection (the peer\'s address taken from the opposite '
    'field of the connect PDU) is the identity every later sender uses: LL control PDUs and ACL data are sent from the connection\'s '
    'own self_address, and receivers look connections up by that sender address.',
    'C06.waiter-match: every closure that resolves a pending connect() future from a connection / failure event tests transport and '
    '(role or peer address) first (sibling rule: connect_le vs connect_classic).',
    'C06.adv-dataflow: every attribute written by a "set ... data" advertising command is read on a path to the link or to a scan report.',
    'C06.handles: allocate_connection_handle scans every table whose values carry a handle; new entries take their handle from it; '
    'both ends report the peer address from the opposite PDU field; advertising is not echoed to the sender.',
    'C06.disconnect-both: every branch of the Disconnect command that finds a link object tells the peer and completes locally; '
    'the peer-side handlers emit the completion and drop the table entry.',
    'Not decided: exactly-once in-order delivery among n devices (schedules).',
]
ASSUMPTIONS = ['loop.call_soon preserves order (asyncio FIFO ready queue)']

CTRL = 'bumble.controller.Controller'
LINK = 'bumble.link.LocalLink'


def addr_origin(ctx):
    R, p = ctx.r, ctx.p
    rule = 'C06.addr-origin'
    sa = p.find(f'{LINK}.send_acl_data')
    sl = p.find('bumble.controller.Connection.send_ll_control_pdu')
    oa = p.find(f'{CTRL}.on_link_acl_data')
    oc = p.find(f'{CTRL}.on_ll_control_pdu')
    ci = p.find(f'{CTRL}.on_le_connect_ind')
    cl = p.find(f'{CTRL}.create_le_connection')
    for q, n in ((f'{LINK}.send_acl_data', sa), ('bumble.controller.Connection.send_ll_control_pdu', sl), (f'{CTRL}.on_link_acl_data', oa), (f'{CTRL}.on_ll_control_pdu', oc), (f'{CTRL}.on_le_connect_ind', ci), (f'{CTRL}.create_le_connection', cl)):
        if n is None:
            R.bad(rule, q, f'anchor missing: {q}')
    if not all((sa, sl, oa, oc, ci, cl)):
        return
    # stores
    def stores(fn):
        return [(norm(n.targets[0].slice), norm(n.value)) for n in walk_local(fn) if isinstance(n, ast.Assign) and isinstance(n.targets[0], ast.Subscript) and norm(n.targets[0].value) == 'self.le_connections']

    defs_ci = {dotted(n.targets[0]): norm(n.value) for n in walk_local(ci) if isinstance(n, ast.Assign) and len(n.targets) == 1 and isinstance(n.targets[0], ast.Name)}
    st = stores(ci)
    R.check(st == [('peer_address', 'connection')] and defs_ci.get('peer_address') == 'packet.initiator_address', rule, f'{CTRL}.on_le_connect_ind | store key', 'peripheral stores the connection under the initiator address carried by the PDU', f'peripheral-side store: {st}, peer_address = {defs_ci.get("peer_address")}', p.loc(ci))
    conn = [c for c in calls_in(ci) if call_attr(c) == 'Connection']
    R.check(len(conn) == 1 and norm(kwarg(conn[0], 'self_address')) == 'packet.advertiser_address' and norm(kwarg(conn[0], 'peer_address')) == 'peer_address', rule, f'{CTRL}.on_le_connect_ind | identities', 'self = advertiser address, peer = initiator address of the PDU', 'peripheral-side connection identities are not taken from the opposite PDU fields', p.loc(ci))
    st = stores(cl)
    pdu = [c for c in calls_in(cl) if call_attr(c) == 'ConnectInd']
    ok = len(pdu) == 1 and norm(kwarg(pdu[0], 'initiator_address')) == 'self_address' and norm(kwarg(pdu[0], 'advertiser_address')) == 'peer_address'
    conn = [c for c in calls_in(cl) if call_attr(c) == 'Connection']
    ok2 = len(conn) == 1 and norm(kwarg(conn[0], 'self_address')) == 'self_address' and norm(kwarg(conn[0], 'peer_address')) == 'peer_address'
    R.check(ok and ok2 and st == [('peer_address', 'connection')], rule, f'{CTRL}.create_le_connection | identities', 'the address announced as initiator in the PDU is the connection\'s self_address; stored under the advertiser address', 'central-side identities do not match what is announced in the connect PDU', p.loc(cl))
    sdef = [n.value for n in walk_local(cl) if isinstance(n, ast.Assign) and dotted(n.targets[0]) == 'self_address']
    ok = len(sdef) == 1 and isinstance(sdef[0], ast.IfExp) and norm(sdef[0].body) == 'self.public_address' and norm(sdef[0].orelse) == 'self.random_address' and 'own_address_type == hci.OwnAddressType.PUBLIC' in norm(sdef[0].test)
    R.check(ok, rule, f'{CTRL}.create_le_connection | own address', 'public or random address according to own_address_type', 'own address selection changed', p.loc(cl))
    # senders
    R.check(norm(kwarg(calls_in(sl)[0], 'sender_address')) == 'self.self_address' and norm(kwarg(calls_in(sl)[0], 'receiver_address')) == 'self.peer_address', rule, 'bumble.controller.Connection.send_ll_control_pdu', 'LL control PDUs are sent from the connection\'s self_address to its peer_address',
            f'LL control PDUs are sent from `{norm(kwarg(calls_in(sl)[0], "sender_address"))}`: the peer stores this connection under our self_address, so PDUs from a public-address device are not recognised (e.g. its disconnection is never reported)', p.loc(sl))
    le_branch = next((n for n in walk_local(sa) if isinstance(n, ast.If) and 'PhysicalTransport.LE' in norm(n.test)), None)
    src = {dotted(n.targets[0]): n.value for n in (le_branch.body if le_branch else []) if isinstance(n, ast.Assign)}
    s = src.get('source_address')
    ok = s is not None and '.self_address' in norm(s) and 'le_connections.get(destination_address)' in norm(src.get('connection')) if src.get('connection') is not None else False
    R.check(bool(ok), rule, f'{LINK}.send_acl_data | LE source', 'LE data is sent from the self_address of the sender\'s connection to that destination', f'LE data source address is `{norm(s) if s is not None else None}`: not the address the peer knows this connection by', p.loc(sa))
    cb = next((n for n in walk_local(sa) if isinstance(n, ast.If) and 'PhysicalTransport.BR_EDR' in norm(n.test)), None)
    csrc = {dotted(n.targets[0]): norm(n.value) for n in (cb.body if cb else []) if isinstance(n, ast.Assign)}
    R.check(csrc.get('source_address') == 'sender_controller.public_address' and csrc.get('destination_controller') == 'self.find_classic_controller(destination_address)', rule, f'{LINK}.send_acl_data | classic source', 'classic data from/to public addresses', 'classic routing changed', p.loc(sa))
    # receivers
    R.check('connection = self.le_connections.get(sender_address)' in norm(oa) and 'connection = self.classic_connections.get(sender_address)' in norm(oa), rule, f'{CTRL}.on_link_acl_data | lookup', 'connection looked up by the sender address', 'receiver lookup changed', p.loc(oa))
    R.check('self.le_connections.get(sender_address)' in norm(oc), rule, f'{CTRL}.on_ll_control_pdu | lookup', 'connection looked up by the sender address', 'LL control lookup changed', p.loc(oc))
    # find_le_controller matches the destination by the receiver's own address for that connection
    fl = p.find(f'{LINK}.find_le_controller')
    R.check(fl is not None and 'address == connection.self_address' in norm(fl), rule, f'{LINK}.find_le_controller', 'destination controller = the one owning a connection whose self_address is the destination', 'destination lookup changed', p.loc(fl) if fl else '')
    # delivery goes only to the found controller, in order
    for fn, what in ((sa, 'on_link_acl_data'), (p.find(f'{LINK}.send_ll_control_pdu'), 'on_ll_control_pdu'), (p.find(f'{LINK}.send_lmp_packet'), 'on_lmp_packet')):
        if fn is None:
            continue
        cs = [c for c in calls_in(fn) if call_attr(c) == 'call_soon']
        R.check(len(cs) == 1 and what in norm(cs[0]), rule, f'{p.qual_of(fn)} | single delivery', f'one call_soon to the destination\'s {what}', f'{p.qual_of(fn)} does not deliver exactly once to the destination', p.loc(fn))
    adv = p.find(f'{LINK}.send_advertising_pdu')
    if adv is not None:
        R.check('if c != sender_controller:' in norm(adv), rule, f'{LINK}.send_advertising_pdu', 'broadcast excludes the sender', 'advertising PDUs are echoed to the sender', p.loc(adv))


def waiter_match(ctx):
    R, p = ctx.r, ctx.p
    rule = 'C06.waiter-match'
    dev = p.cls('bumble.device.Device')
    if dev is None:
        R.bad(rule, 'bumble.device.Device', 'anchor missing')
        return
    n = 0
    for mname in ('connect_le', 'connect_classic'):
        m = dev.methods.get(mname)
        if m is None:
            R.bad(rule, f'bumble.device.Device.{mname}', 'anchor missing')
            continue
        transport = 'PhysicalTransport.LE' if mname == 'connect_le' else 'PhysicalTransport.BR_EDR'
        for cl in [x for x in ast.walk(m) if isinstance(x, FUNC) and x is not m and x.name in ('on_connection', 'on_connection_failure')]:
            n += 1
            param = cl.args.args[0].arg
            sets = [c for c in ast.walk(cl) if isinstance(c, ast.Call) and norm(c.func) in ('pending_connection.set_result', 'pending_connection.set_exception')]
            key = f'bumble.device.Device.{mname}.{cl.name}'
            if not sets:
                R.bad(rule, key, 'closure does not settle the pending connection', p.loc(cl))
                continue
            for c in sets:
                g = [norm(t) for t, pol in paths.flat_guards(c, stop=cl) if pol]
                has_t = f'{param}.transport == {transport}' in g
                if cl.name == 'on_connection':
                    has_d = any(x in g for x in (f'{param}.role == hci.Role.CENTRAL', f'{param}.peer_address == peer_address'))
                    R.check(has_t and has_d, rule, key, f'guarded by {g}', f'a pending {mname}() is resolved by a connection event without checking transport and role/peer (guards: {g}): an unrelated connection is handed to the caller', p.loc(c))
                else:
                    R.check(has_t, rule, key, f'guarded by {g}', f'a pending {mname}() is failed by a failure event of any transport (guards: {g})', p.loc(c))
        s = norm(m)
        R.check('self.remove_listener(self.EVENT_CONNECTION, on_connection)' in s and 'self.remove_listener(self.EVENT_CONNECTION_FAILURE, on_connection_failure)' in s, rule, f'bumble.device.Device.{mname} | listeners removed', 'listeners removed in finally', 'event listeners of a finished connect() stay registered', p.loc(m))
    R.floor(rule, 4, 'closures')


def adv_dataflow(ctx):
    R, p = ctx.r, ctx.p
    rule = 'C06.adv-dataflow'
    ctl = p.cls(CTRL)
    m = p.modules.get('bumble.controller')
    if ctl is None:
        R.bad(rule, CTRL, 'anchor missing')
        return
    written = {}
    for name, fn in ctl.methods.items():
        if name.startswith('on_hci_le_set_') and name.endswith('_data_command'):
            for n in walk_local(fn):
                tg = None
                if isinstance(n, ast.Assign):
                    tg = n.targets[0]
                elif isinstance(n, ast.Call) and isinstance(n.func, ast.Attribute) and n.func.attr == 'extend':
                    tg = n.func.value
                if isinstance(tg, ast.Attribute) and tg.attr in ('advertising_data', 'scan_response_data', 'data'):
                    written.setdefault(tg.attr, set()).add(name)
    # readers anywhere in controller.py outside the set-data handlers
    for attr, writers in sorted(written.items()):
        readers = []
        for fn in [x for x in ast.walk(m.tree) if isinstance(x, FUNC)]:
            if fn.name in writers:
                continue
            for n in ast.walk(fn):
                if isinstance(n, ast.Attribute) and n.attr == attr and isinstance(n.ctx, ast.Load) and (dotted(n.value) or '').split('.')[0] in ('self', 'adv_set', 'advertiser'):
                    par = getattr(n, '_parent', None)
                    if isinstance(par, ast.Attribute) and par.attr in ('extend', 'clear'):
                        continue
                    readers.append(p.qual_of(fn))
        R.check(bool(readers), rule, f'{CTRL} | {attr}', f'written by {sorted(writers)}, read by {sorted(set(readers))}',
                f'`{attr}` is stored by {sorted(writers)} but never read: the data never reaches the link or a scan report (scanners receive something else)', '')
    R.check(len(written) >= 2, rule, f'{CTRL} | set-data handlers', f'{sorted(written)}', f'only {sorted(written)} recognised')


def adv_address(ctx):
    """The address each advertiser announces comes from its own configuration: the controller's public address,
    or (legacy) the controller's random address / (extended) the random address set for *that* advertising set."""
    R, p = ctx.r, ctx.p
    rule = 'C06.adv-address'
    ctl = p.cls(CTRL)
    EXPECT = {
        'bumble.controller.LegacyAdvertiser': {'self.controller.public_address', 'self.controller.random_address'},
        'bumble.controller.AdvertisingSet': {'None', 'self.controller.public_address', 'self.random_address'},
    }

    def returns(fn, prefix='', depth=1):
        out = set()
        for n in walk_local(fn):
            if isinstance(n, ast.Return):
                v = n.value
                vals = [v.body, v.orelse] if isinstance(v, ast.IfExp) else [v]
                for x in vals:
                    if x is None:
                        out.add('None')
                    elif isinstance(x, ast.Call) and (dotted(x.func) or '').startswith('self.controller.') and depth and ctl is not None and (dotted(x.func) or '').split('.')[-1] in ctl.methods:
                        out |= returns(ctl.methods[(dotted(x.func)).split('.')[-1]], 'self.controller.', depth - 1)
                    else:
                        t = norm(x)
                        out.add(prefix + t[5:] if prefix and t.startswith('self.') else t)
        return out
    for q, expect in EXPECT.items():
        ci = p.cls(q)
        fn = ci.methods.get('address') if ci else None
        if fn is None:
            R.bad(rule, q + '.address', 'anchor missing')
            continue
        got = returns(fn)
        R.check(got == expect, rule, q + '.address | sources', f'announces one of {sorted(expect)}', f'the advertiser address is taken from {sorted(got)} (expected {sorted(expect)}): an advertiser configured with its own random address is announced under, and answers connection requests for, another address', p.loc(fn))
        tests = [norm(t.test) for t in ast.walk(fn) if isinstance(t, (ast.If, ast.IfExp))]
        if ctl is not None:
            for c in calls_in(fn):
                nm = (dotted(c.func) or '').split('.')[-1]
                if (dotted(c.func) or '').startswith('self.controller.') and nm in ctl.methods:
                    tests += [norm(t.test) for t in ast.walk(ctl.methods[nm]) if isinstance(t, (ast.If, ast.IfExp))]
        R.check(any('own_address_type' in t and 'PUBLIC' in t for t in tests), rule, q + '.address | selector', 'selected by own_address_type (public or not)', f'address selection is not by own_address_type: {tests}', p.loc(fn))
    # the writer of the per-set random address stores into the set looked up by the command's handle
    w = ctl.methods.get('on_hci_le_set_advertising_set_random_address_command') if ctl else None
    if w is None:
        R.bad(rule, f'{CTRL}.on_hci_le_set_advertising_set_random_address_command', 'anchor missing')
    else:
        st = [norm(n) for n in walk_local(w) if isinstance(n, ast.Assign) and isinstance(n.targets[0], ast.Attribute) and n.targets[0].attr == 'random_address']
        R.check(st == ['self.advertising_sets[handle].random_address = command.random_address'] and 'handle = command.advertising_handle' in norm(w), rule, f'{CTRL}.on_hci_le_set_advertising_set_random_address_command | store',
                'stores the address in the set named by the command', f'per-set random address store changed: {st}', p.loc(w))
    # receivers compare the requested address against the same property
    ci_ = ctl.methods.get('on_le_connect_ind') if ctl else None
    if ci_ is not None:
        cmp_ = [norm(n) for n in ast.walk(ci_) if isinstance(n, ast.Compare) and 'packet.advertiser_address' in norm(n)]
        R.check(len(cmp_) >= 2 and all('.address' in c for c in cmp_), rule, f'{CTRL}.on_le_connect_ind | match', f'connect requests are matched against the advertisers\' announced address ({len(cmp_)} comparisons)', f'connect request matching changed: {cmp_}', p.loc(ci_))


def handles(ctx):
    R, p = ctx.r, ctx.p
    rule = 'C06.handles'
    ctl = p.cls(CTRL)
    al = ctl.methods.get('allocate_connection_handle') if ctl else None
    if al is None:
        R.bad(rule, f'{CTRL}.allocate_connection_handle', 'anchor missing')
        return
    # tables whose values carry a handle: dict attributes annotated with Connection / ScoLink / CisLink values
    tables = set()
    for k, ann in ctl.annots.items():
        t = text(ann)
        if t.startswith('dict[') and any(x in t for x in ('Connection]', 'ScoLink]', 'CisLink]')):
            tables.add(k)
    scanned = {x.attr for x in ast.walk(al) if isinstance(x, ast.Attribute) and dotted(x.value) == 'self' and x.attr in tables}
    R.check(tables == scanned and len(tables) >= 5, rule, f'{CTRL}.allocate_connection_handle | tables', f'scans all {len(tables)} handle-bearing tables {sorted(tables)}', f'handle allocation ignores {sorted(tables - scanned)}: a new link can reuse a live handle', p.loc(al))
    R.check('for handle in range(1, 3839 + 1)' in norm(al) and 'if handle not in current_handles' in norm(al), rule, f'{CTRL}.allocate_connection_handle | range', 'smallest free handle in 0x0001..0x0EFF', 'handle range or freshness test changed', p.loc(al))
    # constructions of handle-bearing objects use the allocator
    n = 0
    for name, fn in ctl.methods.items():
        for c in calls_in(fn):
            if call_attr(c) in ('Connection', 'ScoLink', 'CisLink') and (kwarg(c, 'handle') is not None or c.args):
                h = kwarg(c, 'handle')
                if h is None:
                    continue
                n += 1
                hv = norm(h)
                defs = [norm(x.value) for x in walk_local(fn) if isinstance(x, ast.Assign) and dotted(x.targets[0]) == hv]
                ok = hv == 'self.allocate_connection_handle()' or 'self.allocate_connection_handle()' in defs or hv in ('0',) or (defs and all('handle' in d for d in defs))
                R.check(ok, rule, f'{CTRL}.{name} | {call_attr(c)} handle', f'handle = {hv} ({defs})', f'{call_attr(c)} created with handle `{hv}` that does not come from allocate_connection_handle()', p.loc(c))
    R.check(n >= 3, rule, f'{CTRL} | construction sites', f'{n}', f'only {n} handle-bearing constructions found')
    # both ends report the completion with the peer address of the connection just created
    for fname in ('on_le_connect_ind', 'create_le_connection'):
        fn = ctl.methods.get(fname)
        ev = [c for c in calls_in(fn) if call_attr(c) == 'HCI_LE_Connection_Complete_Event'] if fn else []
        # failure completions (a status other than SUCCESS, no connection) conclude the procedure without a handle
        ev = [c for c in ev if (norm(kwarg(c, 'status')) if kwarg(c, 'status') is not None else '').split('.')[-1] in ('SUCCESS', 'HCI_SUCCESS')]
        ok = len(ev) == 1 and norm(kwarg(ev[0], 'peer_address')) == 'peer_address' and 'connection.handle' in norm(kwarg(ev[0], 'connection_handle'))
        R.check(ok, rule, f'{CTRL}.{fname} | completion event', 'reports the handle just allocated and the peer address of the new connection', 'connection complete event does not report the new connection\'s handle / peer address', p.loc(fn) if fn else '')


def disconnect_both(ctx):
    R, p = ctx.r, ctx.p
    rule = 'C06.disconnect-both'
    ctl = p.cls(CTRL)
    fn = ctl.methods.get('on_hci_disconnect_command') if ctl else None
    if fn is None:
        R.bad(rule, f'{CTRL}.on_hci_disconnect_command', 'anchor missing')
        return
    # branches with a link: `if self.link...:` bodies
    n = 0
    for br in [x for x in walk_local(fn) if isinstance(x, ast.If) and norm(x.test).startswith('self.link')]:
        n += 1
        calls = [dotted(c.func) or '' for s in br.body for c in calls_in(s, include_lambda=True)]
        tells = any(c.endswith('send_lmp_packet') or c.endswith('send_ll_control_pdu') for c in calls)
        local = any(c in ('self.on_classic_disconnected', 'self.on_le_disconnected', 'self.on_classic_sco_disconnected', 'self.on_le_cis_disconnected') for c in calls)
        R.check(tells and local, rule, f'{CTRL}.on_hci_disconnect_command | branch@{n}', 'peer is told (LMP detach / LL terminate) and the local completion is emitted', f'a disconnect branch does not both tell the peer and complete locally (calls: {calls})', p.loc(br))
    R.check(n >= 4, rule, f'{CTRL}.on_hci_disconnect_command | branches', f'{n} link kinds', f'{n} branches found')
    for hname, ev, table in (('on_le_disconnected', 'HCI_Disconnection_Complete_Event', 'le_connections'), ('on_classic_disconnected', 'HCI_Disconnection_Complete_Event', 'classic_connections')):
        h = ctl.methods.get(hname)
        if h is None:
            R.bad(rule, f'{CTRL}.{hname}', 'anchor missing')
            continue
        s = norm(h)
        R.check(ev in s and (f'del self.{table}[' in s or f'self.{table}.pop(' in s), rule, f'{CTRL}.{hname}', 'emits the completion to the local host and drops the table entry', f'{hname} does not emit the completion and drop the {table} entry', p.loc(h))
    # peer side: TerminateInd / LmpDetach arms reach the same handlers
    oc = ctl.methods.get('on_ll_control_pdu')
    ol = ctl.methods.get('on_lmp_packet')
    if oc is not None:
        arm = [c for m_ in ast.walk(oc) if isinstance(m_, ast.Match) for c in m_.cases if norm(c.pattern) == 'll.TerminateInd()']
        R.check(len(arm) == 1 and any(dotted(x.func) == 'self.on_le_disconnected' for x in ast.walk(arm[0]) if isinstance(x, ast.Call)), rule, f'{CTRL}.on_ll_control_pdu | TerminateInd', 'peer termination is reported to the local host', 'a TerminateInd from the peer is not reported', p.loc(oc))
    if ol is not None:
        arm = [c for m_ in ast.walk(ol) if isinstance(m_, ast.Match) for c in m_.cases if norm(c.pattern) == 'lmp.LmpDetach()']
        R.check(len(arm) == 1 and any(dotted(x.func) == 'self.on_classic_disconnected' for x in ast.walk(arm[0]) if isinstance(x, ast.Call)), rule, f'{CTRL}.on_lmp_packet | LmpDetach', 'peer detach is reported to the local host', 'an LMP detach from the peer is not reported', p.loc(ol))



def pending_owner(ctx):
    """A pending-procedure slot is cleared only by code that consumed it (read it to conclude or cancel the procedure)."""
    R, p = ctx.r, ctx.p
    rule = 'C06.pending-owner'
    c = p.cls(CTRL)
    if c is None:
        R.bad(rule, CTRL, 'anchor missing')
        return
    n = 0
    for name, fn in sorted(c.methods.items()):
        clears = [a for a in walk_local(fn) if isinstance(a, ast.Assign) and is_const(a.value) and const(a.value) is None
                  and any((dotted(t) or '').startswith('self.pending_') for t in a.targets)]
        if name in ('__init__', 'reset', 'on_hci_reset_command'):
            continue  # wholesale (re)initialisation of the controller is not the end of one procedure
        for a in clears:
            slot = next(dotted(t) for t in a.targets if (dotted(t) or '').startswith('self.pending_'))
            n += 1
            reads = [x for x in walk_local(fn) if isinstance(x, ast.Attribute) and dotted(x) == slot and isinstance(x.ctx, ast.Load) and x.lineno <= a.lineno]
            R.check(bool(reads), rule, f'{CTRL}.{name} | clears {slot}', 'the slot is read (to conclude or cancel that procedure) before it is cleared',
                    f'{name} clears {slot} without ever looking at it: it discards a procedure that belongs to another role/peer (e.g. an incoming connection wiping a pending outgoing one), which then never completes', p.loc(a))
    R.check(n >= 2, rule, f'{CTRL} | pending slots', f'{n} clearing sites analysed', f'only {n} clearing sites of pending_* slots found')



def lmp_pending(ctx, rule='C06.lmp-pending'):
    """Each LMP request waits on its own, new, response future."""
    from .. import sym
    R, p = ctx.r, ctx.p
    fn = p.find(f'{CTRL}.send_lmp_packet')
    if fn is None:
        R.bad(rule, f'{CTRL}.send_lmp_packet', 'anchor missing')
        return
    res = paths.run(fn, sym.Sym(no_subst=sym.object_locals(fn) - {'future'}), sym.Sym.init())
    rets = {}
    for k, facts, store, extra, w in sym.exits(res):
        rets.setdefault(store.get('<return>'), []).append(' '.join(w))
    ok = bool(rets) and all(r is not None and r.endswith('create_future()') for r in rets)
    R.check(ok, rule, f'{CTRL}.send_lmp_packet | fresh future per request', 'every path returns a future created by this call',
            f'send_lmp_packet can hand back a future that already existed ({sorted(str(r) for r in rets)}): the second request to the same peer is "answered" by the response to the first one (a connection is reported before the peer accepted it)', p.loc(fn))
    stores = [n for n in walk_local(fn) if isinstance(n, ast.Assign) and any(isinstance(t, ast.Subscript) and 'classic_pending_commands' in norm(t) or (isinstance(t, ast.Subscript) and norm(t.slice) == 'packet.opcode') for t in n.targets)]
    R.check(len(stores) == 1 and 'receiver_address' in norm(fn) and any(norm(t.slice) == 'packet.opcode' for n in stores for t in n.targets if isinstance(t, ast.Subscript)), rule, f'{CTRL}.send_lmp_packet | registered by peer and opcode', 'the future is registered under (receiver address, opcode)', 'the pending LMP future is not registered under (peer, opcode)', p.loc(fn))


def shared_state_rule(ctx):
    from ..shared_state import shared_state
    shared_state(ctx, 'C06.shared-state', ['bumble.controller', 'bumble.link'])


def derived_index_rule(ctx):
    from ..generic_rules import derived_index
    derived_index(ctx, 'C06.derived-index', ['bumble.controller.Controller', 'bumble.host.Host', 'bumble.device.Device', 'bumble.link.LocalLink'])


def match_arms_rule(ctx):
    from ..generic_rules import match_arm_shadowing
    match_arm_shadowing(ctx, 'C06.match-arms', ['bumble.controller', 'bumble.link'])


def pdu_carriers(ctx):
    """The link-layer PDU classes carry what the controller puts in them: they do not rewrite their fields on construction
    (the virtual controller also carries extended advertising data in AdvInd, so a spec-size cut in the carrier truncates it)."""
    R, p = ctx.r, ctx.p
    rule = 'C06.pdu-carriers'
    m = p.modules.get('bumble.ll')
    if m is None:
        R.bad(rule, 'bumble.ll', 'anchor missing')
        return
    n = 0
    for c in [x for x in ast.walk(m.tree) if isinstance(x, ast.ClassDef)]:
        n += 1
        writes = [x for f in c.body if isinstance(f, (ast.FunctionDef, ast.AsyncFunctionDef)) for x in ast.walk(f) if isinstance(x, ast.Attribute) and isinstance(x.ctx, ast.Store) and dotted(x.value) == 'self']
        R.check(not writes, rule, f'bumble.ll.{c.name}', 'plain carrier: no method assigns its fields', f'{c.name} rewrites `self.{writes[0].attr if writes else ""}` after construction: what a controller sends is not what the peer controller receives (advertising data cut / altered in transit)', f'{m.rel}:{c.lineno}')
    R.check(n >= 8, rule, 'bumble.ll | PDU classes', f'{n} classes', f'only {n} classes found')


def address_equality(ctx, rule='C06.address-equality'):
    """Two Address objects are the same address when the bytes agree and both are public or both are random: an identity
    address (types 2 / 3, what a host with a resolving list names) equals the device address (types 0 / 1) an advertiser
    uses.  The virtual controller matches a pending connection against advertisers with `==`."""
    R, p = ctx.r, ctx.p
    fn = p.find('bumble.hci.Address.__eq__')
    if fn is None:
        R.bad(rule, 'bumble.hci.Address.__eq__', 'anchor missing')
        return
    cmp_attrs = set()
    for c in [x for x in ast.walk(fn) if isinstance(x, ast.Compare) and len(x.ops) == 1 and isinstance(x.ops[0], ast.Eq)]:
        l, r = c.left, c.comparators[0]
        if isinstance(l, ast.Attribute) and isinstance(r, ast.Attribute) and l.attr == r.attr and {dotted(l.value), dotted(r.value)} == {'self', fn.args.args[1].arg}:
            cmp_attrs.add(l.attr)
    R.check(cmp_attrs == {'address_bytes', 'is_public'}, rule, 'bumble.hci.Address.__eq__', 'compares the bytes and the public / random kind',
            f'Address equality compares {sorted(cmp_attrs)}: an identity-typed address no longer equals the same device-typed address, so a pending connection towards it never matches the advertiser and is never concluded', p.loc(fn))


def public_address_type(ctx):
    """Wherever the controller builds its public address from a string (constructor and setter are two implementations
    of the same thing) it builds a public-typed Address: the link finds controllers by comparing addresses, and equality
    includes the public / random kind."""
    R, p = ctx.r, ctx.p
    rule = 'C06.public-address-type'
    ci = p.cls(CTRL)
    if ci is None:
        R.bad(rule, CTRL, 'anchor missing')
        return
    n = 0
    for name, fn in sorted([(f.name, f) for f in ci.node.body if isinstance(f, FUNC)], key=lambda t: (t[0], t[1].lineno)):   # getter and setter share a name
        for st in [x for x in ast.walk(fn) if isinstance(x, ast.Assign) and any(dotted(t) in ('self._public_address', 'address') for t in x.targets)]:
            v = st.value
            if not (isinstance(v, ast.Call) and (dotted(v.func) or '').endswith('Address')):
                continue
            if name not in ('__init__', 'public_address'):
                continue
            if isinstance(v.args[0], ast.Constant) if v.args else True:
                continue        # the all-zero default
            n += 1
            typ = norm(v.args[1]) if len(v.args) > 1 else (norm(kwarg(v, 'address_type')) if kwarg(v, 'address_type') is not None else None)
            R.check(typ is not None and typ.endswith('PUBLIC_DEVICE_ADDRESS'), rule, f'{CTRL}.{name} | {norm(st)[:60]}', 'built as a public device address',
                    f'`{norm(st)[:70]}` builds the controller\'s public address without the public type (the default is random): lookups by the public address never find this controller (classic connections, public-address advertisers)', p.loc(st))
    R.check(n >= 2, rule, f'{CTRL} | public address from a string', f'{n} construction sites agree', f'only {n} construction sites found')


def initiate_while_scanning(ctx):
    """A received advertisement is both reported to a scanning host and matched against a pending connection: the two are
    independent.  The match that leads to create_le_connection is not conditioned on the scan state (a central that scans
    while it connects would otherwise never connect)."""
    R, p = ctx.r, ctx.p
    rule = 'C06.initiate-while-scanning'
    fn = p.find(f'{CTRL}.on_advertising_pdu')
    if fn is None:
        R.bad(rule, f'{CTRL}.on_advertising_pdu', 'anchor missing')
        return
    calls = [c for c in calls_in(fn) if dotted(c.func) == 'self.create_le_connection']
    R.check(len(calls) >= 1, rule, f'{CTRL}.on_advertising_pdu | connection creation', f'{len(calls)} site(s)', 'create_le_connection is no longer reached from on_advertising_pdu', p.loc(fn))
    for c in calls:
        g = [(norm(t), pol) for t, pol in paths.flat_guards(c, stop=fn)]
        scan = [x for x in g if 'le_scan_enable' in x[0] or 'scan' in x[0].lower()]
        R.check(not scan, rule, f'{CTRL}.on_advertising_pdu | create_le_connection', 'guarded by the pending connection and the advertiser address only', f'the pending connection is matched only when {scan}: a device that is scanning never sends its CONNECT_IND, connect() runs into its timeout while the advertiser keeps advertising', p.loc(c))


def link_address_fixed(ctx):
    """The two addresses of an established link are those it was set up with (the peer and the virtual link know it under
    them): they are given to the Connection constructor and never assigned afterwards."""
    R, p = ctx.r, ctx.p
    rule = 'C06.link-address-fixed'
    m = p.modules.get('bumble.controller')
    if m is None:
        R.bad(rule, 'bumble.controller', 'anchor missing')
        return
    n = sum(1 for c in ast.walk(m.tree) if isinstance(c, ast.Call) and call_attr(c) == 'Connection' and any(k.arg == 'self_address' for k in c.keywords))
    for st in [x for x in ast.walk(m.tree) if isinstance(x, ast.Attribute) and isinstance(x.ctx, ast.Store) and (x.attr == 'self_address' or (x.attr == 'peer_address' and 'connection' in (dotted(x.value) or '').split('.')[-1])) and not (isinstance(x.value, ast.Name) and x.value.id == 'self')]:
        R.bad(rule, f'{p.qual_of(st)} | {norm(st)}', f'`{norm(st)}` is reassigned on an existing link: the peer controller keeps the link under the address it was established with, so PDUs and the termination sent afterwards carry a source address the peer has no connection for (dropped; the peer is never told of the disconnection)', f'{m.rel}:{st.lineno}')
    R.check(n >= 4, rule, 'bumble.controller | Connection(...) constructions', f'{n} constructions pass self_address; no later assignment', f'only {n} constructions found')


def adv_data_verbatim(ctx):
    """The advertising / scan response data the host sets is what goes on the air, octet for octet: the set-data handlers
    use the command's field as it is (stored, copied or appended), never a trimmed or sliced version of it."""
    R, p = ctx.r, ctx.p
    rule = 'C06.adv-data-verbatim'
    ci = p.cls(CTRL)
    if ci is None:
        R.bad(rule, CTRL, 'anchor missing')
        return
    n = 0
    for name, fn in sorted(ci.methods.items()):
        if not (name.startswith('on_hci_le_set_') and name.endswith('_data_command')):
            continue
        for a in [x for x in ast.walk(fn) if isinstance(x, ast.Attribute) and isinstance(x.value, ast.Name) and x.value.id == 'command' and x.attr in ('advertising_data', 'scan_response_data')]:
            n += 1
            par = getattr(a, '_parent', None)
            altered = (isinstance(par, ast.Attribute) and par.value is a) or (isinstance(par, ast.Subscript) and par.value is a) or isinstance(par, ast.BinOp)
            R.check(not altered, rule, f'{CTRL}.{name} | command.{a.attr}', 'used as received', f'{name} uses `{norm(par)[:60]}` instead of the data the host set: trailing / leading octets of the payload that happen to match are removed, what is advertised is not what was set', p.loc(a))
    R.check(n >= 6, rule, f'{CTRL} | set-data handlers', f'{n} uses of the command payload', f'only {n} uses found')


def own_address_agreement(ctx):
    """The device and its controller hold the same random address: a method of Device that sends LE Set Random Address
    passes `self.random_address`, or - when it also stores a new value into self.random_address - exactly the value it
    stores (the address on the air is the controller's, the one reported and used in pairing computations the device's)."""
    R, p = ctx.r, ctx.p
    rule = 'C06.own-address-agreement'
    ci = p.cls('bumble.device.Device')
    if ci is None:
        R.bad(rule, 'bumble.device.Device', 'anchor missing')
        return
    n = 0
    for name, fn in sorted(ci.methods.items()):
        cmds = [c for c in ast.walk(fn) if isinstance(c, ast.Call) and call_attr(c) == 'HCI_LE_Set_Random_Address_Command']
        if not cmds:
            continue
        stores = [s_ for s_ in walk_local(fn) if isinstance(s_, ast.Assign) and dotted(s_.targets[0]) == 'self.random_address']
        for c in cmds:
            n += 1
            a = kwarg(c, 'random_address', 0)
            sent = norm(a) if a is not None else None
            later = [s_ for s_ in stores if s_.lineno > c.lineno]  # stored once the controller has accepted it
            want = {norm(s_.value) for s_ in later} or {'self.random_address'}
            R.check(sent in want and len(want) == 1, rule, f'bumble.device.Device.{name} | LE Set Random Address', f'sends `{sent}`, the value the device holds', f'{name} sends `{sent}` to the controller but the device holds `{sorted(want)}` afterwards: host and controller disagree on the own address - the peer sees one address, the device reports (and computes pairing values with) another', p.loc(c))
    R.check(n >= 2, rule, 'bumble.device.Device | LE Set Random Address commands', f'{n}', f'only {n} found')


def enum_default(ctx):
    from ..generic_rules import falsy_enum_default
    falsy_enum_default(ctx, 'C06.enum-default', ['bumble.device', 'bumble.controller', 'bumble.host', 'bumble.link'])


def connect_test_reached(ctx):
    """Controller.on_advertising_pdu serves the scanner and the initiator: whatever the scanning branch does (report,
    filter), every path through the function reaches the test of the pending connection at its end."""
    R, p = ctx.r, ctx.p
    rule = 'C06.connect-test-reached'
    fn = p.find(f'{CTRL}.on_advertising_pdu')
    if fn is None:
        R.bad(rule, f'{CTRL}.on_advertising_pdu', 'anchor missing')
        return

    class D(paths.Domain):
        def assume(self, atom, truth, v):
            if 'pending_le_connection' in norm(atom):
                return (True,)
            return (v,)
    res = paths.run(fn, D(), False)
    bad = [f'{k} via {" ".join(w)}' for k, st in res.items() if not k.startswith('raise') for v, w in st.items() if not v]
    R.check(bool(res) and not bad, rule, f'{CTRL}.on_advertising_pdu', 'every path tests the pending connection', f'a path leaves on_advertising_pdu before the pending connection is tested ({bad[:1]}): an initiator that is also scanning never connects to an advertiser the scan branch chose not to report', p.loc(fn))


def lookup_by_address_only(ctx):
    """LocalLink finds the controller that owns an address by the address alone: the same helpers route pages *and* every
    PDU of an established connection, so a condition on the controller\'s scanning / advertising state in them cuts live
    links."""
    R, p = ctx.r, ctx.p
    rule = 'C06.lookup-by-address-only'
    ci = p.cls('bumble.link.LocalLink')
    if ci is None:
        R.bad(rule, 'bumble.link.LocalLink', 'anchor missing')
        return
    n = 0
    for name in ('find_classic_controller', 'find_le_controller'):
        fn = ci.methods.get(name)
        if fn is None:
            R.bad(rule, f'bumble.link.LocalLink.{name}', 'anchor missing')
            continue
        params = [a.arg for a in fn.args.args if a.arg != 'self']
        for r in [x for x in walk_local(fn) if isinstance(x, ast.Return) and x.value is not None and not is_const(x.value)]:
            n += 1
            g = [t for t, pol in paths.flat_guards(r, stop=fn)]
            extra = [norm(t) for t in g if not (isinstance(t, ast.Compare) and len(t.ops) == 1 and isinstance(t.ops[0], (ast.Eq, ast.NotEq)) and any(isinstance(x, ast.Name) and x.id in params for x in ast.walk(t)))]
            R.check(bool(g) and not extra, rule, f'bumble.link.LocalLink.{name}', 'decided by the address comparison alone', f'{name} also requires `{extra[0] if extra else ""}`: data and LMP / LL PDUs of an established connection are routed through the same lookup, so they are dropped (and a disconnection never reaches the peer) as soon as the peer changes that state', p.loc(r))
    R.check(n >= 2, rule, 'bumble.link.LocalLink | controller lookups', f'{n}', f'only {n} found')


def adv_set_kept(ctx):
    """Re-issuing LE Set Extended Advertising Parameters for an existing set updates its parameters: the AdvertisingSet
    record (random address, advertising and scan-response data) is created only when the handle is new."""
    R, p = ctx.r, ctx.p
    rule = 'C06.adv-set-kept'
    fn = p.find(f'{CTRL}.on_hci_le_set_extended_advertising_parameters_command')
    if fn is None:
        R.bad(rule, f'{CTRL}.on_hci_le_set_extended_advertising_parameters_command', 'anchor missing')
        return
    ctors = [c for c in ast.walk(fn) if isinstance(c, ast.Call) and call_attr(c) == 'AdvertisingSet']
    R.check(len(ctors) == 1, rule, f'{CTRL}.on_hci_le_set_extended_advertising_parameters_command | record', 'one construction', f'{len(ctors)} constructions', p.loc(fn))
    for c in ctors:
        g = [(norm(t), pol) for t, pol in paths.flat_guards(c, stop=fn)]
        ok = any('in self.advertising_sets' in t and ((' not in ' in t) == pol) for t, pol in g)
        R.check(ok, rule, f'{CTRL}.on_hci_le_set_extended_advertising_parameters_command | only when new', 'constructed under `handle not in self.advertising_sets`', 'the record of an existing advertising set is replaced by a fresh one: its random address and its advertising / scan-response data are lost - the set stops advertising under its address (connections to it never complete) and scanners get empty data', p.loc(c))


def connect_ind_address_rule(ctx):
    from .c03 import connect_ind_address
    connect_ind_address(ctx, 'C06.connect-ind-address')


def set_records_what_it_sent(ctx):
    """Each `set_<x>` method of device.AdvertisingSet that sends <x> to the controller records it in `self.<x>` (the
    connection completed through the set takes its own address and data from those attributes): the value recorded is the
    expression that was sent."""
    R, p = ctx.r, ctx.p
    rule = 'C06.set-records-what-it-sent'
    ci = p.cls('bumble.device.AdvertisingSet')
    if ci is None:
        R.bad(rule, 'bumble.device.AdvertisingSet', 'anchor missing')
        return
    n = 0
    for name, fn in sorted(ci.methods.items()):
        if not name.startswith('set_') or name[4:] not in ci.annots:
            continue
        attr = name[4:]
        sent = [kw.value for c in ast.walk(fn) if isinstance(c, ast.Call) and (call_attr(c) or '').startswith('HCI_') for kw in c.keywords if kw.arg == attr]
        if not sent:
            continue
        n += 1
        st = [s_ for s_ in walk_local(fn) if isinstance(s_, ast.Assign) and dotted(s_.targets[0]) == f'self.{attr}']
        ok = len(st) >= 1 and all(norm(s_.value).strip('()') == norm(sent[0]).strip('()') or norm(s_.value) == attr for s_ in st)
        R.check(ok, rule, f'bumble.device.AdvertisingSet.{name}', f'records self.{attr}', f'{name} sends `{norm(sent[0])[:50]}` to the controller but {"records `" + norm(st[0].value)[:40] + "`" if st else "does not record it"} in self.{attr}: the device keeps describing the set by the old value - a connection accepted through the set reports another own address than the one the peer connected to', p.loc(fn))
    R.check(n >= 1, rule, 'bumble.device.AdvertisingSet | setters that send their attribute', f'{n}', 'none found (anchor)')


RULES = [
    ('C06.set-records-what-it-sent', set_records_what_it_sent),
    ('C06.connect-ind-address', connect_ind_address_rule),
    ('C06.adv-set-kept', adv_set_kept),
    ('C06.lookup-by-address-only', lookup_by_address_only),
    ('C06.connect-test-reached', connect_test_reached),
    ('C06.enum-default', enum_default),
    ('C06.own-address-agreement', own_address_agreement),
    ('C06.adv-data-verbatim', adv_data_verbatim),
    ('C06.link-address-fixed', link_address_fixed),
    ('C06.initiate-while-scanning', initiate_while_scanning),
    ('C06.public-address-type', public_address_type),
    ('C06.address-equality', address_equality),
    ('C06.pdu-carriers', pdu_carriers),
    ('C06.match-arms', match_arms_rule),
    ('C06.derived-index', derived_index_rule),
    ('C06.shared-state', shared_state_rule),
    ('C06.lmp-pending', lmp_pending),
    ('C06.pending-owner', pending_owner),
    ('C06.addr-origin', addr_origin),
    ('C06.waiter-match', waiter_match),
    ('C06.adv-dataflow', adv_dataflow),
    ('C06.adv-address', adv_address),
    ('C06.handles', handles),
    ('C06.disconnect-both', disconnect_both),
]

VARIANTS = [
    ('LL control from the random address', 'bumble/controller.py', "                sender_address=self.self_address,\n", "                sender_address=self.controller.random_address,\n", 'fire', 'C06.addr-origin'),
    ('ACL data from the random address again', 'bumble/link.py', "            source_address = (\n                connection.self_address\n                if connection is not None\n                else sender_controller.random_address\n            )\n", "            source_address = sender_controller.random_address\n", 'fire', 'C06.addr-origin'),
    ('connect_classic drops the transport test', 'bumble/device.py', "                # match BR/EDR connection event against peer address\n                connection.transport == PhysicalTransport.BR_EDR\n                and connection.peer_address == peer_address\n", "                connection.peer_address == peer_address\n", 'fire', 'C06.waiter-match'),
    ('connect_le accepts any role', 'bumble/device.py', "                connection.transport == PhysicalTransport.LE\n                and connection.role == hci.Role.CENTRAL\n", "                connection.transport == PhysicalTransport.LE\n", 'fire', 'C06.waiter-match'),
    ('handle allocation forgets SCO links', 'bumble/controller.py', "                self.classic_connections.values(),\n                self.sco_links.values(),\n                self.central_cis_links.values(),\n", "                self.classic_connections.values(),\n                self.central_cis_links.values(),\n", 'fire', 'C06.handles'),
    ('LE disconnect only local', 'bumble/controller.py', "                self._notify_peer_of_teardown(\n                    lambda: connection.send_ll_control_pdu(\n                        ll.TerminateInd(command.reason)\n                    )\n                )\n                self.on_le_disconnected(connection, command.reason)\n", "                self.on_le_disconnected(connection, command.reason)\n", 'fire', 'C06.disconnect-both'),
    ('peripheral stores under advertiser address', 'bumble/controller.py', "        peer_address = packet.initiator_address\n", "        peer_address = packet.advertiser_address\n", 'fire', 'C06.addr-origin'),
    ('benign: debug message', 'bumble/controller.py', "        logger.debug(f'New PERIPHERAL connection handle: 0x{connection_handle:04X}')\n", "        logger.debug(f'new PERIPHERAL connection, handle 0x{connection_handle:04X}')\n", 'silent', ''),
    ('incoming connection wipes the pending outgoing one', 'bumble/controller.py', "        advertiser.stop()\n\n    def on_le_disconnected", "        advertiser.stop()\n        self.pending_le_connection = None\n\n    def on_le_disconnected", 'fire', 'C06.pending-owner'),
]
