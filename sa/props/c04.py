"""C04 — outbound data obeys controller credits, stays FIFO, never stalls."""
from __future__ import annotations

import ast
from collections import namedtuple

from .. import paths
from ..core import FUNC, call_attr, calls_in, dotted, norm, text, walk_local, is_const, kwarg

EXPLANATION = [
    'C04.queue-send-total: the method Host installs as `send` callback of its DataPacketQueues contains no raise statement.',
    "C04.pipe-single-path: only the pump of FlowControlAsyncPipe calls write_to_sink; write() only appends to the queue (one delivery path, so order is the queue's).",
    'C04.pipe-pump-condition: FlowControlAsyncPipe.can_pump decides on the packet queue being non-empty, not on the count of queued bytes.',
    'C04.big-table: the BIG completion handlers of the host assign self.bigs[handle] (no setdefault / update that keeps the set of an earlier failed attempt).',
    'C04.pools: every IsoLink is created with self.iso_packet_queue, and get_data_packet_queue returns the queue stored on the link itself (connection.acl_packet_queue / iso_link.packet_queue): enqueue and completion use the same pool.',
    "C04.shared-pool: Host.reset decides 'no dedicated LE buffers' on the values the controller returned (they are not rewritten before the test) and in that case makes the LE queue the very same object as the Classic queue: one pool, one counter.",
    'C04.dead-default-check: no value obtained by indexing a defaultdict attribute is afterwards tested for absence (`is None` / falsy): such a test is dead and the lookup has created the entry (drain() would wait on a fresh event nobody sets).',
    'C04.fifo: every deque of the anchored modules that is filled with append / extend is emptied with popleft or by iteration (never pop()), and conversely: queued entries come out in the order they went in.',
    'C04.one-shot: no name bound to a generator expression or to filter() / map() / zip() / reversed() / enumerate() is read in more than one consuming position or inside a loop that evaluates it repeatedly: such an iterator is empty after its first walk.',
    'C04.bounded-buffers: the host data queue and the flow-controlled pipe keep waiting packets in unbounded containers: a long backlog is never shortened silently.',
    'C04.flush-handle: every call of a data queue\'s flush() in Host passes the connection handle of the link being removed (the key used on a *_links / connections table, or `.handle` of the link object taken from such a table), so the buffers of a removed link are really given back.',
    'C04.shared-state: no class of the anchored modules keeps per-instance state in an object shared by all instances (an empty mutable container or synchronisation object as class-level default that is read through self and not rebound in __init__, or as a dataclass field default); process-wide registries are listed by name.',
    'C04.queue-geometry: each host data queue takes max_in_flight (and max_packet_size) from the Read Buffer Size fields of its own buffer pool, so the credit limit is the count the controller advertised for that pool (same rule as C05.queue-geometry).',
    'C04.over-report: on every path of on_packets_completed the amount subtracted from the global in-flight counter equals (as a linear form over entry values) the amount by which the connection\'s own counter dropped; reports for unknown handles change nothing.',
    'C04.credit-guard: in DataPacketQueue._check_queue every hand-over to the '
    'controller is dominated by `_in_flight < max_in_flight`; each loop '
    'iteration pops one packet, sends exactly that packet once and increments '
    'the global and the per-connection in-flight counters exactly once.',
    'C04.pump: every DataPacketQueue method that frees credits or adds packets '
    'reaches _check_queue() after its last such mutation on every normal exit '
    '(no packet waits while a buffer is free).',
    'C04.fifo: for every collections.deque attribute in the package the '
    'producer and consumer ends are opposite (append/popleft or appendleft/pop).',
    'C04.drain: the per-connection drained event is set wherever the '
    'connection\'s in-flight count reaches 0 or its state is discarded, and '
    'cleared only when a packet is sent.',
    'C04.pipe: FlowControlAsyncPipe hands each dequeued packet to the sink '
    'exactly once with matching byte accounting, and every mutator of the '
    'pump condition re-evaluates it.',
    'C04.wiring: completion and disconnection events reach the queue methods.',
    'Not decided: history-level accounting under over-reported completions.',
]
ASSUMPTIONS = ['asyncio callbacks run to completion (no pre-emption between statements without await)']

Q = 'bumble.host.DataPacketQueue'
HOSTQ = 'bumble.host.Host'
PIPE = 'bumble.utils.FlowControlAsyncPipe'


def _is_credit_guard(test_norm: str) -> bool:
    return test_norm in (
        'self._in_flight < self.max_in_flight',
        'self.max_in_flight > self._in_flight',
        'self._in_flight + 1 <= self.max_in_flight',
    )


LS = namedtuple('LS', 'popped sent inc inc_conn arg_ok')


class CheckQueueBody(paths.Domain):
    def __init__(self, packets_attr='self._packets'):
        self.popped_names = set()

    def event(self, node, v: LS):
        if isinstance(node, ast.Assign) and isinstance(node.value, ast.Call):
            d = dotted(node.value.func) or ''
            if d in ('self._packets.pop', 'self._packets.popleft'):
                names = set()
                for t in node.targets:
                    for n in ast.walk(t):
                        if isinstance(n, ast.Name):
                            names.add(n.id)
                self.popped_names = names
                self.first = None
                t0 = node.targets[0]
                if isinstance(t0, (ast.Tuple, ast.List)) and t0.elts and isinstance(t0.elts[0], ast.Name):
                    self.first = t0.elts[0].id
                return (v._replace(popped=min(2, v.popped + 1)),)
        if isinstance(node, ast.Call):
            d = dotted(node.func) or ''
            if d == 'self._send':
                arg_ok = bool(node.args) and isinstance(node.args[0], ast.Name) and node.args[0].id == getattr(self, 'first', None)
                return (v._replace(sent=min(2, v.sent + 1), arg_ok=v.arg_ok and arg_ok and v.popped == 1),)
        if isinstance(node, ast.AugAssign) and isinstance(node.op, ast.Add) and norm(node.value) == '1':
            d = dotted(node.target) or ''
            if d == 'self._in_flight':
                return (v._replace(inc=min(2, v.inc + 1)),)
            if d.endswith('.in_flight'):
                return (v._replace(inc_conn=min(2, v.inc_conn + 1)),)
        return (v,)


def credit_guard(ctx):
    R, p = ctx.r, ctx.p
    rule = 'C04.credit-guard'
    cq = p.find(f'{Q}._check_queue')
    if cq is None:
        R.bad(rule, f'{Q}._check_queue', f'anchor missing: {Q}._check_queue')
        return
    qc = p.cls(Q)
    sends = []
    for name, m in qc.methods.items():
        for c in calls_in(m, include_lambda=True):
            if dotted(c.func) == 'self._send':
                sends.append((name, m, c))
    R.check(bool(sends), rule, f'{Q} | has send site', f'{len(sends)} send site(s)', 'no self._send(...) call found in DataPacketQueue')
    for name, m, c in sends:
        key = f'{Q}.{name} | self._send({norm(c.args[0]) if c.args else ""})'
        if name != '_check_queue':
            R.bad(rule, key, 'packet handed to the controller outside _check_queue (bypasses the credit test)', p.loc(c))
            continue
        guards = [norm(t) for t, pol in paths.flat_guards(c) if pol]
        R.check(any(_is_credit_guard(g) for g in guards), rule, key + ' | dominated by credit test',
                'dominated by `_in_flight < max_in_flight`', f'send is not dominated by `_in_flight < max_in_flight` (guards: {guards})', p.loc(c))
        # enclosing loop body: one pop, one send of the popped packet, one increment of each counter
        loop = next((a for a in _ancestors(c) if isinstance(a, (ast.While, ast.For))), None)
        if loop is None:
            R.bad(rule, key + ' | loop', 'send site is not inside the send-while-credit loop', p.loc(c))
            continue
        dom = CheckQueueBody()
        it = paths.Interp(dom)
        it.sinks.append({})
        out = it.block(loop.body, {LS(0, 0, 0, 0, True): ()})
        states = paths.join(*[s for k, s in out.items() if k in ('fall', 'continue', 'break') or k.startswith('ret')])
        probs = []
        for v, w in states.items():
            if (v.popped, v.sent, v.inc, v.inc_conn) not in ((1, 1, 1, 1), (0, 0, 0, 0)) or not v.arg_ok:
                probs.append(f'iteration ends with popped={v.popped} sent={v.sent} _in_flight+={v.inc} per-connection+={v.inc_conn} sends-popped-packet={v.arg_ok} via {" ".join(w)}')
        R.check(not probs and bool(states), rule, key + ' | per-iteration accounting',
                f'{len(states)} iteration outcome(s): one packet popped, sent once, both counters incremented once',
                'iteration of the send loop does not pair pop / send / counter increments: ' + '; '.join(probs), p.loc(loop))
    # writers of _in_flight
    for name, m in qc.methods.items():
        for n in walk_local(m):
            if isinstance(n, ast.AugAssign) and dotted(n.target) == 'self._in_flight' and isinstance(n.op, ast.Add):
                R.check(name == '_check_queue', rule, f'{Q}.{name} | _in_flight +=', 'in-flight count raised only where a packet is sent',
                        '_in_flight is incremented outside _check_queue', p.loc(n))


def _ancestors(node):
    p = getattr(node, '_parent', None)
    while p is not None:
        yield p
        p = getattr(p, '_parent', None)


class DirtyDomain(paths.Domain):
    """dirty=1 after a mutation that may allow sending; 0 after the pump call."""

    def __init__(self, is_mutation, pump_name):
        self.is_mutation, self.pump_name = is_mutation, pump_name

    def event(self, node, v):
        if isinstance(node, ast.Call) and dotted(node.func) == self.pump_name:
            return (0,)
        if self.is_mutation(node):
            return (1,)
        return (v,)


def _queue_mutation(node) -> bool:
    # credits freed
    if isinstance(node, ast.AugAssign) and dotted(node.target) == 'self._in_flight' and isinstance(node.op, ast.Sub):
        return True
    if isinstance(node, ast.Assign) and any(dotted(t) == 'self._in_flight' for t in node.targets):
        return True
    # packets added / queue replaced
    if isinstance(node, ast.Call) and (dotted(node.func) or '') in ('self._packets.append', 'self._packets.appendleft', 'self._packets.extend', 'self._packets.extendleft', 'self._packets.insert'):
        return True
    return False


def pump(ctx):
    R, p = ctx.r, ctx.p
    rule = 'C04.pump'
    qc = p.cls(Q)
    if qc is None:
        R.bad(rule, Q, f'anchor missing: {Q}')
        return
    n = 0
    for name, m in sorted(qc.methods.items()):
        if name in ('__init__', '_check_queue'):
            continue
        if not any(_queue_mutation(x) for x in walk_local(m)):
            continue
        n += 1
        res = paths.run(m, DirtyDomain(_queue_mutation, 'self._check_queue'), 0)
        bad = [f'{k} via {" ".join(w)}' for k, st in res.items() if not k.startswith('raise') for v, w in st.items() if v == 1]
        R.check(not bad, rule, f'{Q}.{name}', 'every normal exit after freeing credits / adding packets has called _check_queue()',
                f'{name}() frees credits or queues packets but a normal exit does not call _check_queue(): a packet can wait while a buffer is free', p.loc(m), bad)
    R.check(n >= 3, rule, f'{Q} | mutators found', f'{n} mutating methods analysed', f'only {n} mutating methods found (expected enqueue, flush, on_packets_completed)')


# ---------------------------------------------------------------------------
PRODUCE_R = {'append', 'extend'}
PRODUCE_L = {'appendleft', 'extendleft'}


def fifo(ctx):
    R = ctx.r
    prog = ctx.wide if ctx.tier == 'thorough' else ctx.p
    rule = 'C04.fifo'
    n = 0
    for ci in sorted(prog.classes.values(), key=lambda c: c.qual):
        attrs = set()
        for m in ci.methods.values():
            for s in walk_local(m):
                tgt = val = None
                if isinstance(s, ast.Assign) and len(s.targets) == 1:
                    tgt, val = s.targets[0], s.value
                elif isinstance(s, ast.AnnAssign):
                    tgt, val = s.target, s.value
                if tgt is None or val is None:
                    continue
                d = dotted(tgt) or ''
                if d.startswith('self.') and isinstance(val, ast.Call) and (dotted(val.func) or '').split('.')[-1] == 'deque':
                    attrs.add(d[5:])
        for attr in sorted(attrs):
            ops = {}
            for mname, m in ci.methods.items():
                for c in calls_in(m, include_lambda=True):
                    f = c.func
                    if isinstance(f, ast.Attribute) and dotted(f.value) == f'self.{attr}':
                        ops.setdefault(f.attr, []).append(prog.loc(c))
            n += 1
            key = f'{ci.qual}.{attr}'
            prod_r = PRODUCE_R & set(ops)
            prod_l = PRODUCE_L & set(ops)
            lifo = []
            if prod_r and 'pop' in ops:
                lifo.append(f'{sorted(prod_r)} + pop() take from the end just written')
            if prod_l and 'popleft' in ops:
                lifo.append(f'{sorted(prod_l)} + popleft() take from the end just written')
            # a legitimate "put back at the front" idiom: popleft consumer + appendleft to re-queue
            if prod_l and 'popleft' in ops and prod_r:
                lifo = [x for x in lifo if 'popleft' not in x]
            # rebuilds: `self.attr = <deque built from self.attr>` must keep the order
            for mname, m in ci.methods.items():
                if mname == '__init__':
                    continue
                for s_ in walk_local(m):
                    if isinstance(s_, ast.Assign) and any(dotted(t) == f'self.{attr}' for t in s_.targets):
                        v = s_.value
                        kept = None
                        if isinstance(v, ast.Name):
                            kept = v.id
                        elif isinstance(v, ast.Call) and v.args and isinstance(v.args[0], ast.Name) and (dotted(v.func) or '').split('.')[-1] == 'deque':
                            kept = v.args[0].id
                        if kept is None:
                            continue
                        for lp in walk_local(m):
                            if isinstance(lp, ast.For) and f'self.{attr}' in text(lp.iter):
                                rev_iter = 'reversed(' in text(lp.iter)
                                for c in calls_in(lp):
                                    if isinstance(c.func, ast.Attribute) and dotted(c.func.value) == kept:
                                        if (c.func.attr in ('appendleft', 'extendleft')) != rev_iter and c.func.attr in ('append', 'appendleft', 'extend', 'extendleft', 'insert'):
                                            lifo.append(f'{mname}() rebuilds the queue from itself with {c.func.attr}() while iterating {"backwards" if rev_iter else "forwards"}: surviving entries are reversed')
                                        if c.func.attr == 'insert' and c.args and text(c.args[0]) == '0' and not rev_iter:
                                            lifo.append(f'{mname}() rebuilds the queue with insert(0, ...): surviving entries are reversed')
            if lifo:
                R.bad(rule, key, 'deque is consumed last-in first-out: ' + '; '.join(lifo), ops.get('pop', ops.get('popleft', ['']))[0])
            else:
                R.ok(rule, key, f'ops {sorted(ops)}: producer and consumer ends are opposite (or no end-consumer)', prog.loc(ci.node))
    R.floor(rule, 8, 'deque attributes')


# ---------------------------------------------------------------------------
def flush_handle(ctx, rule='C04.flush-handle'):
    """DataPacketQueue.flush(h) discards what is queued / in flight for connection handle h.  Every caller passes the
    handle of the link it is tearing down: the key it looked the link up with, or `<link>.handle` of the link object it
    popped -- never another identifier that happens to be at hand (a BIG handle, a CIG id)."""
    R, p = ctx.r, ctx.p
    host = p.cls(HOSTQ)
    if host is None:
        R.bad(rule, HOSTQ, 'anchor missing')
        return
    n = 0
    for name, m in sorted(host.methods.items()):
        for c in calls_in(m, include_lambda=True):
            if not (isinstance(c.func, ast.Attribute) and c.func.attr == 'flush' and 'queue' in (dotted(c.func.value) or '') and c.args):
                continue
            n += 1
            arg = c.args[0]
            ok = False
            why = ''
            # link tables: attributes of self whose name ends in _links or is `connections`
            def is_link_table(e):
                d = dotted(e) or ''
                return d.startswith('self.') and (d.endswith('_links') or d.endswith('connections'))
            lookups = []   # (table expr, key expr, bound name)
            for n_ in ast.walk(m):
                tgt = val = None
                if isinstance(n_, ast.Assign) and len(n_.targets) == 1:
                    tgt, val = n_.targets[0], n_.value
                elif isinstance(n_, ast.NamedExpr):
                    tgt, val = n_.target, n_.value
                if isinstance(val, ast.Call) and isinstance(val.func, ast.Attribute) and val.func.attr in ('pop', 'get') and is_link_table(val.func.value) and val.args:
                    lookups.append((val.func.value, val.args[0], dotted(tgt) if tgt is not None else None))
                if isinstance(n_, ast.Call) and isinstance(n_.func, ast.Attribute) and n_.func.attr in ('pop', 'get') and is_link_table(n_.func.value) and n_.args:
                    lookups.append((n_.func.value, n_.args[0], None))
                if isinstance(n_, ast.Subscript) and is_link_table(n_.value):
                    lookups.append((n_.value, n_.slice, None))
            if isinstance(arg, ast.Attribute) and arg.attr == 'handle' and any(b == dotted(arg.value) for _, _, b in lookups if b):
                ok, why = True, f'handle of the link object `{dotted(arg.value)}` taken from a link table'
            elif any(norm(k) == norm(arg) for _, k, _ in lookups):
                ok, why = True, f'`{norm(arg)}` is the key the link was looked up with'
            elif isinstance(arg, ast.Name) and arg.id in [a.arg for a in m.args.args] and name in ('on_disconnection',):
                ok, why = True, 'the handle parameter of the teardown entry point'
            R.check(ok, rule, f'{HOSTQ}.{name} | {norm(c)}', why or 'handle of the link being torn down',
                    f'`{norm(c)}`: `{norm(arg)}` is not the connection handle of the link being removed (neither the key used on a link table nor `<link>.handle`): the flush is a no-op on an unknown handle, the link\'s buffers stay counted as in flight and other links starve', p.loc(c))
    R.check(n >= 4, rule, f'{HOSTQ} | flush call sites', f'{n} call sites', f'only {n} flush call sites found')


def drain(ctx, rule='C04.drain'):
    R, p = ctx.r, ctx.p
    qc = p.cls(Q)
    if qc is None:
        R.bad(rule, Q, f'anchor missing: {Q}')
        return
    opc = qc.methods.get('on_packets_completed')
    fl = qc.methods.get('flush')
    cq = qc.methods.get('_check_queue')
    dr = qc.methods.get('drain')
    for nm, m in (('on_packets_completed', opc), ('flush', fl), ('_check_queue', cq), ('drain', dr)):
        if m is None:
            R.bad(rule, f'{Q}.{nm}', f'anchor missing: {Q}.{nm}')
    if not (opc and fl and cq and dr):
        return

    # on_packets_completed: after the per-connection count is lowered, every
    # normal exit has passed `if <state>.in_flight == 0: <state>.drained.set()`
    class D(paths.Domain):
        def event(self, node, v):
            if isinstance(node, (ast.AugAssign, ast.Assign)):
                tg = [node.target] if isinstance(node, ast.AugAssign) else node.targets
                if any((dotted(t) or '').endswith('.in_flight') and not (dotted(t) or '').startswith('self.') for t in tg):
                    if isinstance(node, ast.Assign) and norm(node.value) == '0':
                        return ('zero',)
                    return ('lowered',)
            if isinstance(node, ast.Call) and (dotted(node.func) or '').endswith('.drained.set'):
                return ('set',)
            return (v,)

        def assume(self, atom, truth, v):
            t = norm(atom)
            if 'self._packets' in t and t.startswith('any(') and truth and v in ('lowered', 'zero'):
                return ('queued',)  # packets of this connection still wait for a buffer: not drained yet
            if t.endswith('.in_flight == 0') or t.startswith('not ') and t.endswith('.in_flight'):
                if v == 'zero' and not truth:
                    return ()
                if v == 'lowered' and not truth:
                    return ('nonzero',)
            return (v,)

    res = paths.run(opc, D(), 'init')
    bad = [f'{k} via {" ".join(w)}' for k, st in res.items() if not k.startswith('raise') for v, w in st.items() if v in ('lowered', 'zero')]
    R.check(not bad, rule, f'{Q}.on_packets_completed | drained set at zero',
            'after lowering a connection\'s in-flight count every exit has tested it for 0 and set `drained`',
            'a path lowers the per-connection in-flight count without testing for 0 / setting the drained event', p.loc(opc), bad)
    # flush: the popped state gets drained.set()
    pops = [c for c in calls_in(fl) if dotted(c.func) == 'self._connection_state.pop']
    sets = [c for c in calls_in(fl) if (dotted(c.func) or '').endswith('.drained.set')]
    pop_targets = set()
    for n in ast.walk(fl):
        if isinstance(n, (ast.Assign, ast.NamedExpr)) and isinstance(n.value, ast.Call) and dotted(n.value.func) == 'self._connection_state.pop':
            pop_targets.add(dotted(n.targets[0]) if isinstance(n, ast.Assign) else dotted(n.target))

    class FD(paths.Domain):
        # value: (a state object was popped and exists, drained.set() called on it)
        def event(self, node, v):
            if isinstance(node, ast.Call) and (dotted(node.func) or '').endswith('.drained.set') and (dotted(node.func) or '').split('.')[0] in pop_targets:
                return ((v[0], True),)
            return (v,)

        def assume(self, atom, truth, v):
            t = norm(atom)
            if t in pop_targets or (isinstance(atom, ast.NamedExpr) and dotted(atom.target) in pop_targets):
                return ((truth, v[1]),)
            if any(t == f'{x} is not None' for x in pop_targets):
                return ((truth, v[1]),)
            if any(t == f'{x} is None' for x in pop_targets):
                return ((not truth, v[1]),)
            return (v,)
    fres = paths.run(fl, FD(), (None, False))
    stuck = sorted(f'{k}: state {"exists" if v[0] else "unknown"}, drained not set' for k, st in fres.items() if not k.startswith('raise') for v in st if v[0] is not False and not v[1])
    R.check(bool(pops) and bool(sets) and bool(pop_targets) and not stuck, rule, f'{Q}.flush | discarded state releases waiters',
            'on every path on which flush pops an existing per-connection state it sets that state\'s drained event (whatever its in-flight count)',
            'flush can discard a per-connection state without setting its drained event (e.g. when nothing was in flight but packets were queued): drain() of the closed connection waits forever', p.loc(fl), stuck[:3])
    # the event is cleared when a packet is accepted for the connection (queued) and when one is sent
    clears = {}
    for name, m in qc.methods.items():
        for c in calls_in(m):
            if norm(c.func).endswith('.drained.clear'):
                clears.setdefault(name, []).append(c)
                R.check(name in ('_check_queue', 'enqueue'), rule, f'{Q}.{name} | drained.clear', 'cleared only where a packet becomes pending', 'drained event cleared outside enqueue/_check_queue', p.loc(c))
    enq = qc.methods.get('enqueue')
    ok = False
    if enq is not None and 'enqueue' in clears:
        c = clears['enqueue'][0]
        h = enq.args.args[2].arg
        ok = norm(c.func.value.value) == f'self._connection_state[{h}]' and not paths.flat_guards(c)
    R.check(ok, rule, f'{Q}.enqueue | queued packet marks the connection busy', 'enqueue clears the drained event of the packet\'s connection unconditionally (a packet waiting for a free buffer counts as pending)',
            'a packet that is queued but cannot be sent yet leaves its connection marked drained: drain() returns (or raises "no such connection") while the packet has not reached the controller', p.loc(enq) if enq else '')
    # ... and set on completion only when nothing of that connection is still queued
    sets_c = [c for c in calls_in(opc) if (dotted(c.func) or '').endswith('.drained.set')]
    ok = False
    if len(sets_c) == 1:
        g = [(t, pol) for t, pol in paths.flat_guards(sets_c[0])]
        has_zero = any(norm(t).endswith('.in_flight == 0') and pol for t, pol in g)
        scans_queue = any('self._packets' in norm(t) for t, pol in g)
        ok = has_zero and scans_queue
    R.check(ok, rule, f'{Q}.on_packets_completed | drained needs an empty queue too', 'drained is set when nothing is in flight and nothing of that connection waits in the queue',
            'completion of the in-flight packets sets drained although packets of that connection are still queued', p.loc(opc))
    # drain awaits that very event
    aw = [n for n in walk_local(dr) if isinstance(n, ast.Await) and 'drained.wait()' in text(n)]
    R.check(bool(aw), rule, f'{Q}.drain | waits on drained', 'drain awaits the per-connection drained event', 'drain does not await the per-connection drained event', p.loc(dr))


# ---------------------------------------------------------------------------
PS = namedtuple('PS', 'popped written dec dirty')


def pipe(ctx):
    R, p = ctx.r, ctx.p
    rule = 'C04.pipe'
    pc = p.cls(PIPE)
    if pc is None:
        R.bad(rule, PIPE, f'anchor missing: {PIPE}')
        return
    pumpfn, write = pc.methods.get('pump'), pc.methods.get('write')
    if pumpfn is None or write is None:
        R.bad(rule, f'{PIPE}.pump/write', 'anchor missing: pump or write')
        return

    class D(paths.Domain):
        var = None

        def event(self, node, v: PS):
            if isinstance(node, ast.Assign) and isinstance(node.value, ast.Call) and (dotted(node.value.func) or '') in ('self.queue.popleft', 'self.queue.pop'):
                D.var = dotted(node.targets[0])
                return (v._replace(popped=min(2, v.popped + 1), dirty=1),)
            if isinstance(node, ast.Call):
                d = dotted(node.func) or ''
                if d == 'self.write_to_sink':
                    ok = node.args and dotted(node.args[0]) == D.var
                    return (v._replace(written=min(2, v.written + (1 if ok else 2))),)
                if d == 'self.check_pump':
                    return (v._replace(dirty=0),)
            if isinstance(node, ast.AugAssign) and dotted(node.target) == 'self.queued_bytes' and isinstance(node.op, ast.Sub):
                ok = norm(node.value) == f'len({D.var})'
                return (v._replace(dec=min(2, v.dec + (1 if ok else 2))),)
            return (v,)

    loop = next((s for s in pumpfn.body if isinstance(s, ast.While)), None)
    if loop is None:
        R.bad(rule, f'{PIPE}.pump | loop', 'pump loop not found', p.loc(pumpfn))
    else:
        it = paths.Interp(D())
        it.sinks.append({})
        out = it.block(loop.body, {PS(0, 0, 0, 0): ()})
        states = paths.join(*[s for k, s in out.items() if k in ('fall', 'continue')])
        probs = [f'popped={v.popped} written={v.written} dec={v.dec} pump-rechecked={not v.dirty} via {" ".join(w)}' for v, w in states.items()
                 if (v.popped, v.written, v.dec) not in ((1, 1, 1), (0, 0, 0)) or v.dirty]
        R.check(not probs and bool(states), rule, f'{PIPE}.pump | per-iteration accounting',
                f'{len(states)} iteration outcome(s): each dequeued packet written to the sink once, queued_bytes lowered by its length, pump condition re-checked',
                'pump iteration mis-accounts a packet: ' + '; '.join(probs), p.loc(loop))
    # write(): += len(packet) and append(packet)
    params = [a.arg for a in write.args.args]
    pk = params[1] if len(params) > 1 else 'packet'
    inc = [n for n in walk_local(write) if isinstance(n, ast.AugAssign) and dotted(n.target) == 'self.queued_bytes' and isinstance(n.op, ast.Add) and norm(n.value) == f'len({pk})']
    app = [c for c in calls_in(write) if (dotted(c.func) or '') in ('self.queue.append', 'self.queue.appendleft') and c.args and dotted(c.args[0]) == pk]
    R.check(len(inc) == 1 and len(app) == 1, rule, f'{PIPE}.write | accounting', 'write queues the packet once and counts its length once',
            f'write() queues the packet {len(app)} time(s) and counts its bytes {len(inc)} time(s)', p.loc(write))

    # every mutator of the pump condition re-evaluates it
    def mut(node):
        if isinstance(node, ast.Call) and (dotted(node.func) or '') in ('self.queue.append', 'self.queue.appendleft'):
            return True
        if isinstance(node, ast.Assign) and any(dotted(t) in ('self.paused', 'self.write_to_sink') for t in node.targets):
            return True
        return False

    for name, m in sorted(pc.methods.items()):
        if name in ('__init__', 'pump'):
            continue
        if not any(mut(x) for x in walk_local(m)):
            continue
        res = paths.run(m, DirtyDomain(mut, 'self.check_pump'), 0)
        bad = [f'{k} via {" ".join(w)}' for k, st in res.items() if not k.startswith('raise') for v, w in st.items() if v == 1]
        R.check(not bad, rule, f'{PIPE}.{name} | re-evaluates pump condition', 'check_pump() follows every change of queue/paused',
                f'{name}() changes the queue or pause state without calling check_pump(): the pump may sleep with packets queued', p.loc(m), bad)


# ---------------------------------------------------------------------------
def wiring(ctx):
    R, p = ctx.r, ctx.p
    rule = 'C04.wiring'
    H = 'bumble.host.Host'
    ncp = p.find(f'{H}.on_hci_number_of_completed_packets_event')
    dce = p.find(f'{H}.on_hci_disconnection_complete_event')
    if ncp is None or dce is None:
        R.bad(rule, H, 'anchor missing: completion / disconnection event handlers')
        return
    calls = [c for c in calls_in(ncp) if call_attr(c) == 'on_packets_completed']
    ok = False
    for c in calls:
        loop = next((a for a in _ancestors(c) if isinstance(a, ast.For)), None)
        if loop is None or len(c.args) != 2:
            continue
        tnames = [n.id for n in ast.walk(loop.target) if isinstance(n, ast.Name)]
        zipped = isinstance(loop.iter, ast.Call) and call_attr(loop.iter) == 'zip' and [text(a).split('.')[-1] for a in loop.iter.args] == ['connection_handles', 'num_completed_packets']
        # zip(handles, counts) -> (handle, count); the call takes (count, handle)
        if zipped and len(tnames) == 2 and [dotted(a) for a in c.args] == [tnames[1], tnames[0]]:
            ok = True
    # every entry of the event is processed: no `return` / `break` inside the per-entry loop
    for lp in walk_local(ncp):
        if isinstance(lp, ast.For) and any(call_attr(c) == 'on_packets_completed' for c in calls_in(lp)):
            leaves = [x for x in walk_local(lp) if isinstance(x, (ast.Return, ast.Break))]
            R.check(not leaves, rule, f'{H}.on_hci_number_of_completed_packets_event | all entries processed', 'the per-entry loop has no return/break: an unknown handle does not hide later entries',
                    'the loop over (handle, count) entries can stop early (return/break): completions listed after an unknown handle are dropped and their packets wait forever', p.loc(leaves[0]) if leaves else p.loc(lp))
    R.check(ok, rule, f'{H}.on_hci_number_of_completed_packets_event', 'each (handle, count) pair of the event is reported to the queue of that handle as (count, handle)',
            'completed-packet counts are not forwarded pairwise as (count, handle) to the queue', p.loc(ncp))
    # the flushes live in the host's link teardown, which the event handler calls
    tear = p.find(f'{H}.on_disconnection')
    via = tear is not None and any(dotted(c.func) == 'self.on_disconnection' for c in calls_in(dce))
    src_fn = tear if via else dce
    fl = [c for c in calls_in(src_fn) if call_attr(c) == 'flush' and 'packet_queue' in (dotted(c.func) or '')]
    queues = sorted({(dotted(c.func) or '').split('.')[1] for c in fl})
    R.check({'acl_packet_queue', 'le_acl_packet_queue', 'iso_packet_queue'} <= set(queues), rule, f'{H}.on_hci_disconnection_complete_event | flushes queues',
            f'flushes {queues} for the disconnected handle', f'disconnection does not flush all three data queues (flushed: {queues})', p.loc(dce))



def over_report(ctx):
    """What a completion report releases globally is what it released for its connection."""
    from .. import sym
    R, p = ctx.r, ctx.p
    rule = 'C04.over-report'
    fn = p.find('bumble.host.DataPacketQueue.on_packets_completed')
    if fn is None:
        R.bad(rule, 'bumble.host.DataPacketQueue.on_packets_completed', 'anchor missing')
        return
    res = paths.run(fn, sym.Sym(no_subst=sym.object_locals(fn)), sym.Sym.init())
    n = 0
    bad = []
    for k, facts, store, extra, w in sym.exits(res):
        g = store.get('self._in_flight')
        c = store.get('connection_state.in_flight')
        if g is None and c is None:
            continue  # unknown handle: nothing changes
        n += 1
        conn_rel = None
        if c is not None:
            lc = sym.lin(c)
            if c == '0':
                conn_rel = {'at(connection_state.in_flight, 0)': 1}
            elif lc is not None and lc.get('at(connection_state.in_flight, 0)') == 1:
                conn_rel = {a: -v for a, v in lc.items() if a != 'at(connection_state.in_flight, 0)'}
        if g == '0':
            continue  # global counter clamped: nothing more can be released
        lg = sym.lin(g) if g is not None else None
        glob_rel = {a: -v for a, v in lg.items() if a != 'at(self._in_flight, 0)'} if lg is not None and lg.get('at(self._in_flight, 0)') == 1 else None
        if conn_rel is None or glob_rel is None or not sym.lin_eq(conn_rel, glob_rel):
            bad.append(f'connection releases {conn_rel}, queue releases {glob_rel} ({" ".join(w)})')
    R.check(n >= 2 and not bad, rule, 'bumble.host.DataPacketQueue.on_packets_completed | global release equals per-connection release', f'{n} paths: the global in-flight counter drops by exactly what the connection\'s counter dropped',
            'a completion report releases more buffers globally than the reported connection had in flight: credits held by other connections are freed and the host overruns the controller\'s advertised buffer count', p.loc(fn), bad[:3])
    s = norm(fn)
    R.check('if connection_handle not in self._connection_state:' in s, rule, 'bumble.host.DataPacketQueue.on_packets_completed | unknown handle', 'reports for unknown handles are ignored', 'completion reports for unknown handles are no longer ignored', p.loc(fn))


def queue_geometry(ctx):
    from . import c05
    c05.queue_geometry(ctx, rule='C04.queue-geometry')


def shared_state_rule(ctx):
    from ..shared_state import shared_state
    shared_state(ctx, 'C04.shared-state', ['bumble.host', 'bumble.utils'])


def bounded_buffers_rule(ctx):
    from .. import generic_rules as g
    g.bounded_buffers(ctx, 'C04.bounded-buffers', ['bumble.host', 'bumble.utils'])


def one_shot_rule(ctx):
    from ..generic_rules import one_shot_iterators
    one_shot_iterators(ctx, 'C04.one-shot', ['bumble.host'])


def fifo_rule(ctx):
    from ..generic_rules import fifo_discipline
    fifo_discipline(ctx, 'C04.fifo', ['bumble.host', 'bumble.utils'])


def dead_default_check_rule(ctx):
    from ..generic_rules import dead_default_check
    dead_default_check(ctx, 'C04.dead-default-check', ['bumble.host'])


def shared_pool(ctx):
    """A controller that reports no dedicated LE buffers (length or count 0) has ONE pool: the host then uses one queue object
    for LE and Classic, so one counter limits the packets in flight.  Host.reset decides this on the values the controller
    returned -- nothing rewrites them before the test -- and the shared branch aliases the queue."""
    R, p = ctx.r, ctx.p
    rule = 'C04.shared-pool'
    fn = p.find('bumble.host.Host.reset')
    if fn is None:
        R.bad(rule, 'bumble.host.Host.reset', 'anchor missing')
        return
    branch = [n for n in walk_local(fn) if isinstance(n, ast.If) and any(isinstance(s_, ast.Assign) and dotted(s_.targets[0]) == 'self.le_acl_packet_queue' and norm(s_.value) == 'self.acl_packet_queue' for s_ in n.body + n.orelse)]
    R.check(len(branch) == 1, rule, 'bumble.host.Host.reset | shared queue', 'one branch makes the LE queue the Classic queue object', f'{len(branch)} such branches', p.loc(fn))
    if len(branch) != 1:
        return
    br = branch[0]
    names = sorted({x.id for x in ast.walk(br.test) if isinstance(x, ast.Name)})
    for nm in names:
        writes = [s_ for s_ in walk_local(fn) if isinstance(s_, (ast.Assign, ast.AugAssign)) and any(isinstance(t, ast.Name) and t.id == nm for t in (s_.targets if isinstance(s_, ast.Assign) else [s_.target])) and s_.lineno < br.lineno]
        ok = bool(writes) and all(isinstance(w, ast.Assign) and (is_const(w.value) or (isinstance(w.value, ast.Attribute) and (dotted(w.value) or '').startswith('response'))) for w in writes)
        R.check(ok, rule, f'bumble.host.Host.reset | {nm}', 'the tested value is what the controller returned (or the initial constant)',
                f'`{nm}` is rewritten before the "no dedicated LE buffers" test ({[norm(w)[:60] for w in writes if not (isinstance(w, ast.Assign) and (is_const(w.value) or (dotted(w.value) or "").startswith("response")))][:2]}): the shared pool then gets a second, independent queue and the host puts up to twice the advertised number of packets in flight', p.loc(br))


def pools_rule(ctx):
    """Each kind of link draws on its own buffer pool: an ISO link is created with the ISO queue, and the queue used for
    completions and drain of an ACL handle is the one stored on that connection (the one its packets were enqueued on)."""
    R, p = ctx.r, ctx.p
    rule = 'C04.pools'
    ci = p.cls('bumble.host.Host')
    if ci is None:
        R.bad(rule, 'bumble.host.Host', 'anchor missing')
        return
    n = 0
    for name, fn in sorted(ci.methods.items()):
        for c in [x for x in calls_in(fn) if call_attr(x) == 'IsoLink']:
            n += 1
            q = kwarg(c, 'packet_queue', 1)
            R.check(q is not None and norm(q) == 'self.iso_packet_queue', rule, f'bumble.host.Host.{name} | IsoLink', 'uses the ISO queue', f'an ISO link is given `{norm(q) if q is not None else None}` as its queue: its packets are credited against another pool (more ISO packets in flight than ISO buffers, ACL packets waiting although ACL buffers are free)', p.loc(c))
    g = ci.methods.get('get_data_packet_queue')
    if g is None:
        R.bad(rule, 'bumble.host.Host.get_data_packet_queue', 'anchor missing')
    else:
        rets = [norm(r.value) for r in walk_local(g) if isinstance(r, ast.Return) and r.value is not None and not (isinstance(r.value, ast.Constant) and r.value.value is None)]
        ok = bool(rets) and all(r.endswith('.acl_packet_queue') and not r.startswith('self.') or r.endswith('.packet_queue') for r in rets)
        R.check(ok, rule, 'bumble.host.Host.get_data_packet_queue', f'returns the queue stored on the link ({rets})', f'get_data_packet_queue returns {rets}: completions for a handle are routed to a queue other than the one its packets were enqueued on, so they are dropped as "unknown connection" and the link stalls', p.loc(g))
    R.check(n >= 1, rule, 'bumble.host.Host | IsoLink constructions', f'{n}', 'no IsoLink construction found')


def big_table(ctx):
    """The set of BIS handles of a BIG is replaced by each Create BIG / BIG Sync completion: a failed attempt leaves an empty
    set under the BIG handle, and remove_big() releases exactly the handles found there."""
    R, p = ctx.r, ctx.p
    rule = 'C04.big-table'
    ci = p.cls('bumble.host.Host')
    if ci is None:
        R.bad(rule, 'bumble.host.Host', 'anchor missing')
        return
    n = 0
    for name, fn in sorted(ci.methods.items()):
        if not (name.startswith('on_hci_le_') and 'big' in name and 'established' in name or name == 'on_hci_le_create_big_complete_event'):
            continue
        n += 1
        stores = [s_ for s_ in walk_local(fn) if isinstance(s_, ast.Assign) and isinstance(s_.targets[0], ast.Subscript) and dotted(s_.targets[0].value) == 'self.bigs']
        soft = [c for c in calls_in(fn) if dotted(c.func.value if isinstance(c.func, ast.Attribute) else c.func) == 'self.bigs' and call_attr(c) in ('setdefault', 'update')]
        R.check(bool(stores) and not soft, rule, f'bumble.host.Host.{name}', 'replaces the BIG\'s handle set', f'{name} keeps an existing entry (`{norm(soft[0])[:50] if soft else "no store"}`): after a failed attempt the BIG keeps its empty set, the BIS links of the successful retry are never found by remove_big(), their in-flight packets keep the controller\'s buffers for ever', p.loc(soft[0]) if soft else p.loc(fn))
    R.check(n >= 2, rule, 'bumble.host.Host | BIG completion handlers', f'{n}', f'only {n} found')


def pipe_pump_condition(ctx):
    """FlowControlAsyncPipe pumps while there is a packet in the queue: the test is on the queue itself, not on the byte
    counter (an empty packet is a packet)."""
    R, p = ctx.r, ctx.p
    rule = 'C04.pipe-pump-condition'
    fn = p.find('bumble.utils.FlowControlAsyncPipe.can_pump')
    if fn is None:
        R.bad(rule, 'bumble.utils.FlowControlAsyncPipe.can_pump', 'anchor missing')
        return
    rets = [r.value for r in walk_local(fn) if isinstance(r, ast.Return) and r.value is not None]
    atoms = []
    for r in rets:
        atoms += [norm(v) for v in (r.values if isinstance(r, ast.BoolOp) else [r])]
    ok = len(rets) == 1 and any(a in ('self.queue', 'len(self.queue) > 0', 'len(self.queue) != 0', 'bool(self.queue)') for a in atoms) and not any('queued_bytes' in a for a in atoms)
    R.check(ok, rule, 'bumble.utils.FlowControlAsyncPipe.can_pump', 'tests the packet queue', f'can_pump() decides on {atoms}: with only zero-length packets queued the byte counter is 0, the pump goes to sleep and those packets are never delivered', p.loc(fn))


def pipe_single_path(ctx):
    """FlowControlAsyncPipe delivers through one path: write() only queues, the pump alone calls write_to_sink - a second
    path that hands a packet to the sink directly can overtake what is still queued."""
    R, p = ctx.r, ctx.p
    rule = 'C04.pipe-single-path'
    ci = p.cls('bumble.utils.FlowControlAsyncPipe')
    if ci is None:
        R.bad(rule, 'bumble.utils.FlowControlAsyncPipe', 'anchor missing')
        return
    callers = sorted({name for name, fn in ci.methods.items() for c in calls_in(fn) if dotted(c.func) == 'self.write_to_sink'})
    w = ci.methods.get('write')
    queues = w is not None and any(call_attr(c) == 'append' and dotted(c.func.value) == 'self.queue' for c in calls_in(w))
    R.check(len(callers) == 1 and 'write' not in callers and queues, rule, 'bumble.utils.FlowControlAsyncPipe | delivery path', f'only {callers} hands packets to the sink; write() queues', f'write_to_sink is called from {callers}: a packet written while earlier ones are still queued (after a pause with a non-zero threshold) reaches the sink before them', p.loc(w) if w is not None else p.loc(ci.node))


def queue_send_total(ctx):
    """DataPacketQueue._check_queue pops a packet and then calls its `send` callback: the callback the host installs
    (Host.send_hci_packet) never raises on its own account, or the popped packet is neither sent nor completed and the
    exception leaves whatever teardown was flushing the queue half-way."""
    R, p = ctx.r, ctx.p
    rule = 'C04.queue-send-total'
    host = p.cls('bumble.host.Host')
    if host is None:
        R.bad(rule, 'bumble.host.Host', 'anchor missing')
        return
    sends = set()
    for fn in host.methods.values():
        for c in [x for x in ast.walk(fn) if isinstance(x, ast.Call) and call_attr(x) == 'DataPacketQueue']:
            s_ = kwarg(c, 'send', 2)
            if s_ is not None and (dotted(s_) or '').startswith('self.'):
                sends.add(dotted(s_)[5:])
    R.check(len(sends) >= 1, rule, 'bumble.host.Host | queue send callbacks', f'{sorted(sends)}', 'no DataPacketQueue(send=self.<method>) found', p.loc(host.node))
    for name in sorted(sends):
        fn = host.methods.get(name)
        if fn is None:
            R.bad(rule, f'bumble.host.Host.{name}', 'anchor missing')
            continue
        rs = [x for x in walk_local(fn) if isinstance(x, ast.Raise)]
        R.check(not rs, rule, f'bumble.host.Host.{name}', 'does not raise', f'{name} is the send callback of the data packet queues and raises (`{norm(rs[0])[:50] if rs else ""}`): a packet popped by _check_queue during the flush of another connection vanishes (queued, never sent, never completed) and the exception ends on_transport_lost() before the other links are torn down', p.loc(rs[0]) if rs else p.loc(fn))


RULES = [
    ('C04.queue-send-total', queue_send_total),
    ('C04.pipe-single-path', pipe_single_path),
    ('C04.pipe-pump-condition', pipe_pump_condition),
    ('C04.big-table', big_table),
    ('C04.pools', pools_rule),
    ('C04.shared-pool', shared_pool),
    ('C04.dead-default-check', dead_default_check_rule),
    ('C04.fifo', fifo_rule),
    ('C04.one-shot', one_shot_rule),
    ('C04.bounded-buffers', bounded_buffers_rule),
    ('C04.flush-handle', flush_handle),
    ('C04.shared-state', shared_state_rule),
    ('C04.queue-geometry', queue_geometry),
    ('C04.over-report', over_report),
    ('C04.credit-guard', credit_guard),
    ('C04.pump', pump),
    ('C04.fifo', fifo),
    ('C04.drain', drain),
    ('C04.pipe', pipe),
    ('C04.wiring', wiring),
]

VARIANTS = [
    ('flush no longer pumps', 'bumble/host.py',
     "        # Credits may have been freed: send what is waiting for other connections\n        self._check_queue()\n", "",
     'fire', 'C04.pump'),
    ('credit test weakened to <=', 'bumble/host.py',
     "        while self._packets and self._in_flight < self.max_in_flight:", "        while self._packets and self._in_flight <= self.max_in_flight:",
     'fire', 'C04.credit-guard'),
    ('per-connection increment dropped', 'bumble/host.py',
     "            connection_state.in_flight += 1\n            connection_state.drained.clear()", "            connection_state.drained.clear()",
     'fire', 'C04.credit-guard'),
    ('queue becomes LIFO', 'bumble/host.py',
     "        self._packets.appendleft((packet, connection_handle))", "        self._packets.append((packet, connection_handle))",
     'fire', 'C04.fifo'),
    ('pipe LIFO again', 'bumble/utils.py', "                packet = self.queue.popleft()\n", "                packet = self.queue.pop()\n", 'fire', 'C04.fifo'),
    ('drained not set when count reaches zero', 'bumble/host.py',
     "            # Nothing in flight and nothing waiting for a free buffer\n            connection_state.drained.set()\n",
     "            # Nothing in flight and nothing waiting for a free buffer\n            pass\n", 'fire', 'C04.drain'),
    ('queued packet does not mark the connection busy', 'bumble/host.py', "        self._connection_state[connection_handle].drained.clear()\n        self._check_queue()\n", "        self._check_queue()\n", 'fire', 'C04.drain'),
    ('completion skips pump on over-report branch', 'bumble/host.py',
     "            self._in_flight = 0\n            self._completed = self._queued\n\n        self._check_queue()\n",
     "            self._in_flight = 0\n            self._completed = self._queued\n            self.emit('flow')\n            return\n\n        self._check_queue()\n", 'fire', 'C04.pump'),
    ('pipe resume forgets check_pump', 'bumble/utils.py',
     "                self.resume_source()\n                self.source_paused = False\n            self.check_pump()\n", "                self.resume_source()\n                self.source_paused = False\n", 'fire', 'C04.pipe'),
    ('completed pairs swapped', 'bumble/host.py',
     "queue.on_packets_completed(num_completed_packets, connection_handle)", "queue.on_packets_completed(connection_handle, num_completed_packets)", 'fire', 'C04.wiring'),
    ('benign: debug log moved', 'bumble/host.py',
     "        self._connection_state[connection_handle].drained.clear()\n        self._check_queue()\n", "        self._connection_state[connection_handle].drained.clear()\n        self._check_queue()\n        logger.debug('queued')\n", 'silent', ''),
    ('over-report releases the full reported count globally', 'bumble/host.py', "            packet_count = connection_state.in_flight\n            connection_state.in_flight = 0\n", "            connection_state.in_flight = 0\n", 'fire', 'C04.over-report'),
    ('benign: clamp written with min()', 'bumble/host.py', "        if packet_count <= connection_state.in_flight:\n            connection_state.in_flight -= packet_count\n        else:", "        if connection_state.in_flight >= packet_count:\n            connection_state.in_flight -= packet_count\n        else:", 'silent', ''),
]
