"""C10 — the ATT server answers each request exactly once and within ATT_MTU."""
from __future__ import annotations

import ast
import re

from .. import fields, paths
from ..core import FUNC, call_attr, calls_in, const, dotted, is_const, kwarg, norm, slice_parts, text, walk_local

EXPLANATION = [
    'C10.opcode-lookup: ATT_PDU.from_bytes looks the PDU class up by the unmodified opcode only.',
    'C10.eatt-close-scope: the EVENT_CLOSE hook installed by Server.register_eatt calls on_disconnection(channel) - the closed bearer itself.',
    "C10.bearer-dispatch: both consumers of an ATT bearer (Device.on_gatt_pdu, the sink installed by Client.connect_eatt) dispatch on the opcode parity and hand client->server PDUs to the server's on_gatt_pdu_bytes.",
    'C10.bearer-kind: att.is_enhanced_bearer returns exactly isinstance(bearer, EnhancedBearer) (the narrowing all bearer branches rely on).',
    "C10.total-mappers: every display mapper of an ATT / HCI field is total on the field's values (no indexing with the value, no fixed-format unpack): str() of a PDU, evaluated for the debug log before dispatch, cannot raise.",
    "C10.entry-length-octet: the Read By Type / Read By Group Type handlers cut each entry's value to min(<MTU bound>, 253 / 251): the entry length fits its one-octet field at every ATT_MTU.",
    'C10.bearer-attributes: every attribute read from a `Bearer` parameter (Connection | LeCreditBasedChannel) in bumble.att / bumble.gatt_server exists on every member class possible at the site (isinstance / is_enhanced_bearer narrowing followed): no AttributeError on the enhanced bearer.',
    'C10.blob-part-size: in on_att_read_blob_request the part size is min(bearer.att_mtu - 1, remaining) (or clamped from above by that bound): a Read Blob Response never exceeds ATT_MTU.',
    "C10.att-mtu-min: every assignment of LeCreditBasedChannel.att_mtu (other than the explicit update hook) is min(own mtu, peer mtu): both ends of an enhanced bearer use the same ATT_MTU and nothing longer than the peer's MTU is sent.",
    'C10.integer-arithmetic: no true division in the anchored modules: sizes and budgets are integers (a fractional budget admits one entry too many).',
    'C10.except-name: no name bound by `except ... as name` is read after its handler: Python deletes it when the handler ends, so the read raises UnboundLocalError exactly when the exception was caught.',
    'C10.sdu-boundary: (shared with C12) LeCreditBasedChannel.process_output closes the SDU it is assembling as soon as one queued packet has been consumed entirely: two ATT PDUs written on an enhanced bearer never share an SDU.',
    "C10.identity: no `is` / `is not` comparison in the anchored modules has an operand declared as a number, byte string or string (identity of equal integers holds only inside CPython's small-integer cache, so such a test is right for values up to 256 and wrong afterwards).",
    'C10.uuid-wire: sizes and bytes of UUIDs in ATT PDUs are taken from to_pdu_bytes(), never bytes(uuid) (same rule as C12.uuid-wire): the space accounting of a response counts what is actually written (32-bit UUIDs expand to 128 bits).',
    'C10.parse-guard: every site that hands received bytes to the server dispatcher parses them inside try/except whose handler sends, for an opcode in ATT_REQUESTS only, an Error Response naming that opcode (Invalid PDU); the fixed ATT channel and the EATT sink both enter through it.',
    'C10.accessor-contained: in Attribute.read_value/write_value every call of an application value accessor (and the await of its result) and of the adapters\' value codecs (decode_value of what the peer wrote, encode_value of what is read) is inside try/except Exception that re-raises as ATT_Error, which is what makes "handlers only see ATT_Error" true for C10.once.',
    'C10.mtu-agreement: after an MTU exchange the server adopts min(value it announced, client_rx_mtu) and the client min(value it sent, server_rx_mtu): the same number on both sides, which every budget rule below relies on.',
    'C10.classify: ATT_REQUESTS/ATT_RESPONSES are paired (response opcode = request + 1), commands carry bit 6 and are not requests; '
    'the dispatcher sends one Error Response for requests without a handler and nothing for other PDUs.',
    'C10.once: every request handler sends exactly one response on every path, exceptional paths included '
    '(task-wrapped handlers are outside the dispatcher\'s try/except, so any call that may raise ATT_Error must be caught and answered); '
    'command and confirmation handlers never send.',
    'C10.budget: every response list is filled under a budget B = att_mtu - k with k >= the fixed overhead of the response class '
    '(from its field table); the space test uses the same amount that is then subtracted, which is the size of the entry that is packed; '
    'value caps keep an entry within the 1-byte length field.',
    'C10.truncate: notifications/indications are cut to att_mtu - 3 (= opcode + handle), reads to att_mtu - 1.',
    'C10.indication-slot: an indication is only sent while holding the per-bearer semaphore and the pending slot is cleared in `finally`.',
    'Not decided: behaviour for undefined opcodes (ambiguous in the statement); sizes of values produced by user callbacks at run time.',
]
ASSUMPTIONS = [
    'only Attribute.read_value / write_value raise ATT_Error inside handlers (explicit raise sites are followed); other library calls do not raise',
    'asyncio callbacks run to completion (no pre-emption between statements without await)',
]

SRV = 'bumble.gatt_server.Server'
MAY_RAISE = {'read_value', 'write_value'}
LISTENER_CALLS = {'on_att_mtu_update'}  # emit an event to application listeners from inside a request handler


def _is_task_wrapped(fn) -> bool:
    return any('run_in_task' in text(d) for d in fn.decorator_list)


class RespCount(paths.Domain):
    def event(self, node, v):
        if isinstance(node, ast.Call) and dotted(node.func) == 'self.send_response':
            return (min(2, v + 1),)
        return (v,)

    def may_raise(self, call):
        if call_attr(call) in MAY_RAISE:
            return 'ATT_Error'
        if call_attr(call) in LISTENER_CALLS:
            return 'Exception'  # runs application listeners
        return None

    def is_subclass(self, tag, name):
        return tag == name or (tag == 'ATT_Error' and name in ('ProtocolError', 'BaseError', 'Exception')) or (tag == 'Exception' and name == 'BaseException')


def opcodes(p):
    ci = p.cls('bumble.att.Opcode')
    return {k: const(v) for k, v in ci.assigns.items() if is_const(v)} if ci else {}


def _list_names(p, name):
    v = p.modules['bumble.att'].assigns.get(name)
    return [text(e).split('.')[-1] for e in v.elts] if isinstance(v, ast.List) else None


def classify(ctx):
    R, p = ctx.r, ctx.p
    rule = 'C10.classify'
    ops = opcodes(p)
    reqs, resps = _list_names(p, 'ATT_REQUESTS'), _list_names(p, 'ATT_RESPONSES')
    if not ops or reqs is None or resps is None:
        R.bad(rule, 'bumble.att.ATT_REQUESTS', 'anchor missing: Opcode / ATT_REQUESTS / ATT_RESPONSES')
        return
    for r in reqs:
        want = r.replace('_REQUEST', '_RESPONSE')
        ok = want in resps and ops.get(want) == ops.get(r, -9) + 1
        R.check(ok, rule, f'bumble.att.{r}', f'paired with {want} = 0x{ops.get(want, 0):02X}', f'{r} has no response {want} with opcode request+1 in ATT_RESPONSES', '')
        R.check(not (ops.get(r, 0) >> 6) & 1, rule, f'bumble.att.{r} | not a command', 'command bit clear', f'{r} is listed as a request but carries the command bit', '')
    for name, v in sorted(ops.items()):
        if name.endswith('_REQUEST'):
            R.check(name in reqs, rule, f'bumble.att.{name} | listed', 'listed in ATT_REQUESTS', f'{name} is a request opcode but not listed in ATT_REQUESTS: it would be ignored instead of answered', '')
        if name.endswith('_COMMAND'):
            R.check((v >> 6) & 1 == 1 and name not in reqs, rule, f'bumble.att.{name} | command', 'bit 6 set, not a request', f'{name} (0x{v:02X}) is a command but is classified as a request or lacks the command bit', '')
    ic = p.find('bumble.att.ATT_PDU.is_command')
    if ic is not None:
        rets = [norm(n.value) for n in walk_local(ic) if isinstance(n, ast.Return)]
        R.check(rets == ['self.op_code >> 6 & 1 == 1'], rule, 'bumble.att.ATT_PDU.is_command', 'bit 6 of the opcode', f'is_command computed as {rets}', p.loc(ic))
    # dispatcher
    disp = p.find(f'{SRV}.on_gatt_pdu')
    gen = p.find(f'{SRV}.on_att_request')
    if disp is None or gen is None:
        R.bad(rule, f'{SRV}.on_gatt_pdu', 'anchor missing: on_gatt_pdu / on_att_request')
        return
    pat = [n for n in walk_local(disp) if isinstance(n, ast.JoinedStr)]
    pats = [''.join(x.value if isinstance(x, ast.Constant) else '{' + norm(x.value) + '}' for x in n.values) for n in pat]
    R.check('on_{att_pdu.name.lower()}' in pats, rule, f'{SRV}.on_gatt_pdu | dispatch idiom', 'handler = getattr(self, f"on_{att_pdu.name.lower()}", None)', f'dispatch idiom not recognised: {pats[:2]}', p.loc(disp))

    class D(paths.Domain):
        # value: (handler_found, is_request, handler_raises, n_responses)
        def event(self, node, v):
            if isinstance(node, ast.Call):
                d = dotted(node.func) or ''
                if d in ('self.send_response', 'self.on_att_request'):
                    return ((v[0], v[1], v[2], min(2, v[3] + 1)),)
            return (v,)

        def assume(self, atom, truth, v):
            t = norm(atom)
            if t == 'handler is not None':
                return (v,) if truth == v[0] else ()
            if t == 'att_pdu.op_code in att.ATT_REQUESTS':
                return (v,) if truth == v[1] else ()
            return (v,)

        def may_raise(self, call):
            if dotted(call.func) == 'handler':
                return None  # handled below by tag injection
            return None

    class DR(D):
        def may_raise(self, call):
            return 'ATT_Error' if dotted(call.func) == 'handler' else None

    class DX(D):
        def may_raise(self, call):
            return 'RuntimeError' if dotted(call.func) == 'handler' else None

    def total(dom, init):
        res = paths.run(disp, dom, init)
        return {v[3] for k, st in res.items() for v in st}

    r1 = total(D(), (False, True, False, 0))
    R.check(r1 == {1}, rule, f'{SRV}.on_gatt_pdu | request without handler', 'exactly one (error) response', f'a request without a specific handler gets {sorted(r1)} responses', p.loc(disp))
    r2 = total(D(), (False, False, False, 0))
    R.check(r2 == {0}, rule, f'{SRV}.on_gatt_pdu | non-request without handler', 'nothing is sent', f'a command/unknown non-request gets {sorted(r2)} responses', p.loc(disp))
    for dom, label in ((DR(), 'ATT_Error'), (DX(), 'other exception')):
        res = paths.run(disp, dom, (True, True, True, 0))
        got = {v[3] for k, st in res.items() for v in st if 'except' in ' '.join(st[v])}
        R.check(got == {1}, rule, f'{SRV}.on_gatt_pdu | synchronous handler raises {label}', 'one Error Response', f'handler raising {label}: {sorted(got)} responses sent by the dispatcher', p.loc(disp))
    # a synchronous handler of a *non-request* (a confirmation) that raises: the dispatcher must not answer it
    for dom, label in ((DR(), 'ATT_Error'), (DX(), 'other exception')):
        res = paths.run(disp, dom, (True, False, True, 0))
        got = {v[3] for k, st in res.items() for v in st if 'except' in ' '.join(st[v])}
        if label == 'ATT_Error':
            continue  # handlers of non-requests never raise ATT_Error themselves (they do not go through the permission gate)
        R.check(got == {0}, rule, f'{SRV}.on_gatt_pdu | handler of a non-request raises {label}', 'nothing is sent',
                f'when the handler of a command or confirmation raises, the dispatcher sends {sorted(got)} Error Response(s): a non-request is answered', p.loc(disp))
    res = paths.run(gen, RespCount(), 0)
    got = set(paths.normal_exits(res))
    R.check(got == {1}, rule, f'{SRV}.on_att_request', 'generic handler sends exactly one Error Response', f'generic handler sends {sorted(got)} responses', p.loc(gen))
    R.floor(rule, 20, 'classification obligations')


def once(ctx):
    R, p = ctx.r, ctx.p
    rule = 'C10.once'
    srv = p.cls(SRV)
    if srv is None:
        R.bad(rule, SRV, f'anchor missing: {SRV}')
        return
    ops = opcodes(p)
    n = 0
    for name, m in sorted(srv.methods.items()):
        if not name.startswith('on_att_') or name == 'on_att_request':
            continue
        opname = name[3:].upper()
        if opname not in ops:
            R.bad(rule, f'{SRV}.{name} | unreachable', 'handler name matches no ATT opcode (dispatch is by PDU name)', p.loc(m))
            continue
        n += 1
        is_request = opname.endswith('_REQUEST')
        res = paths.run(m, RespCount(), 0)
        wrapped = _is_task_wrapped(m)
        probs = []
        n_paths = 0
        for k, st in res.items():
            for v, w in st.items():
                n_paths += 1
                via = f'{k} via {" ".join(w)}'
                if k.startswith('raise'):
                    if is_request and wrapped:
                        probs.append(f'an exception ({k[6:]}) escapes the task-wrapped handler after {v} response(s): the dispatcher cannot answer for it ({via})')
                    elif is_request and v != 0:
                        probs.append(f'raises after already sending {v} response(s): the dispatcher adds an Error Response ({via})')
                    elif not is_request and wrapped is False and k != 'raise:AssertionError':
                        probs.append(f'a command/confirmation handler raises into the dispatcher, which answers with an Error Response ({via})')
                else:
                    if is_request and v != 1:
                        probs.append(f'{v} responses on a normal path ({via})')
                    if not is_request and v != 0:
                        probs.append(f'a non-request sends {v} response(s) ({via})')
        key = f'{SRV}.{name}'
        if probs:
            R.bad(rule, key, f'{opname}: ' + '; '.join(probs[:4]), p.loc(m), probs)
        else:
            R.ok(rule, key, f'{n_paths} abstract exit(s): ' + ('exactly one response on every path, no escaping exception' if is_request else 'never sends a response'), p.loc(m))
    # request opcodes without a handler fall back to the generic error path (checked in classify)
    handled = {x[3:].upper() for x in srv.methods}
    R.extra['requests_without_specific_handler'] = sorted(k for k in ops if k.endswith('_REQUEST') and k not in handled)
    R.floor(rule, 12, 'handlers')


# ---------------------------------------------------------------------------
def _local_defs(fn):
    d = {}
    for n in walk_local(fn):
        if isinstance(n, ast.Assign) and len(n.targets) == 1 and isinstance(n.targets[0], ast.Name):
            d.setdefault(n.targets[0].id, []).append(n.value)
    return d


def _resolve(expr, defs, depth=0):
    """Inline single-definition locals: entry_size -> 2 + len(attribute_value)."""
    class T(ast.NodeTransformer):
        def visit_Name(self, node):
            if isinstance(node.ctx, ast.Load) and node.id != 'pdu_space_available' and node.id in defs and len(defs[node.id]) == 1 and depth < 3:
                v = defs[node.id][0]
                if isinstance(v, (ast.BinOp, ast.Constant)) or (isinstance(v, ast.Call) and call_attr(v) == 'len'):
                    return _resolve(v, defs, depth + 1)
            return node
    return T().visit(ast.parse(ast.unparse(expr), mode='eval').body)


def _const_part(expr_text):
    """'2 + len(x)' -> 2 ; '4' -> 4 ; 'len(x)' -> 0"""
    m = re.match(r'^(\d+)( \+ .*)?$', expr_text)
    if m:
        return int(m.group(1))
    m = re.match(r'^.* \+ (\d+)$', expr_text)
    if m:
        return int(m.group(1))
    return 0


def _response_class(fn, p):
    """Non-error response class constructed in the handler."""
    for c in calls_in(fn):
        n = call_attr(c) or ''
        if n.startswith('ATT_') and n.endswith('_Response') and n != 'ATT_Error_Response':
            return n
    return None


def budget(ctx):
    R, p = ctx.r, ctx.p
    rule = 'C10.budget'
    srv = p.cls(SRV)
    if srv is None:
        R.bad(rule, SRV, f'anchor missing: {SRV}')
        return
    n = 0
    for name, m in sorted(srv.methods.items()):
        inits = [x for x in walk_local(m) if isinstance(x, ast.Assign) and dotted(x.targets[0]) == 'pdu_space_available']
        if not inits:
            continue
        n += 1
        key = f'{SRV}.{name}'
        defs = _local_defs(m)
        k = None
        iv = inits[0].value
        if isinstance(iv, ast.BinOp) and isinstance(iv.op, ast.Sub) and norm(iv.left) == 'bearer.att_mtu' and is_const(iv.right):
            k = const(iv.right)
        rc = _response_class(m, p)
        ci = p.cls(f'bumble.att.{rc}') if rc else None
        if k is None or ci is None:
            R.bad(rule, key + ' | budget form', f'budget is not `bearer.att_mtu - <const>` or response class not found ({text(iv)}, {rc})', p.loc(m))
            continue
        fl = fields.class_fields(p, ci)
        fixed, _ = fields.fixed_prefix_width(fl)
        overhead = 1 + fixed
        R.check(k >= overhead, rule, key + ' | overhead', f'budget att_mtu - {k} leaves room for opcode + fixed fields of {rc} ({overhead} bytes)',
                f'budget att_mtu - {k} ignores part of the {overhead}-byte fixed overhead of {rc}: the response can exceed ATT_MTU', p.loc(inits[0]))
        # the amount subtracted per entry and the guards on the remaining space
        subs = [x for x in walk_local(m) if isinstance(x, ast.AugAssign) and dotted(x.target) == 'pdu_space_available' and isinstance(x.op, ast.Sub)]
        if len(subs) != 1:
            R.bad(rule, key + ' | accounting', f'{len(subs)} places lower the remaining space (expected one per appended entry)', p.loc(m))
            continue
        sub = subs[0]
        amount = norm(_resolve(sub.value, defs))
        loop = next((a for a in _anc(sub) if isinstance(a, (ast.For, ast.AsyncFor, ast.While))), None)
        if loop is None:
            R.bad(rule, key + ' | accounting', 'space accounting is not inside the fill loop', p.loc(sub))
            continue
        # appends in the loop
        apps = [c for c in calls_in(loop) if isinstance(c.func, ast.Attribute) and c.func.attr == 'append']
        R.check(len(apps) == 1, rule, key + ' | one append per iteration', 'one entry appended per iteration', f'{len(apps)} append sites in the fill loop', p.loc(loop))
        if not apps:
            continue
        app = apps[0]
        # guard: `if pdu_space_available < X: break` before the append in the same loop body,
        # or the truncation idiom value[: pdu_space_available - c] with `if pdu_space_available < c: break`
        guards = []
        from ..sym import cmp_sides
        for t, pol in paths.flat_guards(app, stop=loop):
            rt = _resolve(t, defs)
            tn = norm(rt)
            if 'pdu_space_available' in tn:
                guards.append((tn, pol, cmp_sides(rt)))
        ok = False
        why = ''
        for tn, pol, sides in guards:
            g = None
            if sides is not None:
                small, op, big = sides
                if small == 'pdu_space_available' and op == '<' and not pol:
                    g = big          # not (space < g)  <=>  space >= g
                elif big == 'pdu_space_available' and op == '<=' and pol:
                    g = small        # g <= space
            if g is None:
                continue
            if g == amount:
                ok, why = True, f'space test `pdu_space_available >= {g}` matches the {amount} subtracted'
            else:
                # truncation idiom: value cut to pdu_space_available - c and c == constant part of amount
                trunc = [slice_parts(x.value) for x in walk_local(loop) if isinstance(x, ast.Assign) and slice_parts(x.value)]
                c = _const_part(g) if g.isdigit() else None
                if c is not None and any(sp[2] == f'pdu_space_available - {c}' for sp in trunc) and _const_part(amount) == c:
                    ok, why = True, f'value truncated to pdu_space_available - {c} after testing pdu_space_available >= {c}; {amount} subtracted'
                else:
                    why = f'space test admits an entry when pdu_space_available >= {g}, but the entry costs {amount}'
        if not guards:
            why = 'no test of the remaining space dominates the append'
        R.check(ok, rule, key + ' | append dominated by space test', why, f'{why}: an entry is added that may not fit (response longer than ATT_MTU)', p.loc(app))
        # the amount equals the packed size of an entry
        fmt_sizes = []
        for c in calls_in(m):
            if dotted(c.func) == 'struct.pack' and c.args and is_const(c.args[0]) and getattr(c, 'lineno', 0) > loop.lineno:
                import struct as _s
                fmt_sizes.append(_s.calcsize(const(c.args[0])))
        if name == 'on_att_read_multiple_variable_request':
            fmt_sizes = [2]  # length prefix written by ATT_Read_Multiple_Variable_Response itself ('<H' per tuple)
        if name == 'on_att_read_multiple_request':
            fmt_sizes = [0]
        if fmt_sizes:
            R.check(_const_part(amount) == fmt_sizes[0], rule, key + ' | entry size', f'entry costs {amount}: {fmt_sizes[0]} header byte(s) + value, as packed',
                    f'entry is accounted as {amount} but is packed with a {fmt_sizes[0]}-byte header', p.loc(sub))
        # value caps vs the 1-byte length field
        length_field = next((f for f in fl if f.name == 'length'), None)
        caps = [x.value for x in walk_local(m) if isinstance(x, ast.Assign) and dotted(x.targets[0]) == 'max_attribute_size']
        if caps and isinstance(caps[0], ast.Call) and call_attr(caps[0]) == 'min' and len(caps[0].args) == 2:
            a0, a1 = caps[0].args
            mt = re.match(r'^bearer\.att_mtu - (\d+)$', norm(a0))
            hdr = _const_part(amount)
            if length_field is not None and fields.width(length_field.spec) == 1:
                R.check(is_const(a1) and const(a1) + hdr <= 255, rule, key + ' | cap fits the length field', f'value cap {text(a1)} + {hdr} <= 255 (1-byte length field of {rc})',
                        f'value cap {text(a1)} + {hdr} header bytes exceeds the 1-byte `length` field of {rc} (serialisation fails, no response is sent)', p.loc(caps[0]))
            need = overhead + hdr
            R.check(mt is not None and int(mt.group(1)) >= need, rule, key + ' | cap fits the MTU', f'value cap att_mtu - {mt.group(1) if mt else "?"} >= fixed overhead {need}',
                    f'value cap {norm(a0)} leaves less than the {need} bytes of opcode/fixed fields/entry header', p.loc(caps[0]))
    R.floor(rule, 24, 'budget obligations')
    R.extra['budget_loops'] = n


def _anc(node):
    p_ = getattr(node, '_parent', None)
    while p_ is not None:
        yield p_
        p_ = getattr(p_, '_parent', None)


def truncate(ctx):
    R, p = ctx.r, ctx.p
    rule = 'C10.truncate'
    srv = p.cls(SRV)
    if srv is None:
        R.bad(rule, SRV, f'anchor missing: {SRV}')
        return
    for mname, cls in (('_notify_single_subscriber', 'ATT_Handle_Value_Notification'), ('_indicate_single_bearer', 'ATT_Handle_Value_Indication')):
        m = srv.methods.get(mname)
        ci = p.cls(f'bumble.att.{cls}')
        if m is None or ci is None:
            R.bad(rule, f'{SRV}.{mname}', 'anchor missing')
            continue
        fixed, _ = fields.fixed_prefix_width(fields.class_fields(p, ci))
        oh = 1 + fixed
        cons = [c for c in calls_in(m) if call_attr(c) == cls]
        ok = False
        if len(cons) == 1:
            val = dotted(kwarg(cons[0], 'attribute_value'))
            cuts = [(norm(n.test), [slice_parts(x.value) for x in n.body if isinstance(x, ast.Assign) and dotted(x.targets[0]) == val]) for n in walk_local(m) if isinstance(n, ast.If)]
            ok = (f'len({val}) > bearer.att_mtu - {oh}', [(val, '0', f'bearer.att_mtu - {oh}')]) in cuts
        R.check(ok, rule, f'{SRV}.{mname} | value <= att_mtu - {oh}', f'value cut to att_mtu - {oh} (opcode + {fixed}-byte handle of {cls})', f'the value placed in {cls} is not truncated to att_mtu - {oh}', p.loc(m))
    rr = srv.methods.get('on_att_read_request')
    if rr is not None:
        vs = [norm(n.value) for n in walk_local(rr) if isinstance(n, ast.Assign) and dotted(n.targets[0]) == 'value_size']
        sl = [slice_parts(kwarg(c, 'attribute_value')) for c in calls_in(rr) if call_attr(c) == 'ATT_Read_Response']
        R.check(vs == ['min(bearer.att_mtu - 1, len(value))'] and sl == [('value', '0', 'value_size')], rule, f'{SRV}.on_att_read_request | value <= att_mtu - 1', 'read value cut to att_mtu - 1', f'read response value: size {vs}, slice {sl}', p.loc(rr))
    rb = srv.methods.get('on_att_read_blob_request')
    if rb is not None:
        vs = [norm(n.value) for n in walk_local(rb) if isinstance(n, ast.Assign) and dotted(n.targets[0]) == 'part_size']
        sl = [slice_parts(kwarg(c, 'part_attribute_value')) for c in calls_in(rb) if call_attr(c) == 'ATT_Read_Blob_Response']
        R.check(vs == ['min(bearer.att_mtu - 1, len(value) - request.value_offset)'] and sl == [('value', 'request.value_offset', 'request.value_offset + part_size')], rule, f'{SRV}.on_att_read_blob_request | part <= att_mtu - 1', 'blob part cut to att_mtu - 1 from the requested offset', f'blob part: size {vs}, slice {sl}', p.loc(rb))


def indication_slot(ctx, rule='C10.indication-slot'):
    R, p = ctx.r, ctx.p
    srv = p.cls(SRV)
    if srv is None:
        R.bad(rule, SRV, f'anchor missing: {SRV}')
        return
    makers = sorted({n for n, m in srv.methods.items() for c in calls_in(m) if call_attr(c) == 'ATT_Handle_Value_Indication'})
    R.check(makers == ['_indicate_single_bearer'], rule, f'{SRV} | indication constructed in one place', 'only _indicate_single_bearer builds indications', f'indications are built in {makers}', '')
    m = srv.methods.get('_indicate_single_bearer')
    if m is None:
        R.bad(rule, f'{SRV}._indicate_single_bearer', 'anchor missing')
        return
    sends = [c for c in calls_in(m) if dotted(c.func) == 'self.send_gatt_pdu']
    R.check(len(sends) == 1, rule, f'{SRV}._indicate_single_bearer | one send', 'one', f'{len(sends)} sends', p.loc(m))
    for c in sends:
        withs = [a for a in _anc(c) if isinstance(a, ast.AsyncWith)]
        def _ctx(e):
            # `async with self.indication_semaphores[bearer]` or `async with <local>` whose only definition is that expression
            if isinstance(e, ast.Name):
                defs = [n_.value for n_ in walk_local(m) if isinstance(n_, ast.Assign) and dotted(n_.targets[0]) == e.id]
                return norm(defs[0]) if len(defs) == 1 else ''
            return norm(e)
        ok = any('self.indication_semaphores[bearer]' in _ctx(it.context_expr) for w in withs for it in w.items)
        R.check(ok, rule, f'{SRV}._indicate_single_bearer | sent under the per-bearer semaphore', 'inside `async with self.indication_semaphores[bearer]`', 'the indication is sent without holding the per-bearer indication semaphore: two can be outstanding', p.loc(c))
        trys = [a for a in _anc(c) if isinstance(a, ast.Try)]
        def _clears(t):
            for s_ in t.finalbody:
                for x in ast.walk(s_):
                    if isinstance(x, ast.Assign) and norm(x) == 'self.pending_confirmations[bearer] = None':
                        # unconditional, or only skipped when the bearer's entry is gone altogether (teardown)
                        g = [(norm(tt), pol) for tt, pol in paths.flat_guards(x, stop=t)]
                        if all(gg == ('bearer in self.pending_confirmations', True) for gg in g):
                            return True
            return False
        ok = any(_clears(t) for t in trys)
        R.check(ok, rule, f'{SRV}._indicate_single_bearer | slot cleared in finally', 'pending_confirmations[bearer] = None in finally', 'the pending-confirmation slot is not cleared on every exit (timeout/cancel leaves it set)', p.loc(c))
        waits = [n for t in trys for n in ast.walk(t) if isinstance(n, ast.Await) and 'pending_confirmation' in norm(n)]
        R.check(bool(waits) and all('wait_for' in norm(w) for w in waits), rule, f'{SRV}._indicate_single_bearer | confirmation awaited with timeout', 'awaits the confirmation under wait_for', 'the confirmation is not awaited (or awaited without a timeout) while the semaphore is held', p.loc(c))
    conf = srv.methods.get('on_att_handle_value_confirmation')
    if conf is not None:
        src_ = norm(conf)
        ok = any(isinstance(c.func, ast.Attribute) and c.func.attr == 'set_result' for c in calls_in(conf)) and ('self.pending_confirmations[bearer]' in src_ or 'self.pending_confirmations.get(bearer)' in src_)
        R.check(ok, rule, f'{SRV}.on_att_handle_value_confirmation', 'settles the bearer\'s pending confirmation', 'a confirmation does not settle the pending indication of its bearer', p.loc(conf))
        # ... and only a pending one: a duplicate confirmation finds the future done, set_result would raise and the
        # dispatcher's catch-all would answer the confirmation with an Error Response
        sets = [c for c in calls_in(conf) if isinstance(c.func, ast.Attribute) and c.func.attr == 'set_result']
        guarded = True
        for c in sets:
            fut = dotted(c.func.value)
            top = c
            while getattr(top, '_parent', None) is not conf:
                top = top._parent
            early = [s_ for s_ in conf.body[:conf.body.index(top)] if isinstance(s_, ast.If) and f'{fut}.done()' in norm(s_.test) and s_.body and isinstance(s_.body[-1], ast.Return)]
            inline = any(norm(t) == f'{fut}.done()' and not pol for t, pol in paths.flat_guards(c))
            guarded = guarded and (bool(early) or inline)
        R.check(bool(sets) and guarded, rule, f'{SRV}.on_att_handle_value_confirmation | only a pending future', 'set_result is reached only when the future is not done', 'a duplicate confirmation reaches set_result on a future that is already done: InvalidStateError, answered by the dispatcher with an Error Response to a confirmation', p.loc(conf))



def mtu_agreement(ctx, rule='C10.mtu-agreement'):
    """Both ends use min(what I announced, what the peer announced) as ATT_MTU."""
    R, p = ctx.r, ctx.p
    srv = p.find('bumble.gatt_server.Server.on_att_exchange_mtu_request')
    cli = p.find('bumble.gatt_client.Client.request_mtu')
    if srv is None or cli is None:
        R.bad(rule, 'bumble.gatt_server.Server.on_att_exchange_mtu_request / bumble.gatt_client.Client.request_mtu', 'anchor missing')
        return

    def min_args(fn, e):
        """resolve a Name through single local definitions, then expect min(a, b)."""
        defs = {n.targets[0].id: n.value for n in walk_local(fn) if isinstance(n, ast.Assign) and len(n.targets) == 1 and isinstance(n.targets[0], ast.Name)}
        for _ in range(3):
            if isinstance(e, ast.Name) and e.id in defs:
                e = defs[e.id]
        if isinstance(e, ast.Call) and dotted(e.func) == 'min' and len(e.args) == 2:
            return {norm(a) for a in e.args}
        return {norm(e)} if e is not None else set()
    # server
    rsp = next((c for c in calls_in(srv) if (dotted(c.func) or '').endswith('ATT_Exchange_MTU_Response')), None)
    announced = norm(kwarg(rsp, 'server_rx_mtu', 0)) if rsp is not None else None
    upd = [c for c in calls_in(srv) if call_attr(c) == 'on_att_mtu_update']
    req = srv.args.args[2].arg
    ok = announced is not None and len(upd) == 1 and min_args(srv, upd[0].args[0]) == {announced, f'{req}.client_rx_mtu'}
    R.check(ok, rule, 'bumble.gatt_server.Server.on_att_exchange_mtu_request | final MTU', f'min({announced}, {req}.client_rx_mtu): the value announced in the response and the client\'s',
            f'the server adopts {sorted(min_args(srv, upd[0].args[0])) if upd else "?"} as ATT_MTU, not min(announced {announced}, client_rx_mtu): its responses and notifications can exceed the MTU the client computed', p.loc(srv))
    from ..sym import ineq, same_ineq
    fg = [(t, pol) for c in upd for t, pol in paths.flat_guards(c)]
    eb = [(t, pol) for t, pol in fg if isinstance(t, ast.Call) and (dotted(t.func) or '').split('.')[-1] == 'is_enhanced_bearer']
    R.check(bool(upd) and any(not pol and t.args and norm(t.args[0]) == srv.args.args[1].arg for t, pol in eb), rule, 'bumble.gatt_server.Server.on_att_exchange_mtu_request | not on an enhanced bearer',
            'the MTU is changed only when the bearer is not an enhanced one (whose ATT_MTU is fixed by its L2CAP channel)',
            'an Exchange MTU Request received on an enhanced bearer changes its ATT_MTU: the server then sends PDUs longer than the channel MTU, which reach the client cut into several SDUs', p.loc(srv))
    g = [ineq(t, pol) for t, pol in fg if (t, pol) not in eb]
    R.check(len(g) == 1 and same_ineq(g[0], ineq(f'{req}.client_rx_mtu >= att.ATT_DEFAULT_MTU')), rule, 'bumble.gatt_server.Server.on_att_exchange_mtu_request | lower bound', 'values below the default MTU are ignored', 'the lower bound on client_rx_mtu changed', p.loc(srv))
    # client
    rq = next((c for c in calls_in(cli) if (dotted(c.func) or '').endswith('ATT_Exchange_MTU_Request')), None)
    sent = norm(kwarg(rq, 'client_rx_mtu', 0)) if rq is not None else None
    st = [n for n in walk_local(cli) if isinstance(n, ast.Assign) and dotted(n.targets[0]) == 'self.mtu']
    ok = sent is not None and len(st) == 1 and min_args(cli, st[0].value) == {sent, 'response.server_rx_mtu'}
    R.check(ok, rule, 'bumble.gatt_client.Client.request_mtu | final MTU', f'min({sent}, response.server_rx_mtu)', 'the client does not adopt min(requested, server_rx_mtu)', p.loc(cli))



def parse_guard(ctx):
    """Bytes that cannot be parsed into an ATT PDU are still answered when their opcode is a request: every way received
    bytes reach the server's dispatcher goes through a parse whose failure sends an Error Response for requests only."""
    R, p = ctx.r, ctx.p
    rule = 'C10.parse-guard'
    srv = p.cls(SRV)
    if srv is None:
        R.bad(rule, SRV, 'anchor missing')
        return
    # 1. who hands a parsed PDU to Server.on_gatt_pdu
    n = 0
    for mod in ('bumble.device', 'bumble.gatt_server'):
        m = p.modules.get(mod)
        for c in (ast.walk(m.tree) if m else []):
            if not (isinstance(c, ast.Call) and call_attr(c) == 'on_gatt_pdu' and ('gatt_server' in (dotted(c.func) or '') or (dotted(c.func) == 'self.on_gatt_pdu' and p.qual_of(c).startswith(SRV)))):
                continue
            n += 1
            fn = next((a for a in _anc(c) if isinstance(a, FUNC)), None)
            arg = c.args[1] if len(c.args) > 1 else None
            parsed_here = arg is not None and (('from_bytes' in norm(arg)) or (isinstance(arg, ast.Name) and fn is not None and any(isinstance(x, ast.Assign) and dotted(x.targets[0]) == arg.id and 'from_bytes' in norm(x.value) for x in ast.walk(fn))))
            if not parsed_here:
                R.ok(rule, f'{p.qual_of(c)} | hands over a PDU object', 'no parse at this site', f'{mod}:{c.lineno}')
                continue
            # the parse must be contained: a Try around from_bytes whose handler answers requests
            parse = [x for x in ast.walk(fn) if isinstance(x, ast.Call) and call_attr(x) == 'from_bytes' and 'ATT_PDU' in norm(x.func)]
            contained = False
            for x in parse:
                for a in _anc(x):
                    if isinstance(a, ast.Try) and any(x is y for s_ in a.body for y in ast.walk(s_)):
                        for h in a.handlers:
                            # whatever the parser raises (struct.error, IndexError, ValueError from a UUID of illegal length, ...)
                            hn = {text(t).split('.')[-1] for t in (h.type.elts if isinstance(h.type, ast.Tuple) else [h.type])} if h.type is not None else {'<bare>'}
                            if not hn & {'Exception', 'BaseException', '<bare>'}:
                                continue
                            resp = [r for r in ast.walk(h) if isinstance(r, ast.Call) and call_attr(r) == 'ATT_Error_Response']
                            guards = [(norm(t), pol) for r in resp for t, pol in paths.flat_guards(r, stop=h)]
                            if resp and any('ATT_REQUESTS' in t and pol for t, pol in guards) and all(kwarg(r, 'request_opcode_in_error') is not None and norm(kwarg(r, 'request_opcode_in_error')).endswith('[0]') for r in resp):
                                contained = True
            R.check(contained, rule, f'{p.qual_of(c)} | parse guarded', 'the parse is inside try/except Exception that answers an unparseable request (and only a request) with an Error Response naming its opcode',
                    'received bytes are parsed outside any handler that answers: a truncated request raises before the dispatcher is reached and is never answered (the client waits for its timeout)', f'{m.rel}:{c.lineno}')
    R.check(n >= 1, rule, 'sites feeding Server.on_gatt_pdu', f'{n} call site(s)', f'no call site of Server.on_gatt_pdu found')
    # 2. the fixed-channel entry point and the EATT sink use the guarded entry
    dev = p.find('bumble.device.Device.on_gatt_pdu')
    re_ = p.find(f'{SRV}.register_eatt')
    for q, fn in (('bumble.device.Device.on_gatt_pdu', dev), (f'{SRV}.register_eatt', re_)):
        if fn is None:
            R.bad(rule, q, 'anchor missing')
            continue
        R.check(any(call_attr(c) == 'on_gatt_pdu_bytes' for c in ast.walk(fn) if isinstance(c, ast.Call)), rule, f'{q} | uses the guarded entry', 'received bytes go to Server.on_gatt_pdu_bytes', 'received bytes bypass the guarded parse', p.loc(fn))


def accessor_contained(ctx):
    """What an application's value accessor raises reaches the request handlers only as ATT_Error."""
    R, p = ctx.r, ctx.p
    rule = 'C10.accessor-contained'
    n = 0
    for mname in ('read_value', 'write_value'):
        m = p.find(f'bumble.att.Attribute.{mname}')
        if m is None:
            R.bad(rule, f'bumble.att.Attribute.{mname}', 'anchor missing')
            continue
        # accessors supplied by the application and the adapters' value codecs (decode of what the peer wrote, encode of what is read)
        calls = [c for c in calls_in(m) if dotted(c.func) in ('self.value.read', 'self.value.write', 'self.decode_value', 'self.encode_value')]
        # the accessor may return a plain value, a coroutine, a Future or a Task: whatever is awaitable is awaited
        aw_tests = [n_ for n_ in ast.walk(m) if isinstance(n_, ast.If) and isinstance(n_.test, ast.Call) and (dotted(n_.test.func) or '').startswith('inspect.is') and any(isinstance(x, ast.Await) for x in ast.walk(n_))]
        R.check(bool(aw_tests) and all(dotted(t.test.func) == 'inspect.isawaitable' for t in aw_tests), rule, f'bumble.att.Attribute.{mname} | awaits every awaitable', f'{len(aw_tests)} accessor result(s) tested with inspect.isawaitable',
                f'an accessor result is awaited only under `{[dotted(t.test.func) for t in aw_tests if dotted(t.test.func) != "inspect.isawaitable"]}`: a Future or Task returned by the application is handed on as the value, the request handler fails on it and the request is never answered', p.loc(m))
        # application listeners of the read / write events run inside the request too
        emits = [c for c in calls_in(m) if dotted(c.func) == 'self.emit']
        for j, c in enumerate(emits):
            n += 1
            cont = False
            a, prev = getattr(c, '_parent', None), c
            while a is not None and a is not m:
                if isinstance(a, ast.Try) and any(prev is s_ or any(prev is x for x in ast.walk(s_)) for s_ in a.body):
                    for h in a.handlers:
                        names = {text(t).split('.')[-1] for t in (h.type.elts if isinstance(h.type, ast.Tuple) else [h.type])} if h.type is not None else {'<bare>'}
                        if names & {'Exception', 'BaseException', '<bare>'} and not any(isinstance(x, ast.Raise) and x.exc is None for x in ast.walk(h)):
                            cont = True
                prev, a = a, getattr(a, '_parent', None)
            R.check(cont, rule, f'bumble.att.Attribute.{mname} | event listeners #{j + 1}', 'emit() of the read / write event is inside try/except Exception (a failing listener is logged, or turned into an ATT error)',
                    'an application listener of the attribute\'s read / write event that raises escapes the task-wrapped request handler: the request is never answered', p.loc(c))
        for i, c in enumerate(calls):
            n += 1
            ok = False
            a, prev = getattr(c, '_parent', None), c
            while a is not None and a is not m:
                if isinstance(a, ast.Try) and any(prev is s_ or any(prev is x for x in ast.walk(s_)) for s_ in a.body):
                    for h in a.handlers:
                        ts = h.type.elts if isinstance(h.type, ast.Tuple) else ([h.type] if h.type is not None else [])
                        names = {text(t).split('.')[-1] for t in ts} or {'<bare>'}
                        raises_att = any(isinstance(x, ast.Raise) and x.exc is not None and 'ATT_Error' in norm(x.exc) for x in ast.walk(h))
                        if names & {'Exception', 'BaseException', '<bare>'} and raises_att:
                            ok = True
                    # the awaited result of the accessor is inside the same try
                    aw = [x for x in ast.walk(a) if isinstance(x, ast.Await)]
                    ok = ok and all(any(x is y for s_ in a.body for y in ast.walk(s_)) for x in aw)
                prev, a = a, getattr(a, '_parent', None)
            R.check(ok, rule, f'bumble.att.Attribute.{mname} | accessor call #{i + 1}', 'inside try/except Exception that re-raises as ATT_Error',
                    'an exception other than ATT_Error raised by a value accessor escapes the permission gate: the task-wrapped request handler dies without answering (the client times out)', p.loc(c))
    R.check(n >= 8, rule, 'bumble.att.Attribute | accessor calls', f'{n} accessor / codec calls', f'only {n} accessor / codec calls found')


def uuid_wire_shared(ctx):
    from . import c12
    c12.uuid_wire(ctx, rule='C10.uuid-wire')


def identity_rule(ctx):
    from ..generic_rules import identity_compare
    identity_compare(ctx, 'C10.identity', ['bumble.att', 'bumble.gatt_client', 'bumble.gatt_server', 'bumble.gatt'])


def sdu_boundary_rule(ctx):
    from .c12 import sdu_boundary
    sdu_boundary(ctx, 'C10.sdu-boundary')


def except_name_rule(ctx):
    from ..generic_rules import except_name_escape
    except_name_escape(ctx, 'C10.except-name', ['bumble.gatt_server', 'bumble.att', 'bumble.gatt'])


def integer_arithmetic_rule(ctx):
    from ..generic_rules import integer_arithmetic
    integer_arithmetic(ctx, 'C10.integer-arithmetic', ['bumble.gatt_server', 'bumble.att', 'bumble.gatt'])


def att_mtu_min(ctx):
    """The ATT_MTU of an enhanced bearer is the minimum of the two MTU fields of its L2CAP channel, on both ends: every
    assignment of LeCreditBasedChannel.att_mtu is min(<own mtu>, <peer mtu>) (the acceptor knows both at construction)."""
    R, p = ctx.r, ctx.p
    rule = 'C10.att-mtu-min'
    ci = p.cls('bumble.l2cap.LeCreditBasedChannel')
    if ci is None:
        R.bad(rule, 'bumble.l2cap.LeCreditBasedChannel', 'anchor missing')
        return
    n = 0
    for name, fn in sorted(ci.methods.items()):
        if name == 'on_att_mtu_update':
            continue
        for st in [x for x in walk_local(fn) if isinstance(x, ast.Assign) and any(dotted(t) == 'self.att_mtu' for t in x.targets)]:
            n += 1
            v = st.value
            ok = isinstance(v, ast.Call) and dotted(v.func) == 'min' and len(v.args) == 2 and {norm(a).replace('self.', '') for a in v.args} == {'mtu', 'peer_mtu'}
            R.check(ok, rule, f'bumble.l2cap.LeCreditBasedChannel.{name} | {norm(st)[:50]}', 'min(mtu, peer_mtu)', f'`{norm(st)[:60]}`: the bearer\'s ATT_MTU is not the minimum of the two MTU fields here: on the accepting side (which knows the peer\'s MTU at construction and receives no response) the server then sends PDUs longer than the peer accepts', p.loc(st))
    R.check(n >= 1, rule, 'bumble.l2cap.LeCreditBasedChannel | att_mtu', f'{n} assignment(s)', 'no assignment of att_mtu found')


def blob_part_size(ctx):
    """A Read Blob Response carries at most ATT_MTU-1 value bytes: the part size is the minimum of that and what is left."""
    R, p = ctx.r, ctx.p
    rule = 'C10.blob-part-size'
    fn = p.find(f'{SRV}.on_att_read_blob_request')
    if fn is None:
        R.bad(rule, f'{SRV}.on_att_read_blob_request', 'anchor missing')
        return
    from ..sym import lin, lin_eq
    want = lin(ast.parse('bearer.att_mtu - 1', mode='eval').body)
    sts = [x for x in walk_local(fn) if isinstance(x, ast.Assign) and dotted(x.targets[0]) == 'part_size']
    mins = [x for x in sts if isinstance(x.value, ast.Call) and dotted(x.value.func) == 'min' and any(lin_eq(lin(a), want) for a in x.value.args)]
    clamps = [n for n in walk_local(fn) if isinstance(n, ast.If) and any(isinstance(s_, ast.Assign) and dotted(s_.targets[0]) == 'part_size' and lin_eq(lin(s_.value), want) for s_ in n.body)]
    from ..sym import same_ineq
    good_clamp = [n for n in clamps if same_ineq(n.test, 'part_size > bearer.att_mtu - 1')]
    uses = [x for x in walk_local(fn) if isinstance(x, ast.Name) and x.id == 'part_size' and isinstance(x.ctx, ast.Load)]
    ok = bool(uses) and ((len(sts) == 1 and len(mins) == 1) or (bool(good_clamp) and len(good_clamp) == len(clamps)))
    R.check(ok, rule, f'{SRV}.on_att_read_blob_request | part size', 'min(ATT_MTU - 1, bytes left)', 'the size of the returned part is not bounded above by ATT_MTU-1 (an inverted clamp computes the maximum): whenever more than ATT_MTU-1 bytes remain the whole rest of the value goes out in one Read Blob Response', p.loc(fn))


def bearer_attributes(ctx, rule='C10.bearer-attributes'):
    from ..generic_rules import union_attribute
    union_attribute(ctx, rule, ['bumble.att', 'bumble.gatt_server'], 'Bearer', {'Connection': 'bumble.device.Connection', 'LeCreditBasedChannel': 'bumble.l2cap.LeCreditBasedChannel'},
                    {'is_enhanced_bearer': 'LeCreditBasedChannel', 'EnhancedBearer': 'LeCreditBasedChannel'}, floor=25)


def entry_length_octet(ctx):
    """Read By Type / Read By Group Type responses carry the entry length in one octet: the value of an entry is cut to
    253 / 251 octets at most whatever the ATT_MTU is, or a long value at a large MTU makes the response unserialisable
    (ValueError inside the task-wrapped handler: no reply at all)."""
    R, p = ctx.r, ctx.p
    rule = 'C10.entry-length-octet'
    for name, hdr in (('on_att_read_by_type_request', 2), ('on_att_read_by_group_type_request', 4)):
        fn = p.find(f'{SRV}.{name}')
        if fn is None:
            R.bad(rule, f'{SRV}.{name}', 'anchor missing')
            continue
        sts = [s_ for s_ in walk_local(fn) if isinstance(s_, ast.Assign) and dotted(s_.targets[0]) == 'max_attribute_size']
        cut = [s_ for s_ in walk_local(fn) if isinstance(s_, ast.Assign) and isinstance(s_.value, ast.Subscript) and 'max_attribute_size' in norm(s_.value)]
        ok = len(sts) == 1 and bool(cut) and isinstance(sts[0].value, ast.Call) and dotted(sts[0].value.func) == 'min' and any(is_const(a) and isinstance(const(a), int) and const(a) <= 255 - hdr for a in sts[0].value.args)
        R.check(ok, rule, f'{SRV}.{name}', f'value cut to min(..., <= {255 - hdr})', f'the value of an entry is cut to `{norm(sts[0].value) if sts else "?"}` only: with ATT_MTU above {255 + 2} an attribute value longer than {255 - hdr} octets gives an entry length that does not fit its one-octet field - building the response raises and the request is never answered', p.loc(sts[0]) if sts else p.loc(fn))


def total_mappers_rule(ctx, rule='C10.total-mappers'):
    from ..generic_rules import total_mappers
    total_mappers(ctx, rule, ['bumble.att', 'bumble.hci'], floor=5)


def bearer_kind(ctx):
    """is_enhanced_bearer is the TypeIs narrowing every caller branches on: it answers exactly `isinstance(bearer,
    EnhancedBearer)`.  Any further condition (the PSM, the state) sends an L2CAP channel down the fixed-bearer branch,
    where `bearer.handle` does not exist."""
    R, p = ctx.r, ctx.p
    rule = 'C10.bearer-kind'
    fn = p.find('bumble.att.is_enhanced_bearer')
    if fn is None:
        R.bad(rule, 'bumble.att.is_enhanced_bearer', 'anchor missing')
        return
    rets = [r.value for r in walk_local(fn) if isinstance(r, ast.Return)]
    ok = len(rets) == 1 and isinstance(rets[0], ast.Call) and dotted(rets[0].func) == 'isinstance' and len(rets[0].args) == 2 and norm(rets[0].args[0]) == fn.args.args[0].arg
    R.check(ok, rule, 'bumble.att.is_enhanced_bearer', 'a plain isinstance test', f'is_enhanced_bearer returns `{norm(rets[0])[:70] if rets else ""}`: an enhanced bearer for which the extra condition is false (a bearer on an application-chosen PSM) is treated as a Connection - `bearer.handle` raises before dispatch and no request on that bearer is answered', p.loc(fn))


def bearer_dispatch(ctx):
    """An ATT bearer carries both directions: wherever a consumer is attached to one (Device.on_gatt_pdu for the fixed
    channel, the sink Client.connect_eatt installs on the channels it opens), client->server PDUs (even opcode) are handed
    to the GATT server\'s on_gatt_pdu_bytes - a consumer that gives everything to the client leaves the peer\'s requests
    unanswered."""
    R, p = ctx.r, ctx.p
    rule = 'C10.bearer-dispatch'
    sites = {'bumble.device.Device.on_gatt_pdu': p.find('bumble.device.Device.on_gatt_pdu'), 'bumble.gatt_client.Client.connect_eatt': p.find('bumble.gatt_client.Client.connect_eatt')}
    for q, fn in sites.items():
        if fn is None:
            R.bad(rule, q, 'anchor missing')
            continue
        to_client = [c for c in ast.walk(fn) if isinstance(c, ast.Call) and call_attr(c) == 'on_gatt_pdu' and 'client' in norm(c.func)]
        to_server = [c for c in ast.walk(fn) if isinstance(c, ast.Call) and call_attr(c) == 'on_gatt_pdu_bytes']
        parity = [t for t in ast.walk(fn) if isinstance(t, ast.BinOp) and isinstance(t.op, ast.BitAnd) and is_const(t.right) and const(t.right) == 1 and 'pdu[0]' in norm(t.left)]
        R.check(bool(to_client) and bool(to_server) and bool(parity), rule, q, 'dispatches on the opcode parity: requests to the server, responses to the client', f'{q.rsplit(".", 1)[-1]} hands every PDU of the bearer to the client: a request the peer sends on it is logged as an unexpected response and never answered', p.loc(fn))


def eatt_close_scope(ctx):
    """Closing an enhanced bearer forgets that bearer\'s state: the close hook installed by Server.register_eatt calls
    on_disconnection with the channel itself, not with the connection under it (which is the fixed bearer - wiping its
    pending confirmation lets a second indication out before the first is confirmed)."""
    R, p = ctx.r, ctx.p
    rule = 'C10.eatt-close-scope'
    fn = p.find(f'{SRV}.register_eatt')
    if fn is None:
        R.bad(rule, f'{SRV}.register_eatt', 'anchor missing')
        return
    hooks = [c for c in ast.walk(fn) if isinstance(c, ast.Call) and dotted(c.func) == 'self.on_disconnection']
    R.check(len(hooks) >= 1, rule, f'{SRV}.register_eatt | close hook', f'{len(hooks)} hook(s)', 'no close hook calling on_disconnection (anchor)', p.loc(fn))
    for c in hooks:
        a = norm(c.args[0]) if c.args else ''
        R.check(a == 'channel', rule, f'{SRV}.register_eatt | on_disconnection({a})', 'the closed channel', f'the close hook of an enhanced bearer cleans up `{a}`: the state of another bearer (the fixed one) is wiped while the link is up - its unconfirmed indication is forgotten and a second one is sent', p.loc(c))


def opcode_lookup(ctx):
    """ATT_PDU.from_bytes finds the PDU class by the whole opcode octet: an opcode without a class stays a generic PDU
    (ignored if it is not a request) - it is not mapped onto the class of its 6-bit method, which would turn an unknown
    command into a request that gets answered."""
    R, p = ctx.r, ctx.p
    rule = 'C10.opcode-lookup'
    fn = p.find('bumble.att.ATT_PDU.from_bytes')
    if fn is None:
        R.bad(rule, 'bumble.att.ATT_PDU.from_bytes', 'anchor missing')
        return
    looks = [c.args[0] for c in calls_in(fn) if call_attr(c) == 'get' and (dotted(c.func.value) or '').endswith('pdu_classes') and c.args]
    looks += [s_.slice for s_ in ast.walk(fn) if isinstance(s_, ast.Subscript) and (dotted(s_.value) or '').endswith('pdu_classes')]
    bad = [x for x in looks if not isinstance(x, ast.Name)]
    R.check(len(looks) >= 1 and not bad, rule, 'bumble.att.ATT_PDU.from_bytes', f'{len(looks)} lookup(s) by the opcode itself', f'the class is also looked up under `{norm(bad[0]) if bad else ""}`: an undefined opcode with the command / signature bit set is parsed as the request of the same method and answered (a command must get no reply; an Exchange MTU method even changes the MTU)', p.loc(bad[0]) if bad else p.loc(fn))


RULES = [
    ('C10.opcode-lookup', opcode_lookup),
    ('C10.eatt-close-scope', eatt_close_scope),
    ('C10.bearer-dispatch', bearer_dispatch),
    ('C10.bearer-kind', bearer_kind),
    ('C10.total-mappers', total_mappers_rule),
    ('C10.entry-length-octet', entry_length_octet),
    ('C10.bearer-attributes', bearer_attributes),
    ('C10.blob-part-size', blob_part_size),
    ('C10.att-mtu-min', att_mtu_min),
    ('C10.integer-arithmetic', integer_arithmetic_rule),
    ('C10.except-name', except_name_rule),
    ('C10.sdu-boundary', sdu_boundary_rule),
    ('C10.identity', identity_rule),
    ('C10.uuid-wire', uuid_wire_shared),
    ('C10.parse-guard', parse_guard),
    ('C10.accessor-contained', accessor_contained),
    ('C10.mtu-agreement', mtu_agreement),
    ('C10.classify', classify),
    ('C10.once', once),
    ('C10.budget', budget),
    ('C10.truncate', truncate),
    ('C10.indication-slot', indication_slot),
]

VARIANTS = [
    ('read multiple lets ATT_Error escape again', 'bumble/gatt_server.py',
     "            try:\n                attribute_value = await attribute.read_value(bearer)\n            except att.ATT_Error as error:\n                self.send_response(\n                    bearer,\n                    att.ATT_Error_Response(\n                        request_opcode_in_error=request.op_code,\n                        attribute_handle_in_error=handle,\n                        error_code=error.error_code,\n                    ),\n                )\n                return\n            # Check the attribute value size\n            max_attribute_size = min(bearer.att_mtu - 1, 251)",
     "            attribute_value = await attribute.read_value(bearer)\n            # Check the attribute value size\n            max_attribute_size = min(bearer.att_mtu - 1, 251)", 'fire', 'C10.once'),
    ('write request answers twice', 'bumble/gatt_server.py',
     "            # Done\n            response = att.ATT_Write_Response()\n        self.send_response(bearer, response)\n",
     "            # Done\n            response = att.ATT_Write_Response()\n            self.send_response(bearer, response)\n        self.send_response(bearer, response)\n", 'fire', 'C10.once'),
    ('read request forgets invalid-handle answer', 'bumble/gatt_server.py',
     "                value_size = min(bearer.att_mtu - 1, len(value))\n                response = att.ATT_Read_Response(attribute_value=value[:value_size])\n        else:\n            response = att.ATT_Error_Response(\n                request_opcode_in_error=request.op_code,\n                attribute_handle_in_error=request.attribute_handle,\n                error_code=att.ATT_INVALID_HANDLE_ERROR,\n            )\n        self.send_response(bearer, response)\n",
     "                value_size = min(bearer.att_mtu - 1, len(value))\n                response = att.ATT_Read_Response(attribute_value=value[:value_size])\n        else:\n            return\n        self.send_response(bearer, response)\n", 'fire', 'C10.once'),
    ('find information space test drops the handle', 'bumble/gatt_server.py', "            if pdu_space_available < 2 + uuid_size:\n", "            if pdu_space_available < uuid_size:\n", 'fire', 'C10.budget'),
    ('read by type cap 255', 'bumble/gatt_server.py', "            max_attribute_size = min(bearer.att_mtu - 4, 253)\n", "            max_attribute_size = min(bearer.att_mtu - 4, 255)\n", 'fire', 'C10.budget'),
    ('read by group type budget ignores length byte', 'bumble/gatt_server.py',
     "        pdu_space_available = bearer.att_mtu - 2\n        attributes: list[tuple[int, int, bytes]] = []", "        pdu_space_available = bearer.att_mtu - 1\n        attributes: list[tuple[int, int, bytes]] = []", 'fire', 'C10.budget'),
    ('notification cut at att_mtu - 1', 'bumble/gatt_server.py',
     "        if len(value_as_bytes) > bearer.att_mtu - 3:\n            value_as_bytes = value_as_bytes[: bearer.att_mtu - 3]\n\n        # Notify",
     "        if len(value_as_bytes) > bearer.att_mtu - 1:\n            value_as_bytes = value_as_bytes[: bearer.att_mtu - 1]\n\n        # Notify", 'fire', 'C10.truncate'),
    ('indication slot cleared only on success', 'bumble/gatt_server.py',
     "                raise TimeoutError(f'GATT timeout for {indication.name}') from error\n            finally:\n                if bearer in self.pending_confirmations:\n                    self.pending_confirmations[bearer] = None\n",
     "                raise TimeoutError(f'GATT timeout for {indication.name}') from error\n            self.pending_confirmations[bearer] = None\n", 'fire', 'C10.indication-slot'),
    ('request list loses execute write', 'bumble/att.py', "    Opcode.ATT_PREPARE_WRITE_REQUEST,\n    Opcode.ATT_EXECUTE_WRITE_REQUEST,\n]", "    Opcode.ATT_PREPARE_WRITE_REQUEST,\n]", 'fire', 'C10.classify'),
    ('benign: log text', 'bumble/gatt_server.py', "                logger.debug(f'normal exception returned by handler: {error}')\n", "                logger.debug(f'ATT error returned by handler: {error}')\n", 'silent', ''),
    ('server adopts the client value unclamped', 'bumble/gatt_server.py', '            mtu = min(self.max_mtu, request.client_rx_mtu)\n\n            try:\n                bearer.on_att_mtu_update(mtu)', '            try:\n                bearer.on_att_mtu_update(request.client_rx_mtu)', 'fire', 'C10.mtu-agreement'),
    ('benign: min() inlined with swapped arguments', 'bumble/gatt_server.py', '            mtu = min(self.max_mtu, request.client_rx_mtu)\n\n            try:\n                bearer.on_att_mtu_update(mtu)', '            try:\n                bearer.on_att_mtu_update(min(request.client_rx_mtu, self.max_mtu))', 'silent', ''),
    ('client ignores the server value', 'bumble/gatt_client.py', "        self.mtu = min(mtu, response.server_rx_mtu)", "        self.mtu = mtu", 'fire', 'C10.mtu-agreement'),
]
