"""C07 — LE credit-based channels: credit discipline, bounds, credit return."""
from __future__ import annotations

import ast
from collections import namedtuple

from .. import paths
from ..core import call_attr, calls_in, dotted, kwarg, norm, slice_parts, text, walk_local
from . import c09

EXPLANATION = [
    'C07.field-order: every credit-based L2CAP frame class declares mtu, mps, initial_credits in that order (declaration order is wire order).',
    'C07.reset-before-sink: LeCreditBasedChannel.on_pdu empties its reassembly buffer before the completed SDU is handed to the sink on every path (a raising sink does not cost the next SDU).',
    'C07.allocator-scan: every CID a find_free_* allocator returns was individually tested against the table it was given, or comes from the scanning allocator it delegates to (shared with C09).',
    'C07.index-at-response: no method of ChannelManager enters a channel into le_coc_channels after an await: the destination-CID index is filled while the connection request / response is being processed, so credits sent right behind a response find their channel.',
    'C07.pdu-forwarded: in ChannelManager.on_pdu every path on which the destination channel was found hands the PDU to channel.on_pdu: the dispatcher applies no size filter (MPS is a per-direction limit that the channel itself accounts for together with the credits).',
    'C07.identifier-range: (shared with C09.identifier-range) ChannelManager.next_identifier stays within 1..255 by induction over its paths: the credit frames of a long transfer never carry an identifier that does not fit the one-byte field.',
    'C07.credit-ledger: every normal exit of LeCreditBasedChannel.on_credits has added the received amount to the balance and called process_output() (path rule): no state test can discard returned credits.',
    'C07.integer-arithmetic: no true division in the anchored modules: sizes and budgets are integers (a fractional budget admits one entry too many).',
    'C07.fifo: every deque of the anchored modules that is filled with append / extend is emptied with popleft or by iteration (never pop()), and conversely: queued entries come out in the order they went in.',
    'C07.unordered-pairing: no zip() / enumerate() pairs positions with a set (literal, comprehension, set() call or a name bound only to such): the order of a set is arbitrary.',
    'C07.byte-order: every field codec of bumble.l2cap (field metadata and struct formats) is little-endian: no single field of a signalling frame or header is byte-swapped.',
    'C07.stale-loopvar: no comprehension or generator expression in bumble.l2cap reads the variable of a `for` loop that has already finished (it would be the last item for every element): table registrations built from a list of channels key each channel by its own identifiers.',
    'C07.cid-alloc: a local channel identifier is allocated by scanning the very table the channel is then inserted into (keyed by own CIDs), whatever identifiers the peer chose (same rule as C09.cid-alloc).',
    'C07.credit-guard: every data frame sent by LeCreditBasedChannel.process_output '
    'is dominated by `credits > 0` and each loop iteration that sends a frame '
    'lowers `credits` exactly once.',
    'C07.bounds: a frame is a slice of at most peer_mps bytes of the current SDU; '
    'the SDU payload is built from chunks cut to `peer_mtu - len(payload)`; the '
    '2-byte SDU length written equals len(payload) and is what on_pdu reads and '
    'compares (`2 + in_sdu_length`), delivering `in_sdu[2:]`.',
    'C07.credit-return: on_pdu returns `peer_max_credits - peer_credits` credits '
    'for its own source CID when at/below the threshold and resets the count; '
    'on_credits adds the received credits and resumes output.',
    'C07.key: le_coc_channels is indexed by destination CID at every insert and '
    'looked up by the CID of the credit packet.',
    'C07.ctor-slots: negotiated parameters flow into the right constructor '
    'parameters and the values announced to the peer equal the values stored.',
    'C07.drain-point: write() clears the `drained` event on every path that queues data (unless the path has established that both the queue and the SDU in progress are empty), process_output sets it only under `out_sdu is None` and an empty queue, and drain() awaits exactly that event: drain() cannot complete while part of a written SDU is unsent.',
    'Not decided: stream equality and progress for all write patterns (runtime).',
]
ASSUMPTIONS = ['asyncio callbacks run to completion (no pre-emption between statements without await)']

LE = 'bumble.l2cap.LeCreditBasedChannel'
CM = 'bumble.l2cap.ChannelManager'

IT = namedtuple('IT', 'sent dec')


def credit_guard(ctx):
    R, p = ctx.r, ctx.p
    rule = 'C07.credit-guard'
    po = p.find(f'{LE}.process_output')
    if po is None:
        R.bad(rule, f'{LE}.process_output', f'anchor missing: {LE}.process_output')
        return
    ci = p.cls(LE)
    sends = [(n, m, c) for n, m in ci.methods.items() for c in calls_in(m) if dotted(c.func) == 'self.send_pdu']
    R.check(bool(sends), rule, f'{LE} | data send sites', f'{len(sends)} site(s)', 'no self.send_pdu call found')
    for name, m, c in sends:
        key = f'{LE}.{name} | send_pdu({norm(c.args[0]) if c.args else ""})'
        if name != 'process_output':
            R.bad(rule, key, 'data PDU sent outside process_output (bypasses the credit test)', p.loc(c))
            continue
        guards = [norm(t) for t, pol in paths.flat_guards(c) if pol]
        R.check(any(g in ('self.credits > 0', 'self.credits >= 1', '0 < self.credits') for g in guards), rule, key + ' | dominated by credits > 0',
                'dominated by `self.credits > 0`', f'frame sent without holding a credit (guards: {guards})', p.loc(c))
    loop = next((s for s in walk_local(po) if isinstance(s, ast.While)), None)
    if loop is None:
        R.bad(rule, f'{LE}.process_output | loop', 'credit loop not found', p.loc(po))
        return

    class D(paths.Domain):
        def event(self, node, v: IT):
            if isinstance(node, ast.Call) and dotted(node.func) == 'self.send_pdu':
                return (v._replace(sent=min(2, v.sent + 1)),)
            if isinstance(node, ast.AugAssign) and dotted(node.target) == 'self.credits':
                if isinstance(node.op, ast.Sub) and norm(node.value) == '1':
                    return (v._replace(dec=min(2, v.dec + 1)),)
                return (v._replace(dec=2),)
            if isinstance(node, ast.Assign) and any(dotted(t) == 'self.credits' for t in node.targets):
                return (v._replace(dec=2),)
            return (v,)

    it = paths.Interp(D())
    it.sinks.append({})
    out = it.block(loop.body, {IT(0, 0): ()})
    states = paths.join(*[s for k, s in out.items() if k in ('fall', 'continue', 'break') or k.startswith('ret')])
    probs = [f'sent={v.sent} credits-={v.dec} via {" ".join(w)}' for v, w in states.items() if (v.sent, v.dec) not in ((1, 1), (0, 0))]
    R.check(not probs and bool(states), rule, f'{LE}.process_output | per-iteration accounting', f'{len(states)} iteration outcome(s): a frame sent <=> exactly one credit consumed',
            'an iteration of the output loop sends without consuming exactly one credit: ' + '; '.join(probs), p.loc(loop))


def bounds(ctx):
    R, p = ctx.r, ctx.p
    rule = 'C07.bounds'
    po = p.find(f'{LE}.process_output')
    op = p.find(f'{LE}.on_pdu')
    if po is None or op is None:
        R.bad(rule, LE, 'anchor missing: process_output / on_pdu')
        return
    assigns = {}
    for n in walk_local(po):
        if isinstance(n, ast.Assign) and len(n.targets) == 1:
            assigns.setdefault(dotted(n.targets[0]) or norm(n.targets[0]), []).append(n)
    # frame
    for c in calls_in(po):
        if dotted(c.func) == 'self.send_pdu' and c.args:
            var = dotted(c.args[0])
            defs = assigns.get(var, [])
            ok = len(defs) == 1 and slice_parts(defs[0].value) == ('self.out_sdu', '0', 'self.peer_mps')
            R.check(ok, rule, f'{LE}.process_output | frame <= peer_mps', f'{var} = out_sdu[:peer_mps]', f'sent frame `{var}` is not the slice out_sdu[:peer_mps] (got {[norm(d.value) for d in defs]})', p.loc(c))
            # remainder handling: what is kept is out_sdu[len(packet):]
            keep = [slice_parts(d.value) or norm(d.value) for d in assigns.get('self.out_sdu', [])]
            R.check(('self.out_sdu', f'len({var})', None) in keep and 'None' in keep, rule, f'{LE}.process_output | remainder', 'remaining SDU bytes are out_sdu[len(packet):], None when all sent (no gap, no overlap)', f'SDU remainder handling changed: {keep}', p.loc(c))
    # SDU payload
    chunk_defs = [slice_parts(d.value) for d in assigns.get('chunk', [])]
    R.check(chunk_defs == [('self.out_queue[0]', '0', 'self.peer_mtu - len(payload)')], rule, f'{LE}.process_output | chunk <= peer_mtu - len(payload)', 'each chunk is cut to the room left under peer_mtu',
            f'chunk is not cut to peer_mtu - len(payload): {chunk_defs}', p.loc(po))
    pay_aug = [n for n in walk_local(po) if isinstance(n, ast.AugAssign) and dotted(n.target) == 'payload']
    R.check(len(pay_aug) == 1 and norm(pay_aug[0].value) == 'chunk' and isinstance(pay_aug[0].op, ast.Add), rule, f'{LE}.process_output | payload grows by chunk only', 'payload += chunk is the only growth',
            'SDU payload is extended by something other than the bounded chunk', p.loc(po))
    q_adv = [slice_parts(d.value) for d in assigns.get('self.out_queue[0]', [])]
    R.check(q_adv == [('self.out_queue[0]', 'len(chunk)', None)], rule, f'{LE}.process_output | queue advance', 'queue head advances by exactly len(chunk)', f'queue head advance is {q_adv}', p.loc(po))
    hdr = [norm(d.value) for d in assigns.get('self.out_sdu', []) if 'struct.pack(' in norm(d.value)]
    R.check(hdr == ["struct.pack('<H', len(payload)) + payload"], rule, f'{LE}.process_output | SDU header', "SDU = pack('<H', len(payload)) + payload", f'SDU header/payload construction changed: {hdr}', p.loc(po))
    # on_pdu
    src = [norm(n) for n in walk_local(op) if isinstance(n, (ast.Assign, ast.If, ast.Expr))]
    rd = [norm(n.value) for n in walk_local(op) if isinstance(n, ast.Assign) and dotted(n.targets[0]) == 'self.in_sdu_length' and 'unpack' in norm(n.value)]
    R.check(rd == ["struct.unpack_from('<H', self.in_sdu, 0)[0]"], rule, f'{LE}.on_pdu | SDU length read', "length = unpack_from('<H', in_sdu, 0)", f'SDU length is read as {rd}', p.loc(op))
    tests = [norm(n.test) for n in walk_local(op) if isinstance(n, ast.If)]
    R.check('len(self.in_sdu) < 2 + self.in_sdu_length' in tests and 'len(self.in_sdu) != 2 + self.in_sdu_length' in tests, rule, f'{LE}.on_pdu | completion test', 'SDU complete iff len(in_sdu) == 2 + length',
            f'completion/overflow tests changed: {[t for t in tests if "in_sdu" in t]}', p.loc(op))
    def _through_local(e):
        # the delivered value may be held in a local while the reassembly buffer is reset
        if isinstance(e, ast.Name):
            defs_ = [n for n in walk_local(op) if isinstance(n, ast.Assign) and dotted(n.targets[0]) == e.id]
            if len(defs_) == 1:
                return defs_[0].value
        return e
    sink = [slice_parts(_through_local(c.args[0])) for c in calls_in(op) if dotted(c.func) == 'self.sink' and c.args]
    R.check(sink == [('self.in_sdu', '2', None)], rule, f'{LE}.on_pdu | delivery', 'sink receives in_sdu[2:]', f'sink receives {sink}', p.loc(op))
    acc = [n for n in walk_local(op) if isinstance(n, ast.AugAssign) and dotted(n.target) == 'self.in_sdu']
    start = [n for n in walk_local(op) if isinstance(n, ast.Assign) and dotted(n.targets[0]) == 'self.in_sdu' and norm(n.value) == 'pdu']
    R.check(len(acc) == 1 and norm(acc[0].value) == 'pdu' and len(start) == 1, rule, f'{LE}.on_pdu | accumulation', 'in_sdu starts as pdu and grows by pdu', 'reassembly accumulation changed', p.loc(op))
    # reset after delivery and after overflow
    resets = [n for n in walk_local(op) if isinstance(n, ast.Assign) and dotted(n.targets[0]) == 'self.in_sdu_length' and norm(n.value) == '0']
    R.check(len(resets) >= 2, rule, f'{LE}.on_pdu | reset', 'in_sdu/in_sdu_length reset after delivery and after overflow', 'reassembly state is not reset on both the delivery and the overflow path', p.loc(op))


def credit_return(ctx):
    R, p = ctx.r, ctx.p
    rule = 'C07.credit-return'
    op = p.find(f'{LE}.on_pdu')
    oc = p.find(f'{LE}.on_credits')
    init = p.find(f'{LE}.__init__')
    if not (op and oc and init):
        R.bad(rule, LE, 'anchor missing: on_pdu / on_credits / __init__')
        return
    fc = [c for c in calls_in(op) if call_attr(c) == 'L2CAP_LE_Flow_Control_Credit']
    R.check(len(fc) == 1, rule, f'{LE}.on_pdu | one credit return site', 'one', f'{len(fc)} credit-return constructions', p.loc(op))
    for c in fc:
        cr, cid = kwarg(c, 'credits'), kwarg(c, 'cid')
        R.check(cr is not None and norm(cr) == 'self.peer_max_credits - self.peer_credits', rule, f'{LE}.on_pdu | returned amount', 'credits = peer_max_credits - peer_credits', f'returned credits = {text(cr)}', p.loc(c))
        R.check(cid is not None and norm(cid) == 'self.source_cid', rule, f'{LE}.on_pdu | credit cid', 'cid = our source CID (the peer\'s destination CID)', f'credit packet names cid {text(cid)}', p.loc(c))
        guards = [norm(t) for t, pol in paths.flat_guards(c) if pol]
        R.check('self.peer_credits <= self.peer_credits_threshold' in guards, rule, f'{LE}.on_pdu | threshold test', 'returned when peer_credits <= threshold', f'guards: {guards}', p.loc(c))
        # followed by the reset
        stmt = c
        while not isinstance(stmt, ast.Expr):
            stmt = stmt._parent
        blk = stmt._parent.body
        after = [norm(s) for s in blk[blk.index(stmt) + 1:]]
        R.check('self.peer_credits = self.peer_max_credits' in after, rule, f'{LE}.on_pdu | count reset', 'peer_credits reset to max after returning', 'peer credit count is not reset after credits are returned', p.loc(c))
    dec = [n for n in walk_local(op) if isinstance(n, ast.AugAssign) and dotted(n.target) == 'self.peer_credits']
    # every received frame reaches the accounting, whatever else the handler decides about it
    class Acc(paths.Domain):
        def assume(self, atom, truth, v):
            if 'self.peer_credits' in norm(atom) and '0' in norm(atom):
                return (True,)
            return (v,)
    res_acc = paths.run(op, Acc(), False)
    early = [' '.join(w) for k, st in res_acc.items() if not k.startswith('raise') for v, w in st.items() if not v]
    R.check(not early, rule, f'{LE}.on_pdu | every frame accounted', 'no exit of on_pdu precedes the peer-credit accounting',
            'a received frame can be dropped before it is charged to the peer\'s credits (e.g. while no sink is installed): the sender has spent a credit the receiver never counts, credits are never returned and the channel deadlocks', p.loc(op), early[:2])
    R.check(len(dec) == 1 and isinstance(dec[0].op, ast.Sub) and norm(dec[0].value) == '1', rule, f'{LE}.on_pdu | one credit per frame', 'peer_credits -= 1 per received frame', 'received frames are not charged one credit each', p.loc(op))
    thr = [norm(n.value) for n in walk_local(init) if isinstance(n, ast.Assign) and dotted(n.targets[0]) == 'self.peer_credits_threshold']
    R.check(thr == ['self.peer_max_credits // 2'], rule, f'{LE}.__init__ | threshold <= max', 'threshold = peer_max_credits // 2 (< max, so credits are returned before they run out for max >= 1)', f'threshold = {thr}', p.loc(init))
    aug = [n for n in walk_local(oc) if isinstance(n, ast.AugAssign) and dotted(n.target) == 'self.credits']
    param = oc.args.args[1].arg
    R.check(len(aug) == 1 and isinstance(aug[0].op, ast.Add) and norm(aug[0].value) == param, rule, f'{LE}.on_credits | adds', 'credits += received', 'received credits are not added to the balance', p.loc(oc))
    calls = [c for c in calls_in(oc) if dotted(c.func) == 'self.process_output']
    R.check(bool(calls) and (not aug or calls[-1].lineno > aug[0].lineno), rule, f'{LE}.on_credits | resumes output', 'process_output() after the balance is raised', 'on_credits does not resume output after adding credits', p.loc(oc))
    wr = p.find(f'{LE}.write')
    if wr is not None:
        app = [c for c in calls_in(wr) if dotted(c.func) == 'self.out_queue.append']
        po = [c for c in calls_in(wr) if dotted(c.func) == 'self.process_output']
        R.check(bool(app) and bool(po) and po[-1].lineno > app[0].lineno, rule, f'{LE}.write | queues then pumps', 'append then process_output', 'write() does not pump the output after queueing', p.loc(wr))


def key(ctx):
    R, p = ctx.r, ctx.p
    rule = 'C07.key'
    n = 0
    for meth, table, k, cls, node in c09.inserts(p):
        if table != 'le_coc_channels':
            continue
        n += 1
        R.check(k in ('channel.destination_cid', 'destination_cid', 'request.source_cid'), rule, f'{CM}.{meth} | le_coc_channels[{k}]', 'stored under the destination CID (= the peer\'s source CID)',
                f'le_coc_channels entry stored under `{k}`; credit packets are looked up by the peer\'s source CID (our destination CID)', p.loc(node))
    R.floor(rule, 4, 'le_coc_channels inserts')
    fc = p.find(f'{CM}.on_l2cap_le_flow_control_credit')
    if fc is None:
        R.bad(rule, f'{CM}.on_l2cap_le_flow_control_credit', 'anchor missing')
        return
    look = [c for c in calls_in(fc) if dotted(c.func) == 'self.find_le_coc_channel']
    pk = fc.args.args[-1].arg
    R.check(len(look) == 1 and [norm(a) for a in look[0].args] == ['connection.handle', f'{pk}.cid'], rule, f'{CM}.on_l2cap_le_flow_control_credit | lookup', 'looked up by (connection.handle, credit.cid)', 'credit packet is not routed by (handle, cid)', p.loc(fc))
    oc = [c for c in calls_in(fc) if call_attr(c) == 'on_credits']
    R.check(len(oc) == 1 and [norm(a) for a in oc[0].args] == [f'{pk}.credits'], rule, f'{CM}.on_l2cap_le_flow_control_credit | forwards credits', 'channel.on_credits(credit.credits)', 'credits are not forwarded to the channel', p.loc(fc))
    flc = p.find(f'{CM}.find_le_coc_channel')
    if flc is not None:
        R.check('self.le_coc_channels.get(connection_handle)' in norm(flc), rule, f'{CM}.find_le_coc_channel | table', 'reads le_coc_channels', 'find_le_coc_channel does not read le_coc_channels', p.loc(flc))


def ctor_slots(ctx):
    R, p = ctx.r, ctx.p
    rule = 'C07.ctor-slots'
    init = p.find(f'{LE}.__init__')
    cm = p.cls(CM)
    if init is None or cm is None:
        R.bad(rule, LE, 'anchor missing')
        return
    params = [a.arg for a in init.args.args[1:]]
    # expected source of each parameter at the two server-side (positional) sites
    server_want = {
        'mtu': ('server.mtu',), 'mps': ('server.mps',), 'credits': ('request.initial_credits',),
        'peer_mtu': ('request.mtu',), 'peer_mps': ('request.mps',), 'peer_credits': ('server.max_credits',),
        'source_cid': ('source_cid',), 'destination_cid': ('request.source_cid', 'destination_cid'), 'connected': ('True',),
    }
    client_want = {
        'mtu': ('spec.mtu',), 'mps': ('spec.mps',), 'credits': ('0',), 'peer_mtu': ('0',), 'peer_mps': ('0',),
        'peer_credits': ('spec.max_credits',), 'source_cid': ('source_cid',), 'destination_cid': ('0',), 'connected': ('False',),
    }
    sites = 0
    for mname, m in cm.methods.items():
        for c in calls_in(m):
            if call_attr(c) != 'LeCreditBasedChannel':
                continue
            sites += 1
            bound = {}
            for i, a in enumerate(c.args):
                if i < len(params):
                    bound[params[i]] = norm(a)
            for kw in c.keywords:
                if kw.arg:
                    bound[kw.arg] = norm(kw.value)
            want = server_want if mname.startswith('on_l2cap') else client_want
            for prm, allowed in want.items():
                got = bound.get(prm)
                R.check(got in allowed, rule, f'{CM}.{mname} | {prm}', f'{prm} <- {got}', f'constructor parameter `{prm}` receives `{got}`, expected one of {allowed}', p.loc(c))
    R.floor(rule, 36, 'constructor bindings')
    # what we announce equals what we stored
    for mname, cls_name in (('on_l2cap_le_credit_based_connection_request', 'L2CAP_LE_Credit_Based_Connection_Response'), ('on_l2cap_credit_based_connection_request', 'L2CAP_Credit_Based_Connection_Response')):
        m = cm.methods.get(mname)
        if m is None:
            R.bad(rule, f'{CM}.{mname}', 'anchor missing')
            continue
        ok_resp = [c for c in calls_in(m) if call_attr(c) == cls_name and 'SUCCESSFUL' in norm(kwarg(c, 'result') or ast.Constant(''))]
        good = len(ok_resp) == 1 and norm(kwarg(ok_resp[0], 'mtu')) == 'server.mtu' and norm(kwarg(ok_resp[0], 'mps')) == 'server.mps' and norm(kwarg(ok_resp[0], 'initial_credits')) == 'server.max_credits'
        R.check(good, rule, f'{CM}.{mname} | success response', 'announces server.mtu / server.mps / server.max_credits = the values the channel was created with', 'success response announces parameters that differ from the ones stored in the channel', p.loc(m))
        if ok_resp:
            d = norm(kwarg(ok_resp[0], 'destination_cid'))
            R.check(d in ('source_cid', 'source_cids'), rule, f'{CM}.{mname} | response destination_cid', 'response carries our allocated CID(s)', f'response destination_cid = {d}', p.loc(ok_resp[0]))
    ocr = p.find(f'{LE}.on_connection_response')
    oer = p.find(f'{LE}.on_enhanced_connection_response')
    for fn, dst in ((ocr, 'response.destination_cid'), (oer, 'destination_cid')):
        if fn is None:
            R.bad(rule, f'{LE}.on_*connection_response', 'anchor missing')
            continue
        got = {dotted(n.targets[0]): norm(n.value) for n in walk_local(fn) if isinstance(n, ast.Assign) and len(n.targets) == 1}
        want = {'self.destination_cid': dst, 'self.peer_mtu': 'response.mtu', 'self.peer_mps': 'response.mps', 'self.credits': 'response.initial_credits'}
        bad = {k: got.get(k) for k, v in want.items() if got.get(k) != v}
        R.check(not bad, rule, f'{p.qual_of(fn)} | response fields', 'destination_cid/peer_mtu/peer_mps/credits taken from the matching response fields', f'response fields bound to the wrong attributes: {bad}', p.loc(fn))
    con = p.find(f'{LE}.connect')
    if con is not None:
        rq = [c for c in calls_in(con) if call_attr(c) == 'L2CAP_LE_Credit_Based_Connection_Request']
        good = len(rq) == 1 and all(norm(kwarg(rq[0], k)) == v for k, v in (('le_psm', 'self.psm'), ('source_cid', 'self.source_cid'), ('mtu', 'self.mtu'), ('mps', 'self.mps'), ('initial_credits', 'self.peer_credits')))
        R.check(good, rule, f'{LE}.connect | request fields', 'request announces our psm/source_cid/mtu/mps and the credits we grant (peer_credits)', 'connection request fields do not match the channel attributes', p.loc(con))


def drain_point(ctx):
    """drain() is the completion point of a transfer: `drained` is cleared by every write that queues data and
    set only where nothing is left to send (output queue empty and no partially sent SDU)."""
    R, p = ctx.r, ctx.p
    rule = 'C07.drain-point'
    w = p.find(f'{LE}.write')
    po = p.find(f'{LE}.process_output')
    dr = p.find(f'{LE}.drain')
    if w is None or po is None or dr is None:
        R.bad(rule, f'{LE}.write/process_output/drain', 'anchor missing')
        return
    W = namedtuple('W', 'queued cleared q_empty sdu_none')

    class WD(paths.Domain):
        def event(self, node, v):
            if isinstance(node, ast.Call):
                d = dotted(node.func) or ''
                if d in ('self.out_queue.append', 'self.out_queue.appendleft', 'self.out_queue.extend'):
                    return (v._replace(queued=True, q_empty=False),)
                if d == 'self.drained.clear':
                    return (v._replace(cleared=True),)
                if d == 'self.process_output':
                    # may send, may not (credits): forgets what was known about the queue, keeps `cleared`
                    # (process_output sets the event itself, and only when nothing is left: checked below)
                    return (v._replace(q_empty=False, sdu_none=False),)
            return (v,)

        def assume(self, atom, truth, v):
            t = norm(atom)
            if t in ('self.out_queue', 'len(self.out_queue) > 0', 'len(self.out_queue) != 0'):
                return (v._replace(q_empty=not truth),)
            if t in ('self.out_sdu is None',):
                return (v._replace(sdu_none=truth),)
            if t in ('self.out_sdu is not None', 'self.out_sdu'):
                return (v._replace(sdu_none=not truth),)
            return (v,)
    res = paths.run(w, WD(), W(False, False, False, False))
    bad = sorted({f'{k}: queued without clearing `drained`' + ('' if not v.q_empty else ' (only the queue, not the SDU in progress, is known to be empty)') for k, st in res.items() if not k.startswith('raise') for v in st if v.queued and not v.cleared and not (v.q_empty and v.sdu_none)})
    queued_any = any(v.queued for st in res.values() for v in st)
    R.check(queued_any and not bad, rule, f'{LE}.write | clears drained', 'every path that queues data clears `drained` (or has established that neither queued data nor a partial SDU remains)',
            'a write can leave `drained` set while part of the data is still unsent (credits ran out in the middle of the SDU): drain() returns at once and a following disconnect() cuts the transfer short', p.loc(w), bad[:3])

    # process_output: drained.set() only where out_sdu is None and the queue is empty
    S = namedtuple('S', 'q_empty sdu_none')
    viol = []

    class PD(paths.Domain):
        def event(self, node, v):
            if isinstance(node, ast.Call) and dotted(node.func) == 'self.drained.set' and not (v.q_empty and v.sdu_none):
                viol.append(node.lineno)
            if isinstance(node, ast.Assign) and dotted(node.targets[0]) == 'self.out_sdu':
                return (v._replace(sdu_none=norm(node.value) == 'None'),)
            return (v,)

        def assume(self, atom, truth, v):
            t = norm(atom)
            if t == 'self.out_queue':
                return (v._replace(q_empty=not truth),)
            if t == 'self.out_sdu is None':
                return (v._replace(sdu_none=truth),)
            if t == 'self.out_sdu is not None':
                return (v._replace(sdu_none=not truth),)
            return (v,)
    loops = [n for n in po.body if isinstance(n, ast.While)]
    sets = [c for c in calls_in(po) if dotted(c.func) == 'self.drained.set']
    if len(loops) == 1 and sets:
        paths.run_block(loops[0].body, PD(), S(False, False))
        outside = [c for c in sets if not any(c is x for x in ast.walk(loops[0]))]
        R.check(not viol and not outside, rule, f'{LE}.process_output | sets drained only when idle', f'{len(sets)} set site(s), each under `out_sdu is None` and an empty queue',
                f'`drained` is set (line {sorted(set(viol)) + [c.lineno for c in outside]}) where a partially sent SDU or queued data may remain: drain() completes early', p.loc(po))
    else:
        R.bad(rule, f'{LE}.process_output | sets drained only when idle', f'shape not recognised: {len(loops)} top-level loop(s), {len(sets)} set site(s)', p.loc(po))
    R.check(norm(dr.body[-1]) == 'await self.drained.wait()' and sum(1 for x in ast.walk(dr) if isinstance(x, ast.Await)) == 1, rule, f'{LE}.drain', 'drain() waits for the `drained` event', 'drain() no longer waits for the drained event', p.loc(dr))


def cid_alloc(ctx):
    from . import c09
    c09.cid_alloc(ctx, rule='C07.cid-alloc')


def stale_loopvar_rule(ctx):
    from ..stale_loopvar import stale_loopvar
    stale_loopvar(ctx, 'C07.stale-loopvar', ['bumble.l2cap'])


def byte_order_rule(ctx):
    from .. import generic_rules as g
    g.byte_order(ctx, 'C07.byte-order', ['bumble.l2cap'])


def unordered_pairing_rule(ctx):
    from ..generic_rules import unordered_pairing
    unordered_pairing(ctx, 'C07.unordered-pairing', ['bumble.l2cap'])


def fifo_rule(ctx):
    from ..generic_rules import fifo_discipline
    fifo_discipline(ctx, 'C07.fifo', ['bumble.l2cap'])


def integer_arithmetic_rule(ctx):
    from ..generic_rules import integer_arithmetic
    integer_arithmetic(ctx, 'C07.integer-arithmetic', ['bumble.l2cap'])


def credit_ledger(ctx):
    """Credits returned by the peer are always added to the balance and the output is pumped: every way through on_credits
    has executed `self.credits += credits` (no state test in front of it: the acceptor side never sets the flags the
    initiator path sets)."""
    R, p = ctx.r, ctx.p
    rule = 'C07.credit-ledger'
    fn = p.find(f'{LE}.on_credits')
    if fn is None:
        R.bad(rule, f'{LE}.on_credits', 'anchor missing')
        return
    par = fn.args.args[1].arg

    class D(paths.Domain):
        def event(self, node, v):
            if isinstance(node, ast.AugAssign) and dotted(node.target) == 'self.credits' and isinstance(node.op, ast.Add) and norm(node.value) == par:
                return ((True, v[1]),)
            if isinstance(node, ast.Call) and dotted(node.func) == 'self.process_output':
                return ((v[0], True),)
            return (v,)
    res = paths.run(fn, D(), (False, False))
    ex = paths.normal_exits(res)
    bad = [' '.join(w) for v, w in ex.items() if v != (True, True)]
    R.check(not bad and bool(ex), rule, f'{LE}.on_credits | every path credits and pumps', 'balance raised by the received amount and process_output() called on every exit',
            'on_credits can return without adding the received credits (or without resuming output): a channel on which that path is taken spends its initial credits and then stalls for ever', p.loc(fn), bad[:2])


def identifier_range_rule(ctx):
    from .c09 import signalling_identifier
    signalling_identifier(ctx, 'C07.identifier-range')


def pdu_forwarded(ctx):
    from .c05 import fragment_forwarded
    fragment_forwarded(ctx, 'C07.pdu-forwarded', 'bumble.l2cap.ChannelManager.on_pdu', 'channel', 'channel.on_pdu')


def index_at_response(ctx, rule='C07.index-at-response'):
    """Credits for a channel are looked up in le_coc_channels by the peer's CID.  The peer may send them right behind its
    connection response, and both frames are processed before the coroutine that awaits the connection resumes: the channel
    is therefore entered into le_coc_channels in the (synchronous) response handling, never after an await."""
    R, p = ctx.r, ctx.p
    cm = p.cls('bumble.l2cap.ChannelManager')
    if cm is None:
        R.bad(rule, 'bumble.l2cap.ChannelManager', 'anchor missing')
        return
    n = 0
    for name, fn in sorted(cm.methods.items()):
        al = {}
        for s_ in walk_local(fn):
            if isinstance(s_, ast.Assign) and len(s_.targets) == 1 and isinstance(s_.targets[0], ast.Name) and 'self.le_coc_channels' in norm(s_.value):
                al[s_.targets[0].id] = True
        for st in [x for x in walk_local(fn) if isinstance(x, ast.Assign) and isinstance(x.targets[0], ast.Subscript) and ((dotted(x.targets[0].value) or '') in al or 'self.le_coc_channels' in norm(x.targets[0].value))]:
            if isinstance(st.value, ast.Dict) or norm(st.value) in ('{}',):
                continue
            n += 1
            aw = [a for a in walk_local(fn) if isinstance(a, ast.Await) and a.lineno < st.lineno]
            R.check(not aw, rule, f'bumble.l2cap.ChannelManager.{name} | {norm(st)[:50]}', 'entered synchronously (no await before it in this function)',
                    f'{name} enters the channel into le_coc_channels only after an await (line {aw[0].lineno if aw else 0}): a credit frame the peer sends right behind its connection response is processed first, finds no channel and is dropped, and a disconnection processed in that gap leaves a closed channel registered', p.loc(st))
    R.check(n >= 2, rule, 'bumble.l2cap.ChannelManager | inserts into le_coc_channels', f'{n} insert sites', f'only {n} insert sites found')


def allocator_scan_rule(ctx):
    from .c09 import allocator_scan
    allocator_scan(ctx, 'C07.allocator-scan')


def reset_before_sink(ctx):
    from ..generic_rules import reset_before_handoff
    reset_before_handoff(ctx, 'C07.reset-before-sink', 'bumble.l2cap.LeCreditBasedChannel.on_pdu', 'self.in_sdu', 'self.sink')


def field_order(ctx):
    """The credit-based connection frames carry MTU, then MPS, then the initial credits (Vol 3 Part A 4.22-4.26): the wire
    layout of these dataclasses is their declaration order, and every user reads the fields by name - a swapped pair
    changes nothing between two Bumble devices and everything for any other peer (frames larger than the MPS it gave)."""
    R, p = ctx.r, ctx.p
    rule = 'C07.field-order'
    n = 0
    for cn, ci in sorted(p.classes.items()):
        if not cn.startswith('bumble.l2cap.L2CAP_') or 'mtu' not in ci.annots or 'mps' not in ci.annots:
            continue
        n += 1
        order = [k for k in ci.annots if k in ('mtu', 'mps', 'initial_credits')]
        R.check(order in (['mtu', 'mps', 'initial_credits'], ['mtu', 'mps']), rule, cn, f'declared {order}', f'{ci.name} declares {order}: MTU and MPS (and the credits) are written to the wire in that order, so a peer that follows the specification reads the MPS where the MTU is - it is then sent frames larger than the MPS it asked for', p.loc(ci.node))
        keys = list(ci.annots)
        R.check(keys.index('mps') == keys.index('mtu') + 1, rule, f'{cn} | adjacent', 'mps directly follows mtu', f'{ci.name}: a field stands between mtu and mps ({keys})', p.loc(ci.node))
    R.check(n >= 5, rule, 'bumble.l2cap | credit-based frames', f'{n} frame classes', f'only {n} found')


RULES = [
    ('C07.field-order', field_order),
    ('C07.reset-before-sink', reset_before_sink),
    ('C07.allocator-scan', allocator_scan_rule),
    ('C07.index-at-response', index_at_response),
    ('C07.pdu-forwarded', pdu_forwarded),
    ('C07.identifier-range', identifier_range_rule),
    ('C07.credit-ledger', credit_ledger),
    ('C07.integer-arithmetic', integer_arithmetic_rule),
    ('C07.fifo', fifo_rule),
    ('C07.unordered-pairing', unordered_pairing_rule),
    ('C07.byte-order', byte_order_rule),
    ('C07.stale-loopvar', stale_loopvar_rule),
    ('C07.cid-alloc', cid_alloc),
    ('C07.credit-guard', credit_guard),
    ('C07.bounds', bounds),
    ('C07.credit-return', credit_return),
    ('C07.key', key),
    ('C07.ctor-slots', ctor_slots),
    ('C07.drain-point', drain_point),
]

VARIANTS = [
    ('credits not consumed', 'bumble/l2cap.py', "                self.send_pdu(packet)\n                self.credits -= 1\n", "                self.send_pdu(packet)\n", 'fire', 'C07.credit-guard'),
    ('loop guard >= 0', 'bumble/l2cap.py', "        while self.credits > 0:\n", "        while self.credits >= 0:\n", 'fire', 'C07.credit-guard'),
    ('frame cut at own mps', 'bumble/l2cap.py', "                packet = self.out_sdu[: self.peer_mps]\n", "                packet = self.out_sdu[: self.mps]\n", 'fire', 'C07.bounds'),
    ('returned credits off by one', 'bumble/l2cap.py', "                        credits=self.peer_max_credits - self.peer_credits,\n", "                        credits=self.peer_max_credits - self.peer_credits - 1,\n", 'fire', 'C07.credit-return'),
    ('credit return names destination cid', 'bumble/l2cap.py', "                        cid=self.source_cid,\n                        credits=self.peer_max_credits", "                        cid=self.destination_cid,\n                        credits=self.peer_max_credits", 'fire', 'C07.credit-return'),
    ('on_credits assigns', 'bumble/l2cap.py', "        self.credits += credits\n", "        self.credits = credits\n", 'fire', 'C07.credit-return'),
    ('server swaps mtu and mps of the peer', 'bumble/l2cap.py',
     "            request.le_psm,\n            source_cid,\n            request.source_cid,\n            server.mtu,\n            server.mps,\n            request.initial_credits,\n            request.mtu,\n            request.mps,\n",
     "            request.le_psm,\n            source_cid,\n            request.source_cid,\n            server.mtu,\n            server.mps,\n            request.initial_credits,\n            request.mps,\n            request.mtu,\n", 'fire', 'C07.ctor-slots'),
    ('enhanced handler key regression', 'bumble/l2cap.py', "            le_connection_channels[destination_cid] = channel\n", "            le_connection_channels[source_cid] = channel\n", 'fire', 'C07.key'),
    ('overflow test dropped', 'bumble/l2cap.py', "        if len(self.in_sdu) != 2 + self.in_sdu_length:\n", "        if len(self.in_sdu) < 2 + self.in_sdu_length:\n", 'fire', 'C07.bounds'),
    ('benign: debug text', 'bumble/l2cap.py', "                logger.debug(f'sent {len(packet)} bytes, {self.credits} credits left')\n", "                logger.debug(f'sent {len(packet)} bytes; {self.credits} credits left')\n", 'silent', ''),
]
