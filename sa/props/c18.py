"""C18 — every protocol data unit above HCI round-trips through its codec."""
from __future__ import annotations

import ast
import re
import struct

from .. import bits, fields
from ..core import AnalysisError, FUNC, call_attr, calls_in, const, dotted, is_const, kwarg, norm, slice_parts, text, walk_local
from .c01 import field_rules

EXPLANATION = [
    "C18.bytes-not-via-str: no __bytes__ of a bumble.data_types class goes through str(self) / repr(self) / f'{self}' (their __str__ is the debug rendering).",
    'C18.sdp-int-widths: the four SDP integer conversions (parse / serialise x unsigned / signed) handle exactly the widths of the integer size-index table, 1 / 2 / 4 / 8 / 16 octets.',
    'C18.avdtp-start-layout: avdtp: the assembler reads the signal identifier and the packet count of a START packet at the octet indices at which Protocol.send_message writes them.',
    'C18.no-constructor-range: data types of bumble.data_types whose from_bytes passes struct.unpack results to the constructor have no raising constructor / __post_init__ (every value of the field widths is representable).',
    'C18.padding-agreement: a from_bytes that strips padding off its input (rstrip / lstrip) has a serialiser that pads on the same side (ljust / rjust); no two-sided strip().',
    'C18.typeless-address: an address-valued AD structure whose from_bytes builds Address(data) without a type assigns a constant address type in its constructor.',
    'C18.subunit-form: avc.Frame.to_bytes writes the one-byte subunit address under the same test (`subunit_id < 5 or subunit_id == 7`) under which from_bytes reads it, and has the extended forms for the rest.',
    'C18.media-type-position: MediaCodecCapabilities reads its media type from the same position of the first octet as its constructor writes it (both unshifted, or both shifted).',
    'C18.config-options: the L2CAP configuration-option decoder loops while len(data) >= 2, reads type and length as data[0] / data[1] unmasked, takes data[2:2+length] and advances by 2+length, and the encoder writes bytes([type, len]) + value: every option list (3-byte FCS option, types 0x80..0xFF included) round-trips.',
    'C18.sdp-containment: (shared with C17) DataElementParser records the end of the sequence being parsed, refuses an element that ends past it, and puts the outer bound back on every exit of the nested parse (path rule): an empty nested sequence does not leave a stale, too small bound for the siblings that follow.',
    'C18.offset-contract: no field parser with the (data, offset) -> (new_offset, value) contract parses from a slice data[offset:] at 0 and returns the resulting offset without adding the base: offsets stay absolute, so multi-entry lists parse entry after entry.',
    'C18.open-enum-pure: OpenIntEnum._missing_ (behind every open enum field of the codecs) builds the pseudo-member from (cls, value) only: it reads no module-level container and writes nothing on the class, so a parse result does not depend on what was parsed earlier in the process.',
    'C18.wire-fields-init: every dataclass field that carries wire metadata is a constructor argument (no init=False): parsers build objects with cls(**fields) and serialisers read the instance dict.',
    'C18.class-identity: no packet class registered by a decorator inherits from another registered class without stating its own code (the registering decorators derive code and name only when the class does not have them yet, so the inherited ones would be used and the parent replaced in the table).',
    'C18.bytes-of-number: no single-argument bytes() call is applied to a flag (an attribute or parameter declared bool, a comparison, a boolean expression): bytes(True) is one zero byte, not the byte 0x01.',
    'C18.division-guard: in the codec modules a divisor (or modulus) read from the packet being parsed is tested on the way to the division: a count of 0, which the matching serialiser writes for an empty list, cannot raise ZeroDivisionError.',
    'C18.decorator-order: every PDU class above HCI that is a dataclass and is registered by a decorator is made a dataclass first, so the registration decorator builds its field table from the declared fields.',
    'C18.avdtp-fragments: fragmentation of an AVDTP signalling message (packet count = ceil(len / fragment size), header sizes, slices) as decided by C19.avdtp-single: a message whose length is an exact multiple of the fragment size announces the right number of packets.',
    'C18.defined-at-return: in every function of the codec modules a local that is returned has been assigned on every path to that return (definite-assignment walk; names bound in loops, with-items, handlers excluded): no parser falls through a `match`/`if` chain into returning the variable of another arm.',
    'C18.enum-distinct: every enumeration of wire codes in the codec modules gives distinct members distinct values (specified aliases listed by name): a member that shares a code with another one cannot round-trip.',
    'C18.rtp-tail: MediaPacket.from_bytes hands the constructor data[12 + 4*CC:] untouched on every path (symbolic value of the returned constructor call), the constructor stores it unchanged and __bytes__ ends with it: what the parser took as payload is what the serialiser writes.',
    'C18.fresh-values: no from_*/parse*/create* function of the codec modules carries a memoising decorator (lru_cache, cache, ...): a parse result is never shared with an earlier parse, so it cannot depend on the history of the process.',
    'C18.sdp-depth: the SDP parser\'s nesting counter is restored on every normal exit (same rule as C17.depth-balance), so what was parsed before does not change what parses next.',
    'C18.length-prefix: in every writer of the form <length of x> + <payload>, the length measured and the payload appended are the same value (byte length of the encoded text, not character count).',
    'C18.fields: the declarative-field rules of C01 applied to every metadata-declared class of L2CAP, ATT, SMP, SDP, AVDTP and AVRCP.',
    'C18.registry: within each PDU registry (L2CAP control frames, ATT PDUs, SMP commands, SDP PDUs, AVDTP messages) no two classes share a code.',
    'C18.bits: for every hand-written codec pair whose bit fields the extractor recognises on both sides, each field is parsed from the '
    'byte/bit/width it is serialised to and no two serialised fields share a bit.',
    'C18.and-disjoint: no value is formed by AND-ing two operands with disjoint bit supports (always 0), e.g. the two bytes of an extended length.',
    'C18.stride: list fields read with unpack_from(fmt, data, base + k*i) use k == calcsize(fmt), the stride they are written with.',
    'C18.ctor-coverage: a hand-written from_bytes passes every constructor parameter that influences what __bytes__ emits.',
    'C18.interning: a parse function that returns a previously registered instance selects it by what __bytes__ emits, not by a coarser equality.',
    'C18.sdp-tables: SDP size-index <-> size tables and integer formats agree between DataElement.__bytes__ and DataElementParser.',
    'C18.generic: generic (unknown code) PDUs keep exactly the bytes after the code; cached payload slices are the item\'s own bytes.',
    'Not decided: value-level equality for all field values (runtime).',
]
ASSUMPTIONS = ['pairs whose shape the extractor does not understand are listed under not_analysed and are not claimed']

MODS = {'bumble.l2cap', 'bumble.att', 'bumble.smp', 'bumble.sdp', 'bumble.avdtp', 'bumble.avrcp'}
CODEC_MODS = ['bumble.l2cap', 'bumble.att', 'bumble.smp', 'bumble.sdp', 'bumble.rfcomm', 'bumble.avdtp', 'bumble.avctp', 'bumble.avrcp', 'bumble.avc', 'bumble.rtp', 'bumble.core', 'bumble.a2dp', 'bumble.data_types']


def fields_rule(ctx):
    field_rules(ctx, 'C18.fields', MODS, 120, 250)


def registry(ctx):
    R, p = ctx.r, ctx.p
    rule = 'C18.registry'
    regs = [
        ('bumble.l2cap', 'L2CAP_Control_Frame.subclass', '@name:bumble.l2cap.CommandCode'),
        ('bumble.att', 'ATT_PDU.subclass', '@name:bumble.att.Opcode'),
        ('bumble.smp', 'SMP_Command.subclass', 'code'),
        ('bumble.sdp', 'SDP_PDU.subclass', 'pdu_id'),
        ('bumble.avdtp', 'Message.subclass', None),
    ]
    for mod, deco, attr in regs:
        seen = {}
        n = 0
        for ci in sorted(p.classes.values(), key=lambda c: c.qual):
            if ci.module.name != mod or not any(text(d).endswith(deco) for d in ci.node.decorator_list):
                continue
            n += 1
            if attr is not None and attr.startswith('@name:'):
                # code = Enum[ClassName.upper()] (set by the decorator)
                enum = p.cls(attr[6:])
                key = ci.name.upper() if enum is not None and ci.name.upper() in enum.assigns else None
                if key is not None:
                    key = norm(enum.assigns[key])
            elif attr is None:
                key = (norm(ci.assigns.get('message_type', ast.Constant(None))), norm(ci.assigns.get('signal_identifier', ast.Constant(None))))
            else:
                v = ci.assigns.get(attr)
                key = norm(v) if v is not None else None
            if key is None or key == ('None', 'None'):
                R.bad(rule, f'{ci.qual} | code', f'registered class has no `{attr}` class attribute', p.loc(ci.node))
                continue
            if key in seen:
                R.bad(rule, f'{ci.qual} | unique', f'code {key} is shared with {seen[key]}: one of them can never be parsed', p.loc(ci.node))
            else:
                R.ok(rule, f'{ci.qual} | unique', f'code {key}', p.loc(ci.node))
            seen[key] = ci.name
        R.check(n >= 5, rule, f'{mod} | registry size', f'{n} registered classes', f'only {n} classes registered with {deco}')
    R.floor(rule, 80, 'registered classes')


# pairs excluded from the generic bit comparison (one named reason each)
BITS_EXCEPT = {
    ('bumble.avc.Frame', 'opcode'): 'opcode offset depends on the extended subunit encoding (variable index)',
    ('bumble.rfcomm.RFCOMM_Frame', 'fcs'): 'FCS is the last byte (index -1), serialised through a separate bytes([...])',
    ('bumble.profiles.le_audio.Metadata.Entry', 'tag'): 'parser receives the entry without its length byte',
}


def bits_rule(ctx):
    R, p = ctx.r, ctx.p
    rule = 'C18.bits'
    n_fields = 0
    for ci in sorted(p.classes.values(), key=lambda c: c.qual):
        if ci.module.name not in CODEC_MODS:
            continue
        pf = ci.methods.get('from_bytes') or ci.methods.get('parse_from_bytes')
        sf = ci.methods.get('__bytes__') or ci.methods.get('to_bytes')
        if not (pf and sf):
            continue
        P = bits.parse_layout(pf)
        S, clashes = bits.ser_layout(sf)
        common = sorted(set(P) & set(S))
        if len(common) < 1:
            if P or S:
                R.skip(rule, ci.qual, f'bit fields recognised on one side only (parse {sorted(P)}, serialise {sorted(S)})', p.loc(ci.node))
            continue
        probs = {f: msg for f, _, _, msg in bits.compare(P, S)}
        for f in common:
            if (ci.qual, f) in BITS_EXCEPT:
                R.skip(rule, f'{ci.qual}.{f}', 'named exception: ' + BITS_EXCEPT[(ci.qual, f)], p.loc(ci.node))
                continue
            if not P[f][0].lstrip('-').isdigit():
                R.skip(rule, f'{ci.qual}.{f}', f'variable byte index `{P[f][0]}`', p.loc(ci.node))
                continue
            n_fields += 1
            R.check(f not in probs, rule, f'{ci.qual}.{f}', f'byte {P[f][0]} bit {P[f][1]} width {P[f][2]} on both sides', f'{f}: {probs.get(f)}', p.loc(ci.node))
        for idx, sh, f1, f2 in clashes:
            R.bad(rule, f'{ci.qual} | overlap {f1}/{f2}', f'`{f1}` and `{f2}` are both serialised at bit {sh} of byte {idx}', p.loc(sf))
    R.extra['bit_fields_compared'] = n_fields
    R.floor(rule, 40, 'bit fields')
    # RFCOMM frame: address/control bytes are built in __init__, parsed in from_bytes
    ri = p.find('bumble.rfcomm.RFCOMM_Frame.__init__')
    rf = p.find('bumble.rfcomm.RFCOMM_Frame.from_bytes')
    if ri is None or rf is None:
        R.bad(rule, 'bumble.rfcomm.RFCOMM_Frame', 'anchor missing')
        return
    si, sr = norm(ri), norm(rf)
    R.check('self.address = dlci << 2 | c_r << 1 | 1' in si and 'dlci = data[0] >> 2 & 63' in sr and 'c_r = data[0] >> 1 & 1' in sr, rule, 'bumble.rfcomm.RFCOMM_Frame | address byte', 'dlci @2 (6 bits), c/r @1, EA @0 on both sides', 'RFCOMM address byte layout differs between construction and parsing', p.loc(ri))
    R.check('self.control = frame_type | p_f << 4' in si and 'frame_type = FrameType(data[1] & 239)' in sr and 'p_f = data[1] >> 4 & 1' in sr, rule, 'bumble.rfcomm.RFCOMM_Frame | control byte', 'P/F @4, frame type = remaining bits (mask 0xEF)', 'RFCOMM control byte layout differs between construction and parsing', p.loc(ri))
    R.check('self.length = bytes([(length & 127) << 1, length >> 7 & 255])' in si and 'self.length = bytes([length << 1 | 1])' in si and 'if length > 127:' in si, rule, 'bumble.rfcomm.RFCOMM_Frame | length field (write)', '1 byte (EA=1) up to 127, else 2 bytes: low 7 bits << 1, then the high bits', 'RFCOMM length encoding changed', p.loc(ri))
    R.check('length = data[3] << 7 | length >> 1' in sr and 'information = data[4:-1]' in sr and 'information = data[3:-1]' in sr and 'if length & 1:' in sr, rule, 'bumble.rfcomm.RFCOMM_Frame | length field (read)', 'EA bit decides 1 or 2 bytes; high byte << 7 | low >> 1; payload after the length', 'RFCOMM length decoding does not mirror the encoding', p.loc(rf))


def and_disjoint(ctx):
    R, p = ctx.r, ctx.p
    rule = 'C18.and-disjoint'
    n = 0
    for mod in CODEC_MODS:
        m = p.modules.get(mod)
        if m is None:
            continue
        for node in ast.walk(m.tree):
            if isinstance(node, ast.BinOp) and isinstance(node.op, ast.BitAnd):
                l, r = node.left, node.right
                for a, b in ((l, r), (r, l)):
                    if isinstance(a, ast.BinOp) and isinstance(a.op, ast.LShift) and is_const(a.right) and isinstance(b, ast.BinOp) and isinstance(b.op, ast.RShift) and is_const(b.right):
                        k, mshift = const(a.right), const(b.right)
                        # operands are bytes (subscripts of a bytes object) or byte-sized locals
                        n += 1
                        fn = next((x for x in _anc(node) if isinstance(x, FUNC)), None)
                        key = f'{p.qual_of(fn) if fn else mod} | {norm(node)}'
                        R.check(8 - mshift > k, rule, key, 'operand supports overlap', f'`{norm(node)}`: the left operand has no bits below {k} and the right operand (a byte >> {mshift}) none at or above {8 - mshift}: the result is always 0 (the two halves of a value must be OR-ed)', m.rel + f':{node.lineno}')
    # positive control: the rule must recognise the pattern
    ctrl = ast.parse('length = (data[3] << 7) & (length >> 1)').body[0].value
    fired = isinstance(ctrl, ast.BinOp) and isinstance(ctrl.op, ast.BitAnd) and isinstance(ctrl.left.op, ast.LShift) and isinstance(ctrl.right.op, ast.RShift) and not (8 - 1 > 7)
    R.control('and-disjoint positive control', fired)
    R.ok(rule, 'census', f'{n} shift-AND-shift expressions in the codec modules, none with disjoint supports; extended lengths are combined with |', '')
    # the two extended-length decoders use |
    for q in ('bumble.rfcomm.RFCOMM_Frame.parse_mcc', 'bumble.rfcomm.RFCOMM_Frame.from_bytes'):
        fn = p.find(q)
        if fn is None:
            R.bad(rule, q, 'anchor missing')
            continue
        ors = [norm(n_.value) for n_ in walk_local(fn) if isinstance(n_, ast.Assign) and dotted(n_.targets[0]) == 'length' and isinstance(n_.value, ast.BinOp) and isinstance(n_.value.op, ast.BitOr)]
        R.check(len(ors) == 1 and '<< 7 | length >> 1' in ors[0], rule, f'{q} | extended length', f'length = {ors[0] if ors else "?"}', 'the two bytes of an extended length are not OR-ed together', p.loc(fn))
    pm = p.find('bumble.rfcomm.RFCOMM_Frame.parse_mcc')
    if pm is not None:
        s = norm(pm)
        R.check('length = data[2] << 7 | length >> 1' in s and 'value = data[3:3 + length]' in s and 'value = data[2:]' in s, rule, 'bumble.rfcomm.RFCOMM_Frame.parse_mcc | indices', 'high length byte at 2, value from 3 (2-byte form) / from 2 (1-byte form)', 'MCC length/value indices changed', p.loc(pm))
    mm = p.find('bumble.rfcomm.RFCOMM_Frame.make_mcc')
    if mm is not None:
        R.check('(mcc_type << 2 | c_r << 1 | 1) & 255, (len(data) & 127) << 1 | 1' in norm(mm), rule, 'bumble.rfcomm.RFCOMM_Frame.make_mcc', 'type @2, c/r @1, EA; 1-byte length', 'MCC header construction changed', p.loc(mm))


def _anc(n):
    q = getattr(n, '_parent', None)
    while q is not None:
        yield q
        q = getattr(q, '_parent', None)


def stride(ctx):
    R, p = ctx.r, ctx.p
    rule = 'C18.stride'
    n = 0
    for mod in CODEC_MODS + ['bumble.hci']:
        m = p.modules.get(mod)
        if m is None:
            continue
        for comp in ast.walk(m.tree):
            if not isinstance(comp, (ast.ListComp, ast.GeneratorExp)):
                continue
            gens = comp.generators
            if len(gens) != 1 or not (isinstance(gens[0].iter, ast.Call) and call_attr(gens[0].iter) == 'range') or not isinstance(gens[0].target, ast.Name):
                continue
            i = gens[0].target.id
            rargs = gens[0].iter.args
            step = const(rargs[2]) if len(rargs) == 3 and is_const(rargs[2]) else 1
            for c in ast.walk(comp.elt):
                if isinstance(c, ast.Call) and (dotted(c.func) or '') == 'struct.unpack_from' and len(c.args) == 3 and is_const(c.args[0]):
                    size = struct.calcsize(const(c.args[0]))
                    off = c.args[2]
                    if not any(isinstance(x, ast.Name) and x.id == i for x in ast.walk(off)):
                        continue
                    n += 1
                    coef = _coef(off, i)
                    coef = None if coef is None else coef * step
                    fn = next((x for x in _anc(comp) if isinstance(x, FUNC)), None)
                    # stride > item size is a record layout (one field per record); stride < size overlaps
                    R.check(coef is not None and coef >= size, rule, f'{p.qual_of(fn) if fn else mod} | {norm(c)}', f'stride {coef} >= calcsize({const(c.args[0])!r}) = {size}', f'items of {size} bytes are read at offsets advancing by {coef}: entries overlap / are misaligned with how they are written', m.rel + f':{c.lineno}')
    # the same for items cut out with a slice: data[L(i) : U(i)] for i in range(start, stop, step) -- the distance between
    # two consecutive items (coefficient of i in L, times the step) must equal the width of an item (U - L)
    from ..sym import lin
    m_ = 0
    for mod in CODEC_MODS + ['bumble.hci']:
        m = p.modules.get(mod)
        if m is None:
            continue
        for comp in ast.walk(m.tree):
            if not isinstance(comp, (ast.ListComp, ast.GeneratorExp)):
                continue
            gens = comp.generators
            if len(gens) != 1 or not (isinstance(gens[0].iter, ast.Call) and call_attr(gens[0].iter) == 'range') or not isinstance(gens[0].target, ast.Name):
                continue
            i = gens[0].target.id
            rargs = gens[0].iter.args
            step = lin(rargs[2]) if len(rargs) == 3 else {'': 1}
            for sl in [x for x in ast.walk(comp.elt) if isinstance(x, ast.Subscript) and isinstance(x.slice, ast.Slice) and x.slice.lower is not None and x.slice.upper is not None]:
                lo, up = lin(sl.slice.lower), lin(sl.slice.upper)
                if lo is None or up is None or step is None or i not in lo:
                    continue
                ci_ = lo.get(i, 0)
                width = {k: up.get(k, 0) - lo.get(k, 0) for k in set(up) | set(lo)}
                width = {k: v for k, v in width.items() if v}
                stride = {k: v * ci_ for k, v in step.items() if v * ci_}
                m_ += 1
                fn = next((x for x in _anc(comp) if isinstance(x, FUNC)), None)
                R.check(stride == width, rule, f'{p.qual_of(fn) if fn else mod} | {norm(sl)}', f'items of width {width} are {stride} apart',
                        f'items of width {width} are cut out at positions advancing by {stride}: consecutive items overlap (or leave gaps), so a list with more than one item does not parse back to the items that were written', m.rel + f':{sl.lineno}')
    R.check(n >= 1 and m_ >= 1, rule, 'census', f'{n} indexed unpack_from comprehension(s) and {m_} sliced comprehension(s) analysed', 'no indexed comprehension found (extractor lost coverage)')


def _coef(e, i):
    """coefficient of name i in a linear expression, else None"""
    if isinstance(e, ast.Name):
        return 1 if e.id == i else 0
    if isinstance(e, ast.Constant):
        return 0
    if isinstance(e, ast.BinOp):
        if isinstance(e.op, ast.Add):
            a, b = _coef(e.left, i), _coef(e.right, i)
            return None if a is None or b is None else a + b
        if isinstance(e.op, ast.Sub):
            a, b = _coef(e.left, i), _coef(e.right, i)
            return None if a is None or b is None else a - b
        if isinstance(e.op, ast.Mult):
            if is_const(e.left):
                b = _coef(e.right, i)
                return None if b is None else const(e.left) * b
            if is_const(e.right):
                a = _coef(e.left, i)
                return None if a is None else const(e.right) * a
            return None
    if isinstance(e, (ast.Attribute, ast.Call, ast.Subscript)):
        return 0 if not any(isinstance(x, ast.Name) and x.id == i for x in ast.walk(e)) else None
    return None


def ctor_coverage(ctx):
    R, p = ctx.r, ctx.p
    rule = 'C18.ctor-coverage'
    n = 0
    for ci in sorted(p.classes.values(), key=lambda c: c.qual):
        if ci.module.name not in CODEC_MODS:
            continue
        init, fb, sb = ci.methods.get('__init__'), ci.methods.get('from_bytes'), ci.methods.get('__bytes__')
        if not (init and fb and sb):
            continue
        cons = [c for c in calls_in(fb) if call_attr(c) in (ci.name, 'cls')]
        if not cons:
            continue
        params = [a.arg for a in init.args.args[1:]]
        ndef = len(init.args.defaults)
        defaulted = params[len(params) - ndef:] if ndef else []
        if not defaulted:
            continue
        read = {x.attr for x in ast.walk(sb) if isinstance(x, ast.Attribute) and dotted(x.value) == 'self'}
        for prm in defaulted:
            tainted = {prm}
            changed = True
            while changed:
                changed = False
                for s_ in ast.walk(init):
                    tg = None
                    if isinstance(s_, ast.Assign):
                        tg = s_.targets[0]
                        srcs = [s_.value]
                    elif isinstance(s_, ast.AugAssign):
                        tg = s_.target
                        srcs = [s_.value]
                    else:
                        continue
                    for a in _anc(s_):
                        if a is init:
                            break
                        if isinstance(a, ast.If):
                            srcs.append(a.test)
                    names = {x.id for e in srcs for x in ast.walk(e) if isinstance(x, ast.Name)} | {'self.' + x.attr for e in srcs for x in ast.walk(e) if isinstance(x, ast.Attribute) and dotted(x.value) == 'self'}
                    tname = dotted(tg)
                    if tname and names & tainted and tname not in tainted:
                        tainted.add(tname)
                        changed = True
            influenced = sorted(t[5:] for t in tainted if t.startswith('self.') and t[5:] in read)
            if not influenced:
                continue
            c = cons[-1]
            par = getattr(c, '_parent', None)
            if isinstance(par, ast.Assign) and isinstance(par.targets[0], ast.Name):
                var = par.targets[0].id
                if any(isinstance(x, ast.Call) and isinstance(x.func, ast.Attribute) and dotted(x.func.value) == var for x in ast.walk(fb)):
                    continue  # the object is populated through its own methods after construction
            n += 1
            passed = {k.arg for k in c.keywords} | set(params[:len(c.args)])
            R.check(prm in passed, rule, f'{ci.qual}.from_bytes | {prm}', f'constructor parameter `{prm}` (influences {influenced} in __bytes__) is supplied',
                    f'from_bytes builds the object without `{prm}`, which determines {influenced} as emitted by __bytes__: a parsed unit re-serialises differently', p.loc(c))
    R.check(n >= 1, rule, 'census', f'{n} influencing defaulted constructor parameter(s) analysed', 'no influencing defaulted parameter found (extractor lost coverage)')


def interning(ctx):
    R, p = ctx.r, ctx.p
    rule = 'C18.interning'
    reg = p.find('bumble.core.UUID.register')
    tb = p.find('bumble.core.UUID.to_bytes')
    eq = p.find('bumble.core.UUID.__eq__')
    if not (reg and tb and eq):
        R.bad(rule, 'bumble.core.UUID.register', 'anchor missing')
        return
    emitted = {x.attr for x in ast.walk(tb) if isinstance(x, ast.Attribute) and dotted(x.value) == 'self'}
    tests = [n for n in walk_local(reg) if isinstance(n, ast.If) and any(isinstance(r, ast.Return) for r in ast.walk(n))]
    ok = False
    why = 'no selecting test found'
    for t in tests:
        tn = norm(t.test)
        attrs = {x.attr for x in ast.walk(t.test) if isinstance(x, ast.Attribute)}
        if 'uuid_bytes' in attrs and 'self ==' not in tn and '== self' not in tn:
            ok = True
        else:
            why = f'instance selected by `{tn}` while to_bytes emits {sorted(emitted)}'
    R.check(ok, rule, 'bumble.core.UUID.register', 'an existing instance is reused only when its uuid_bytes (what to_bytes emits) are identical', f'{why}: the width of a parsed UUID depends on what the process has seen before', p.loc(reg))
    R.check('other.uuid_128_bytes == self.uuid_128_bytes' in norm(eq), rule, 'bumble.core.UUID.__eq__', 'equality is by 128-bit value (coarser than the byte form)', '__eq__ changed', p.loc(eq))
    fb = p.find('bumble.core.UUID.from_bytes')
    R.check(fb is not None and 'len(uuid_bytes) in (2, 4, 16)' in norm(fb) and 'self.uuid_bytes = uuid_bytes' in norm(fb), rule, 'bumble.core.UUID.from_bytes', 'keeps the given byte form (2, 4 or 16 bytes)', 'from_bytes no longer keeps the given byte form', p.loc(fb) if fb else '')


def sdp_tables(ctx):
    R, p = ctx.r, ctx.p
    rule = 'C18.sdp-tables'
    sb = p.find('bumble.sdp.DataElement.__bytes__')
    pn = p.find('bumble.sdp.DataElementParser.parse_next')
    if not (sb and pn):
        R.bad(rule, 'bumble.sdp.DataElement.__bytes__', 'anchor missing')
        return
    # parse: size_index -> fixed size or (fmt, advance)
    ptab = {}
    for m in ast.walk(pn):
        if isinstance(m, ast.Match) and norm(m.subject) == 'size_index':
            for case in m.cases:
                if isinstance(case.pattern, ast.MatchValue) and is_const(case.pattern.value):
                    k = const(case.pattern.value)
                    body = [norm(s) for s in case.body]
                    fixed = [n for n in ast.walk(case) if isinstance(n, ast.Assign) and dotted(n.targets[0]) == 'value_size' and is_const(n.value)]
                    adv = [const(n.value) for n in ast.walk(case) if isinstance(n, ast.AugAssign) and dotted(n.target) == 'self.offset' and is_const(n.value)]
                    fmt = [const(c.args[0]) for c in ast.walk(case) if isinstance(c, ast.Call) and dotted(c.func) == 'struct.unpack_from' and is_const(c.args[0])]
                    if fixed:
                        ptab[k] = ('fixed', sorted({const(n.value) for n in fixed}))
                    else:
                        ptab[k] = ('var', fmt[0] if fmt else 'B', adv[0] if adv else None)
    # serialise: size -> index
    stab = {}
    from ..normalize import _negate
    for n in ast.walk(sb):
        if isinstance(n, ast.If):
            arms = [(n.test, n.body)]
            if n.orelse and not (len(n.orelse) == 1 and isinstance(n.orelse[0], ast.If)):
                arms.append((_negate(n.test), n.orelse))   # the analyser's canonical form may have swapped the arms
            for test, body in arms:
                t = norm(test)
                idx = [const(a.value) for a in body if isinstance(a, ast.Assign) and dotted(a.targets[0]) == 'size_index' and is_const(a.value)]
                sz = [norm(a.value) for a in body if isinstance(a, ast.Assign) and dotted(a.targets[0]) == 'size_bytes']
                if idx and t.startswith('size'):
                    stab[idx[0]] = (t, sz[0] if sz else None)
    want_fixed = {0: 'size <= 1', 1: 'size == 2', 2: 'size == 4', 3: 'size == 8', 4: 'size == 16'}
    for k, cond in want_fixed.items():
        sizes = ptab.get(k, (None, []))[1]
        n_ = int(cond.split()[-1])
        R.check(stab.get(k, (None,))[0] == cond and ptab.get(k, (None,))[0] == 'fixed' and n_ in sizes, rule, f'bumble.sdp | size index {k}', f'written when {cond}, read as {sizes}', f'size index {k}: written when `{stab.get(k)}`, read as {ptab.get(k)}', p.loc(sb))
    want_var = {5: ('size <= 255', 'bytes([size])', 'B', 1), 6: ('size <= 65535', "struct.pack('>H', size)", '>H', 2), 7: ('size <= 4294967295', "struct.pack('>I', size)", '>I', 4)}
    for k, (cond, wr, fmt, adv) in want_var.items():
        pt = ptab.get(k)
        R.check(stab.get(k) == (cond, wr) and pt is not None and pt[0] == 'var' and pt[1] == fmt and pt[2] == adv and struct.calcsize(fmt) == adv, rule, f'bumble.sdp | size index {k}', f'{wr} <-> {fmt}, offset += {adv}', f'size index {k}: written {stab.get(k)}, read {pt}', p.loc(sb))
    R.check("self._bytes = bytes([self.type << 3 | size_index]) + size_bytes + data" in norm(sb) and 'element_type = DataElement.Type(self.data[self.offset] >> 3)' in norm(pn) and 'size_index = self.data[self.offset] & 7' in norm(pn), rule, 'bumble.sdp | header byte', 'type << 3 | size index on both sides', 'SDP element header byte layout differs', p.loc(sb))
    # integer formats
    for kind, fn_name, pos in (('UNSIGNED_INTEGER', 'unsigned_integer_from_bytes', 0), ('SIGNED_INTEGER', 'signed_integer_from_bytes', 1)):
        fn = p.find(f'bumble.sdp.DataElement.{fn_name}')
        if fn is None:
            R.bad(rule, f'bumble.sdp.DataElement.{fn_name}', 'anchor missing')
            continue
        rd = {}
        for m in ast.walk(fn):
            if isinstance(m, ast.Match):
                for case in m.cases:
                    if isinstance(case.pattern, ast.MatchValue) and is_const(case.pattern.value):
                        f = [const(c.args[0]) for c in ast.walk(case) if isinstance(c, ast.Call) and (dotted(c.func) or '').startswith('struct.unpack') and is_const(c.args[0])]
                        if f:
                            rd[const(case.pattern.value)] = f[0]
                        elif any('data[offset]' in norm(r) for r in ast.walk(case) if isinstance(r, ast.Return)):
                            rd[const(case.pattern.value)] = 'B'
        wr = {}
        for m in ast.walk(sb):
            if isinstance(m, ast.match_case) and kind in norm(m.pattern):
                for mm in ast.walk(m):
                    if isinstance(mm, ast.Match) and norm(mm.subject) == 'self.value_size':
                        for case in mm.cases:
                            if isinstance(case.pattern, ast.MatchValue) and is_const(case.pattern.value):
                                f = [const(c.args[0]) for c in ast.walk(case) if isinstance(c, ast.Call) and dotted(c.func) == 'struct.pack' and is_const(c.args[0])]
                                if f:
                                    wr[const(case.pattern.value)] = f[0]
        same = set(rd) == set(wr) == {1, 2, 4, 8} and all(rd[k].lstrip('>') == wr[k].lstrip('>') and struct.calcsize(wr[k]) == k for k in wr)
        R.check(same, rule, f'bumble.sdp | {kind} formats', f'{wr}', f'{kind}: written {wr}, read {rd}', p.loc(fn))
    src = norm(pn)
    R.check('core.UUID.from_bytes(self.data[value_start:value_end][::-1])' in src and 'data = bytes(self.value)[::-1]' in norm(sb), rule, 'bumble.sdp | UUID byte order', 'reversed on both sides', 'UUID byte order differs', p.loc(pn))
    R.check('result._bytes = self.data[start_offset:value_end]' in src and 'self.offset = value_end' in src, rule, 'bumble.sdp | cached bytes', 'a parsed element caches exactly its own bytes and the parser continues after them', 'cached bytes / parser position are not the element\'s own span', p.loc(pn))


def generic(ctx):
    R, p = ctx.r, ctx.p
    rule = 'C18.generic'
    fn = p.find('bumble.smp.SMP_Command.from_bytes')
    if fn is None:
        R.bad(rule, 'bumble.smp.SMP_Command.from_bytes', 'anchor missing')
    else:
        pay = [slice_parts(n.value) or norm(n.value) for n in walk_local(fn) if isinstance(n, ast.Assign) and dotted(n.targets[0]) == 'instance.payload']
        R.check(pay == [('pdu', '1', None), ('pdu', '1', None)], rule, 'bumble.smp.SMP_Command.from_bytes | payload', 'payload = pdu[1:] for known and unknown codes (the code byte is re-added by __bytes__)', f'payload slices {pay}: the code byte is duplicated or lost when the command is serialised again', p.loc(fn))
        R.check('dict_from_bytes(pdu, 1, subclass.fields)' in norm(fn), rule, 'bumble.smp.SMP_Command.from_bytes | field offset', 'fields parsed after the code byte', 'field parse offset changed', p.loc(fn))
    sb = p.find('bumble.smp.SMP_Command.__bytes__')
    R.check(sb is not None and 'bytes([self.code]) + self.payload' in norm(sb), rule, 'bumble.smp.SMP_Command.__bytes__', 'code byte + payload', 'SMP serialisation changed', p.loc(sb) if sb else '')
    fn = p.find('bumble.avrcp.BrowseableItem.parse_from_bytes')
    if fn is not None:
        pay = [slice_parts(n.value) for n in walk_local(fn) if isinstance(n, ast.Assign) and dotted(n.targets[0]) == 'instance._payload']
        R.check(pay == [('data', 'offset + 3', 'offset + 3 + length')] and "struct.unpack_from('>BH', data, offset)" in norm(fn) and 'return (offset + length + 3, instance)' in norm(fn), rule, 'bumble.avrcp.BrowseableItem.parse_from_bytes', 'cached payload = the item\'s own bytes; advance = 3 + length', f'cached payload slice {pay}', p.loc(fn))
    # AVDTP: whatever class Message.create picks (registered class, the simple-reject fallback, the generic message), the
    # instance it returns carries the received payload: every path that reaches the return has assigned instance.payload
    fn = p.find('bumble.avdtp.Message.create')
    if fn is None:
        R.bad(rule, 'bumble.avdtp.Message.create', 'anchor missing')
    else:
        from .. import paths as _paths

        class Keeps(_paths.Domain):
            def event(self, node, v):
                if isinstance(node, ast.Assign) and dotted(node.targets[0]) == 'instance':
                    return (False,)
                if isinstance(node, ast.Assign) and dotted(node.targets[0]) in ('instance.payload', 'instance._payload') and norm(node.value) == 'payload':
                    return (True,)
                return (v,)
        res = _paths.run(fn, Keeps(), False)
        lost = sorted(f'{k} ({" ".join(w)})' for k, st in res.items() if k.startswith('ret') for v, w in st.items() if not v)
        R.check(any(k.startswith('ret') for k in res) and not lost, rule, 'bumble.avdtp.Message.create | payload kept', 'every returned instance has been given the received payload',
                'a message class chosen by Message.create is returned without the received payload (its own field table is empty): the message re-serialises to nothing, e.g. a reject loses its error code', p.loc(fn), lost[:3])
    # ATT Read Multiple Variable Response: each tuple is (Length as on the wire, value bytes present); the last value may be
    # truncated to fit the MTU while its Length keeps the attribute's full length (Vol 3 Part F 3.4.4.12), so the parser keeps
    # the wire field and the serialiser writes the tuple's first element
    pf = p.find('bumble.att.ATT_Read_Multiple_Variable_Response._parse_length_value_tuples')
    if pf is None:
        R.bad(rule, 'bumble.att.ATT_Read_Multiple_Variable_Response._parse_length_value_tuples', 'anchor missing')
    else:
        wire = [dotted(n.targets[0]) for n in walk_local(pf) if isinstance(n, ast.Assign) and "struct.unpack_from('<H', data, offset)" in norm(n.value)]
        app = [c for c in calls_in(pf) if isinstance(c.func, ast.Attribute) and c.func.attr == 'append' and c.args and isinstance(c.args[0], ast.Tuple) and len(c.args[0].elts) == 2]
        ok = len(wire) == 1 and len(app) == 1 and norm(app[0].args[0].elts[0]) == wire[0]
        if ok:
            v2 = app[0].args[0].elts[1]
            if isinstance(v2, ast.Name):
                d2 = [n.value for n in walk_local(pf) if isinstance(n, ast.Assign) and dotted(n.targets[0]) == v2.id]
                v2 = d2[0] if len(d2) == 1 else v2
            ok = slice_parts(v2) == ('data', 'offset + 2', f'offset + 2 + {wire[0]}')
        R.check(ok, rule, 'bumble.att.ATT_Read_Multiple_Variable_Response._parse_length_value_tuples', 'tuple = (Length field of the wire, data[offset+2 : offset+2+Length])',
                'the parsed tuple does not carry the Length field as received (e.g. the number of bytes present instead): a truncated last value no longer parses back to the value that was built, and re-serialises differently', p.loc(pf))
    # A2DP vendor codec information: vendor id(4) codec id(2) value; a class registered for (vendor, codec) parses and
    # serialises the value only, so the factory hands it the part after the 6-byte header
    mc = p.find('bumble.a2dp.MediaCodecInformation.create')
    vs = p.cls('bumble.a2dp.VendorSpecificMediaCodecInformation')
    if mc is None or vs is None:
        R.bad(rule, 'bumble.a2dp.MediaCodecInformation.create', 'anchor missing')
    else:
        vnames = {dotted(n.targets[0]) for n in walk_local(mc) if isinstance(n, ast.Assign) and 'VendorSpecificMediaCodecInformation.from_bytes' in norm(n.value)}
        reg = [c for c in calls_in(mc) if call_attr(c) == 'from_bytes' and dotted(c.func.value) not in ('SbcMediaCodecInformation', 'AacMediaCodecInformation', 'VendorSpecificMediaCodecInformation')]
        ok = bool(vnames) and bool(reg) and all(len(c.args) == 1 and any(norm(c.args[0]) == f'{v}.value' for v in vnames) for c in reg)
        R.check(ok, rule, 'bumble.a2dp.MediaCodecInformation.create | vendor codec value', 'a registered vendor codec class is given the value after the vendor / codec id header',
                f'a registered vendor codec class is given `{[norm(c.args[0]) for c in reg]}` instead of the value that follows the 6-byte vendor / codec header: it decodes header bytes as codec parameters, so vendor capabilities (Opus) do not parse back to what was built', p.loc(mc))
        vfb = vs.methods.get('from_bytes')
        R.check(vfb is not None and 'data[6:]' in norm(vfb), rule, 'bumble.a2dp.VendorSpecificMediaCodecInformation.from_bytes', 'value = data[6:]', 'vendor header size changed', p.loc(vfb) if vfb else '')
    # ATT generic
    fn = p.find('bumble.att.ATT_PDU.from_bytes')
    if fn is not None:
        s = norm(fn)
        R.check('op_code = pdu[0]' in s, rule, 'bumble.att.ATT_PDU.from_bytes | opcode', 'opcode = first byte', 'ATT opcode extraction changed', p.loc(fn))
    # AdvertisingData: the structure walk covers the whole buffer
    ap = p.find('bumble.core.AdvertisingData.append')
    if ap is not None:
        loops = [n for n in walk_local(ap) if isinstance(n, ast.While)]
        def _min_remaining(t):
            # `offset + k < len(data)` -> k+1 bytes must remain; `offset + k <= len(data)` -> k bytes
            m1 = re.match(r'^offset( \+ (\d+))? (<|<=) len\(data\)$', t)
            if not m1:
                return None
            k = int(m1.group(2) or 0)
            return k + 1 if m1.group(3) == '<' else k
        need = _min_remaining(norm(loops[0].test)) if loops else None
        R.check(len(loops) == 1 and need is not None and need <= 2, rule, 'bumble.core.AdvertisingData.append | loop bound', 'continues while a length byte and a type byte remain', f'AD structure walk stops at `{norm(loops[0].test) if loops else None}`: a trailing structure with an empty payload (length 1) is dropped', p.loc(ap))
        s = norm(ap)
        R.check('length = data[offset]' in s and 'offset += 1' in s and 'ad_type = data[offset]' in s and 'ad_data = data[offset + 1:offset + length]' in s and 'offset += max(length, 1)' in s or ('offset += length' in s), rule, 'bumble.core.AdvertisingData.append | structure', 'length byte, type byte, length-1 data bytes, advance by length', 'AD structure parse changed', p.loc(ap))



def rtp_tail(ctx):
    """RTP: the serialiser emits header, CSRC list, then the payload as it is; the parser hands the constructor everything
    after the CSRC list as it is (on every path), and the fields it passes are the constructor's parameters in order."""
    from .. import paths
    from ..sym import Sym, exits, lin, lin_eq
    R, p = ctx.r, ctx.p
    rule = 'C18.rtp-tail'
    fb = p.find('bumble.rtp.MediaPacket.from_bytes')
    tb = p.find('bumble.rtp.MediaPacket.__bytes__')
    init = p.find('bumble.rtp.MediaPacket.__init__')
    if fb is None or tb is None or init is None:
        R.bad(rule, 'bumble.rtp.MediaPacket', 'anchor missing')
        return
    res = paths.run(fb, Sym(), Sym.init())
    outs = exits(res, kinds=('ret',))
    params = [a.arg for a in init.args.args[1:]]
    bad, n = [], 0
    for kind, facts, store, extra, w in outs:
        rt = store.get('<return>')
        try:
            call = ast.parse(rt, mode='eval').body
        except (SyntaxError, TypeError):
            bad.append(f'unreadable return {rt!r}')
            continue
        if not (isinstance(call, ast.Call) and call_attr(call) == 'MediaPacket' and len(call.args) == len(params) and not call.keywords):
            bad.append(f'return value is not MediaPacket(<{len(params)} positional fields>)')
            continue
        n += 1
        pl = call.args[params.index('payload')]
        ok = isinstance(pl, ast.Subscript) and dotted(pl.value) == 'data' and isinstance(pl.slice, ast.Slice) and pl.slice.upper is None and pl.slice.step is None and pl.slice.lower is not None \
            and lin_eq(lin(pl.slice.lower), lin('12 + 4 * (data[0] & 15)'))
        if not ok:
            bad.append(f'payload = {norm(pl)[:120]}')
    R.check(n >= 1 and not bad, rule, 'bumble.rtp.MediaPacket.from_bytes | payload is the whole tail', 'on every path the payload handed to the constructor is data[12 + 4 * CC:], untouched',
            'the parser alters the payload (strips or cuts part of the tail) while the serialiser writes it as it is: a parsed packet does not re-serialise to the bytes it came from', p.loc(fb), bad[:3])
    rets = [n_ for n_ in walk_local(tb) if isinstance(n_, ast.Return)]
    R.check(len(rets) == 1 and norm(rets[0].value) == 'header + self.payload', rule, 'bumble.rtp.MediaPacket.__bytes__ | payload last, as is', 'serialised as header + self.payload', 'the serialiser no longer ends with the untouched payload', p.loc(tb))
    stores = {dotted(n_.targets[0])[5:]: norm(n_.value) for n_ in walk_local(init) if isinstance(n_, ast.Assign) and (dotted(n_.targets[0]) or '').startswith('self.')}
    R.check(stores.get('payload') == 'payload' and stores.get('padding') == 'padding', rule, 'bumble.rtp.MediaPacket.__init__ | payload stored as given', 'payload and padding flag stored unchanged', f'constructor transforms payload/padding: {stores.get("payload")}, {stores.get("padding")}', p.loc(init))


MEMO_DECORATORS = ('lru_cache', 'cache', 'cached_property', 'memoize', 'memoized')


def fresh_values(ctx):
    """Parsing never hands out an object that an earlier parse also handed out: no parser / factory of the codec modules
    is memoised (the parsed values are mutable: AdvertisingData.append, list fields, payload bytearrays)."""
    R, p = ctx.r, ctx.p
    rule = 'C18.fresh-values'

    def memo(fn):
        out = []
        for d in fn.decorator_list:
            f = d.func if isinstance(d, ast.Call) else d
            nm = (dotted(f) or '').split('.')[-1]
            if nm in MEMO_DECORATORS:
                out.append(nm)
        return out
    control = ast.parse('class X:\n    @classmethod\n    @functools.lru_cache(maxsize=64)\n    def from_bytes(cls, data):\n        return cls()\n').body[0].body[0]
    n, bad = 0, []
    for mod in CODEC_MODS + ['bumble.hci', 'bumble.gatt', 'bumble.at']:
        m = p.modules.get(mod)
        if m is None:
            continue
        for fn in [x for x in ast.walk(m.tree) if isinstance(x, FUNC)]:
            if not (fn.name.startswith(('from_', 'parse', 'create', 'subclass_from')) or fn.name in ('dict_and_offset_from_bytes', 'dict_from_bytes')):
                continue
            n += 1
            if memo(fn):
                bad.append((p.qual_of(fn), memo(fn), m.rel + f':{fn.lineno}'))
    for q, ds, loc in bad:
        R.bad(rule, f'{q} | @{ds[0]}', f'{q} is memoised with @{ds[0]}: two parses of the same bytes return the same mutable object, so what a later parse returns depends on what was done to the result of an earlier one', loc)
    R.check(memo(control) == ['lru_cache'] and n >= 60, rule, 'codec modules | parsers and factories', f'{n} from_*/parse*/create* functions, none memoised (positive control matched)', f'census too small ({n}) or positive control not matched')


ENUM_ALIASES = {
    # the Core Specification Supplement gives these pairs one code each
    'bumble.core.AdvertisingData.Type': {14: 'C and C-192', 15: 'R and R-192', 16: 'Device ID and Security Manager TK Value'},
}


def enum_distinct(ctx):
    """Wire-code enumerations of the codec modules give distinct members distinct codes (an alias serialises and parses back as the other member)."""
    R, p = ctx.r, ctx.p
    rule = 'C18.enum-distinct'
    n = 0
    for q, ci in sorted(p.classes.items()):
        if not any(q.startswith(m + '.') for m in CODEC_MODS):
            continue
        node = getattr(ci, 'node', None)
        bases = [text(b) for b in node.bases] if node is not None else []
        if not any('Enum' in b for b in bases):
            continue
        vals = {}
        for k, v in ci.assigns.items():
            if is_const(v) and isinstance(const(v), int) and not k.startswith('_'):
                vals.setdefault(const(v), []).append(k)
        n += 1
        dup = {v: ks for v, ks in vals.items() if len(ks) > 1 and v not in ENUM_ALIASES.get(q, {})}
        R.check(not dup, rule, q, f'{len(vals)} distinct codes', f'members share a code: {dup}: the later name is an alias, it goes out and parses back as the other member', p.loc(node) if node is not None else '')
    R.check(n >= 30, rule, 'codec enumerations', f'{n} enumerations examined', f'only {n} enumerations found')


def defined_at_return(ctx):
    """A parser / factory of the codec modules does not return a local that some path never assigned (the `match` arm
    for a value without a dedicated class falling through to `return <the variable of another arm>`)."""
    from .. import paths
    R, p = ctx.r, ctx.p
    rule = 'C18.defined-at-return'

    def targets(node):
        out = []

        def names(t):
            if isinstance(t, ast.Name):
                out.append(t.id)
            elif isinstance(t, (ast.Tuple, ast.List)):
                for e in t.elts:
                    names(e)
            elif isinstance(t, ast.Starred):
                names(t.value)
        if isinstance(node, ast.Assign):
            for t in node.targets:
                names(t)
        elif isinstance(node, (ast.AugAssign, ast.AnnAssign, ast.NamedExpr)):
            names(node.target)
        return out
    n_fn = 0
    for mn in CODEC_MODS + ['bumble.hci', 'bumble.gatt', 'bumble.at']:
        m = p.modules.get(mn)
        if m is None:
            continue
        for fn in [x for x in ast.walk(m.tree) if isinstance(x, FUNC)]:
            a = fn.args
            params = {x.arg for x in a.posonlyargs + a.args + a.kwonlyargs} | ({a.vararg.arg} if a.vararg else set()) | ({a.kwarg.arg} if a.kwarg else set())
            assigned, excluded = set(), set()
            for n in walk_local(fn):
                assigned.update(targets(n))
                if isinstance(n, (ast.For, ast.AsyncFor, ast.While)):
                    # a name bound in a loop body is used after the loop on the understanding that the loop ran
                    for x in ast.walk(n):
                        excluded.update(targets(x))
                    if not isinstance(n, ast.While):
                        excluded.update(x.id for x in ast.walk(n.target) if isinstance(x, ast.Name))
                elif isinstance(n, (ast.With, ast.AsyncWith)):
                    excluded.update(x.id for it in n.items if it.optional_vars is not None for x in ast.walk(it.optional_vars) if isinstance(x, ast.Name))
                elif isinstance(n, ast.ExceptHandler) and n.name:
                    excluded.add(n.name)
                elif isinstance(n, (ast.MatchAs, ast.MatchStar)) and n.name:
                    excluded.add(n.name)
                elif isinstance(n, ast.comprehension):
                    excluded.update(x.id for x in ast.walk(n.target) if isinstance(x, ast.Name))
                    # names bound by := inside the comprehension's conditions
                    excluded.update(t for c_ in n.ifs for x in ast.walk(c_) if isinstance(x, ast.NamedExpr) for t in targets(x))
                elif isinstance(n, (ast.Import, ast.ImportFrom)):
                    excluded.update((al.asname or al.name).split('.')[0] for al in n.names)
                elif isinstance(n, FUNC + (ast.ClassDef,)) and n is not fn:
                    excluded.add(n.name)
                elif isinstance(n, (ast.Global, ast.Nonlocal)):
                    excluded.update(n.names)
            cand = assigned - params - excluded
            if not cand or not any(isinstance(r, ast.Return) and r.value is not None for r in walk_local(fn)):
                continue
            hits = []

            class D(paths.Domain):
                def event(self, node, v):
                    if not isinstance(node, ast.AST):
                        return (v,)
                    if isinstance(node, ast.Return) and node.value is not None:
                        for x in ast.walk(node.value):
                            if isinstance(x, ast.Name) and isinstance(x.ctx, ast.Load) and x.id in cand and x.id not in v:
                                hits.append((x.id, node.lineno))
                    ts = targets(node) + [t for x in ast.walk(node) if isinstance(x, ast.NamedExpr) for t in targets(x)]
                    return ((v | frozenset(ts)) if ts else v,)

                def assume(self, atom, truth, v):
                    ts = [t for x in ast.walk(atom) if isinstance(x, ast.NamedExpr) for t in targets(x)]
                    return ((v | frozenset(ts)) if ts else v,)
            try:
                paths.run(fn, D(), frozenset())
            except AnalysisError:
                continue
            n_fn += 1
            for name, line in sorted(set(hits)):
                R.bad(rule, f'{p.qual_of(fn)} | {name}', f'`{name}` is returned at line {line} on a path that never assigned it: for the inputs taking that path (a code without a dedicated class) the parser raises UnboundLocalError instead of returning a value', m.rel + f':{line}')
    R.check(n_fn >= 150, rule, 'codec modules | functions with branch-assigned results', f'{n_fn} functions analysed, every returned local assigned on every path', f'only {n_fn} functions analysed')


def sdp_depth(ctx):
    from . import c17
    c17.depth_balance(ctx, rule='C18.sdp-depth')


def length_prefix(ctx):
    """A length-prefixed string is prefixed with the length of exactly the bytes that follow."""
    R, p = ctx.r, ctx.p
    rule = 'C18.length-prefix'
    n = 0
    for mod in ('bumble.avrcp', 'bumble.avdtp', 'bumble.sdp', 'bumble.hfp', 'bumble.a2dp', 'bumble.avc', 'bumble.avctp'):
        m = p.module(mod)
        if m is None:
            continue
        for fn in [x for x in ast.walk(m.tree) if isinstance(x, FUNC)]:
            defs = {t.id: n_.value for n_ in walk_local(fn) if isinstance(n_, ast.Assign) and len(n_.targets) == 1 for t in n_.targets if isinstance(t, ast.Name)}

            def res(e, depth=0):
                while isinstance(e, ast.Name) and e.id in defs and depth < 4:
                    e, depth = defs[e.id], depth + 1
                return e
            for r in [x for x in walk_local(fn) if isinstance(x, ast.Return) and isinstance(x.value, ast.BinOp) and isinstance(x.value.op, ast.Add)]:
                left, right = res(r.value.left), res(r.value.right)
                # left: len(X).to_bytes(...) or bytes([len(X)]) or struct.pack(fmt, len(X))
                lens = [c for c in ast.walk(left) if isinstance(c, ast.Call) and dotted(c.func) == 'len' and c.args]
                if len(lens) != 1 or not any(isinstance(c, ast.Call) and (call_attr(c) == 'to_bytes' or dotted(c.func) in ('bytes', 'struct.pack')) for c in ast.walk(left)):
                    continue
                measured = res(lens[0].args[0])
                raw_m, raw_r = lens[0].args[0], r.value.right
                if '.encode(' not in norm(measured) + norm(right) and not (isinstance(raw_r, ast.Name) and isinstance(raw_m, ast.Name)):
                    continue  # an element count in front of a packed list is not a byte-length prefix
                n += 1
                R.check(norm(measured) == norm(right), rule, f'{p.qual_of(fn)} | length prefix', f'prefix = len({norm(measured)}) and the payload is that very value',
                        f'the length prefix counts `{norm(measured)}` but the bytes that follow are `{norm(right)}`: for values where the two differ (non-ASCII text) the reader cuts the field short and mis-frames everything after it', p.loc(r))
    R.check(n >= 1, rule, 'length-prefixed writers', f'{n} writers of the form len(x) + x examined', 'no length-prefixed writer found')
    # readers: data whose length byte sits at index k starts at k + 1  (v[a : a + v[k]] needs a == k + 1)

    def readers(tree):
        out = []
        for x in ast.walk(tree):
            if isinstance(x, ast.Subscript) and isinstance(x.slice, ast.Slice) and x.slice.lower is not None and x.slice.upper is not None and is_const(x.slice.lower):
                up = x.slice.upper
                if isinstance(up, ast.BinOp) and isinstance(up.op, ast.Add) and is_const(up.left) and isinstance(up.right, ast.Subscript) and norm(up.right.value) == norm(x.value) and is_const(up.right.slice) and const(up.left) == const(x.slice.lower):
                    out.append((x, const(x.slice.lower), const(up.right.slice)))
        return out
    ctl = readers(ast.parse('v[1:1 + v[1]]', mode='eval'))
    m_ = 0
    for mod in CODEC_MODS:
        m = p.modules.get(mod)
        for x, a, k in (readers(m.tree) if m else []):
            m_ += 1
            R.check(a == k + 1, rule, f'{p.qual_of(x)} | {norm(x)}', f'data read from {a}, right after its length byte at {k}',
                    f'`{norm(x)}` reads data whose length byte is at index {k} starting at index {a}: the slice contains the length byte itself (or skips data) and a frame with such data does not round-trip', m.rel + f':{x.lineno}')
    R.check(len(ctl) == 1 and ctl[0][1:] == (1, 1) and m_ >= 1, rule, 'length-prefixed readers', f'{m_} reader(s) of the form v[a : a + v[k]] examined (control matched)', f'reader census {m_}, control {ctl}')


def avdtp_fragments(ctx):
    from . import c19
    c19.avdtp_single(ctx, rule='C18.avdtp-fragments')


def decorator_order_rule(ctx):
    from .. import generic_rules as g
    g.decorator_order(ctx, 'C18.decorator-order', ['bumble.l2cap', 'bumble.att', 'bumble.smp', 'bumble.sdp', 'bumble.rfcomm', 'bumble.avdtp', 'bumble.avctp', 'bumble.avrcp', 'bumble.avc', 'bumble.a2dp', 'bumble.core'])


def division_guard_rule(ctx):
    from ..generic_rules import division_guard
    division_guard(ctx, 'C18.division-guard', ['bumble.avrcp', 'bumble.avdtp', 'bumble.avctp', 'bumble.a2dp', 'bumble.sdp', 'bumble.rfcomm', 'bumble.l2cap', 'bumble.att', 'bumble.smp', 'bumble.rtp', 'bumble.core'])


def bytes_of_number_rule(ctx):
    from ..generic_rules import bytes_of_number
    bytes_of_number(ctx, 'C18.bytes-of-number', ['bumble.l2cap', 'bumble.att', 'bumble.smp', 'bumble.sdp', 'bumble.rfcomm', 'bumble.avdtp', 'bumble.avctp', 'bumble.avrcp', 'bumble.a2dp', 'bumble.core', 'bumble.rtp'])


def class_identity_rule(ctx):
    from ..generic_rules import registered_class_identity
    registered_class_identity(ctx, 'C18.class-identity', ['bumble.l2cap', 'bumble.att', 'bumble.smp', 'bumble.sdp', 'bumble.avdtp', 'bumble.avrcp', 'bumble.avc', 'bumble.lmp', 'bumble.ll'])


def wire_fields_init_rule(ctx):
    from ..generic_rules import wire_fields_init
    wire_fields_init(ctx, 'C18.wire-fields-init', ['bumble.l2cap', 'bumble.att', 'bumble.smp', 'bumble.sdp', 'bumble.avdtp', 'bumble.avrcp', 'bumble.lmp'])


def open_enum_pure(ctx):
    """"whatever has been parsed or constructed earlier in the same process": the pseudo-member an open enum makes for an
    unlisted value depends on (class, value) only.  `_missing_` builds it afresh and touches no state outside its
    arguments -- a module-level memo keyed by the display name would hand ATT's ErrorCode[0x80] to SMP's ErrorCode."""
    R, p = ctx.r, ctx.p
    rule = 'C18.open-enum-pure'
    n = 0
    for q in ('bumble.utils.OpenIntEnum._missing_', 'bumble.hci.SpecableEnum._missing_', 'bumble.utils.CompatibleIntFlag._missing_'):
        fn = p.find(q)
        if fn is None:
            continue
        n += 1
        params = {a.arg for a in fn.args.args}
        local = {t.id for x in walk_local(fn) for t in ast.walk(x) if isinstance(t, ast.Name) and isinstance(t.ctx, ast.Store)}
        m = p.modules.get(q.rsplit('.', 2)[0])
        module_state = set()
        if m is not None:
            for st in m.tree.body:
                tg = st.targets if isinstance(st, ast.Assign) else [st.target] if isinstance(st, ast.AnnAssign) else []
                if isinstance(getattr(st, 'value', None), (ast.Dict, ast.List, ast.Set, ast.DictComp, ast.ListComp)) or (isinstance(getattr(st, 'value', None), ast.Call) and (dotted(st.value.func) or '').split('.')[-1] in ('dict', 'list', 'set', 'defaultdict', 'WeakValueDictionary', 'OrderedDict')):
                    module_state |= {t.id for t in tg if isinstance(t, ast.Name)}
        used = {x.id for x in walk_local(fn) if isinstance(x, ast.Name) and isinstance(x.ctx, ast.Load)} - params - local
        leaks = sorted(used & module_state) + [norm(x) for x in walk_local(fn) if isinstance(x, ast.Attribute) and isinstance(x.ctx, ast.Store) and dotted(x.value) == 'cls']
        R.check(not leaks, rule, q, 'builds the pseudo-member from its arguments only', f'_missing_ reads / writes state outside its arguments ({leaks}): what a value parses to depends on what was parsed before (same-named enums of different protocols collide)', p.loc(fn))
    R.check(n >= 1, rule, 'open enums | _missing_', f'{n} implementations examined', 'OpenIntEnum._missing_ not found')


def offset_contract(ctx):
    """Field parsers have the contract (data, offset) -> (new_offset, value) with offsets into the *same* buffer: the caller
    computes the field size as new_offset - offset.  A parser that slices the buffer and parses from 0 must add the base
    back; handing on the relative offset makes every following list entry start at the wrong place."""
    R, p = ctx.r, ctx.p
    rule = 'C18.offset-contract'
    n = 0
    for mn in ('bumble.hci', 'bumble.avrcp', 'bumble.avdtp', 'bumble.l2cap', 'bumble.att', 'bumble.sdp'):
        m = p.modules.get(mn)
        if m is None:
            continue
        for fn in [x for x in ast.walk(m.tree) if isinstance(x, FUNC)]:
            names = [a.arg for a in fn.args.args]
            if 'data' not in names or 'offset' not in names:
                continue
            rets = [r for r in walk_local(fn) if isinstance(r, ast.Return) and isinstance(r.value, ast.Tuple) and len(r.value.elts) == 2]
            if not rets:
                continue
            n += 1
            rebased = [c for c in calls_in(fn) if c.args and isinstance(c.args[0], ast.Subscript) and dotted(c.args[0].value) == 'data' and isinstance(c.args[0].slice, ast.Slice) and c.args[0].slice.lower is not None and norm(c.args[0].slice.lower) == 'offset' and any(isinstance(a, ast.Constant) and a.value == 0 for a in c.args[1:])]
            if not rebased:
                continue
            # the offset that comes back from such a call is relative: a returned offset must add the base
            ok = all(any(isinstance(x, ast.BinOp) and isinstance(x.op, ast.Add) for x in ast.walk(r.value.elts[0])) for r in rets)
            R.check(ok, rule, f'{p.qual_of(fn)}', 'adds the base back to the relative offset', f'{fn.name} parses from a slice `data[offset:]` at 0 and returns the offset it gets back unchanged: that offset is relative to the slice, the caller takes it as absolute, so the second and later entries of a list are parsed from the wrong position', p.loc(fn))
    R.check(n >= 5, rule, 'codec modules | (data, offset) field parsers', f'{n} parsers examined, none returns a slice-relative offset', f'only {n} parsers found')


def sdp_containment_rule(ctx):
    from .c17 import sdp_containment
    sdp_containment(ctx, 'C18.sdp-containment')


def config_options(ctx, rule='C18.config-options'):
    """L2CAP configuration options are type / length / value triplets with a 2-byte header.  The decoder reads the type and
    the length octets as they are, loops while a header is left (>= 2 bytes: the FCS option is only 3 bytes long), takes
    `length` value bytes and advances by 2 + length; the encoder writes exactly that layout."""
    R, p = ctx.r, ctx.p
    dec = p.find('bumble.l2cap.L2CAP_Control_Frame.decode_configuration_options')
    enc = p.find('bumble.l2cap.L2CAP_Control_Frame.encode_configuration_options')
    if dec is None or enc is None:
        R.bad(rule, 'bumble.l2cap.L2CAP_Control_Frame.decode_configuration_options / encode_configuration_options', 'anchor missing')
        return
    from ..sym import same_ineq
    loops = [n for n in walk_local(dec) if isinstance(n, ast.While)]
    R.check(len(loops) == 1 and same_ineq(loops[0].test, 'len(data) >= 2'), rule, 'bumble.l2cap.L2CAP_Control_Frame.decode_configuration_options | loop', 'runs while a 2-byte option header is left',
            f'the option loop runs under `{norm(loops[0].test) if loops else None}`, not `len(data) >= 2`: a trailing option shorter than that bound (the 3-byte FCS option, always sent last) is silently dropped, so only one end switches FCS on', p.loc(dec))
    d = {dotted(s_.targets[0]): s_.value for s_ in walk_local(dec) if isinstance(s_, ast.Assign) and len(s_.targets) == 1 and dotted(s_.targets[0])}
    ok = norm(d.get('value_type')) == 'data[0]' and norm(d.get('length')) == 'data[1]' if d.get('value_type') is not None and d.get('length') is not None else False
    R.check(ok, rule, 'bumble.l2cap.L2CAP_Control_Frame.decode_configuration_options | header', 'type = data[0], length = data[1], unmasked', f'the option header is read as type = {norm(d.get("value_type")) if d.get("value_type") is not None else None}, length = {norm(d.get("length")) if d.get("length") is not None else None}: a masked or shifted octet does not re-encode to the byte received (option types 0x80..0xFF lose their hint bit)', p.loc(dec))
    ok2 = d.get('value') is not None and slice_parts(d['value']) == ('data', '2', '2 + length') and d.get('data') is not None and slice_parts(d['data']) == ('data', '2 + length', None)
    R.check(ok2, rule, 'bumble.l2cap.L2CAP_Control_Frame.decode_configuration_options | value and advance', 'value = data[2:2 + length], then data = data[2 + length:]', 'value slice / advance of the option decoder changed', p.loc(dec))
    R.check("bytes([option[0], len(option[1])]) + option[1]" in norm(enc), rule, 'bumble.l2cap.L2CAP_Control_Frame.encode_configuration_options', 'type, length, value', 'the option encoder no longer writes type, length, value', p.loc(enc))


def media_type_position(ctx):
    """MediaCodecCapabilities serialises its media type as the whole first octet (bytes([media_type, codec_type])) and so
    reads it back as the whole first octet: a shift on one side only turns every type other than AUDIO (0) into AUDIO."""
    R, p = ctx.r, ctx.p
    rule = 'C18.media-type-position'
    ci = p.cls('bumble.avdtp.MediaCodecCapabilities')
    if ci is None:
        R.bad(rule, 'bumble.avdtp.MediaCodecCapabilities', 'anchor missing')
        return
    init, fb = ci.methods.get('__init__'), ci.methods.get('from_bytes')
    if init is None or fb is None:
        R.bad(rule, 'bumble.avdtp.MediaCodecCapabilities.__init__ / from_bytes', 'anchor missing')
        return
    ser = [x for x in ast.walk(init) if isinstance(x, ast.List) and len(x.elts) == 2 and norm(x.elts[0]) == 'self.media_type']
    shifted_w = [x for x in ast.walk(init) if isinstance(x, ast.BinOp) and isinstance(x.op, (ast.LShift, ast.RShift)) and 'media_type' in norm(x)]
    rd = [s_.value for s_ in walk_local(fb) if isinstance(s_, ast.Assign) and dotted(s_.targets[0]) == 'media_type']
    shifted_r = [x for v in rd for x in ast.walk(v) if isinstance(x, ast.BinOp) and isinstance(x.op, (ast.LShift, ast.RShift, ast.BitAnd))]
    reads_first = any(isinstance(x, ast.Subscript) and norm(x) == 'data[0]' for v in rd for x in ast.walk(v))
    R.check(bool(ser) and reads_first and (bool(shifted_w) == bool(shifted_r)), rule, 'bumble.avdtp.MediaCodecCapabilities | media type octet', 'written and read at the same position of the first octet',
            f'the media type is written {"shifted" if shifted_w else "as the whole first octet"} but read {"shifted / masked" if shifted_r else "as the whole first octet"}: any type other than 0 does not parse back', p.loc(fb))


def subunit_form(ctx):
    """avc.Frame: the serialiser chooses the one-byte subunit address for exactly the ids the parser reads from one byte
    (`id < 5 or id == 7`); everything else goes through the extension byte(s)."""
    R, p = ctx.r, ctx.p
    rule = 'C18.subunit-form'
    fb = p.find('bumble.avc.Frame.from_bytes')
    tb = p.find('bumble.avc.Frame.to_bytes')
    if fb is None or tb is None:
        R.bad(rule, 'bumble.avc.Frame.from_bytes / to_bytes', 'anchor missing')
        return

    def plain_test(fn, var):
        out = []
        for n_ in walk_local(fn):
            if isinstance(n_, ast.If) and var in norm(n_.test) and '5' in norm(n_.test):
                out.append(n_)
        return out[0] if out else None
    a, b = plain_test(fb, 'subunit_id'), plain_test(tb, 'self.subunit_id')
    if a is None or b is None:
        R.bad(rule, 'bumble.avc.Frame | plain-form test', 'from_bytes / to_bytes no longer branch on the subunit id: an extended id cannot be serialised in the form the parser accepts', p.loc(tb))
        return
    ta, tb_ = norm(a.test), norm(b.test).replace('self.subunit_id', 'subunit_id')
    R.check(ta == tb_, rule, 'bumble.avc.Frame | plain-form test', f'both use `{ta}`', f'the parser reads the one-byte form when `{ta}`, the serialiser writes it when `{tb_}`: an id in one set only (7 = "ignore", used by every UNIT INFO exchange) is re-serialised in another form than it was parsed from', p.loc(b))
    ext = [x for x in ast.walk(tb) if isinstance(x, ast.BinOp) and isinstance(x.op, ast.BitOr) and is_const(x.right) and const(x.right) == 5]
    R.check(len(ext) >= 2, rule, 'bumble.avc.Frame.to_bytes | extended forms', f'{len(ext)} extended forms (marker 5)', 'to_bytes has no extended form (marker 5 + extension bytes)', p.loc(tb))


def typeless_address(ctx):
    """An address data type whose wire form carries no address type (from_bytes builds `Address(data)` without one) fixes
    the type in its constructor with a constant: copying the argument's type makes the parsed value a random address (the
    default of Address()) whatever was encoded."""
    R, p = ctx.r, ctx.p
    rule = 'C18.typeless-address'
    n = 0
    for cn, ci in sorted(p.classes.items()):
        if not cn.startswith('bumble.data_types.') or not any(b.endswith('Address') for b in ci.bases):
            continue
        fb, init = ci.methods.get('from_bytes'), ci.methods.get('__init__')
        if fb is None or init is None:
            continue
        typeless = [c for c in calls_in(fb) if (dotted(c.func) or '').endswith('Address') and len(c.args) + len(c.keywords) == 1]
        if not typeless:
            continue
        n += 1
        sts = [s_ for s_ in walk_local(init) if isinstance(s_, ast.Assign) and dotted(s_.targets[0]) == 'self.address_type']
        ok = len(sts) == 1 and (dotted(sts[0].value) or '').endswith('_ADDRESS')
        R.check(ok, rule, f'{cn}.__init__ | address type', f'fixed to {dotted(sts[0].value) if ok else ""}', f'{ci.name} takes its address type from `{norm(sts[0].value) if sts else "?"}` but its wire form has none (from_bytes builds Address(data), which defaults to a random address): the parsed value differs in type from the one that was encoded', p.loc(init))
    R.check(n >= 2, rule, 'bumble.data_types | typeless address structures', f'{n} classes', f'only {n} found')


def padding_agreement(ctx):
    """A parser that removes padding from a field (`data.rstrip(pad)`) belongs to a serialiser that puts it back
    (`.ljust(size, pad)`): otherwise the padded wire form parses and re-serialises to shorter bytes.  Padding is removed on
    the side it is added (rstrip <-> ljust, lstrip <-> rjust); a two-sided strip() cannot be restored."""
    R, p = ctx.r, ctx.p
    rule = 'C18.padding-agreement'
    PAIR = {'rstrip': 'ljust', 'lstrip': 'rjust'}
    n = 0
    for mn in ('bumble.data_types', 'bumble.core', 'bumble.hci', 'bumble.gatt', 'bumble.att', 'bumble.sdp', 'bumble.rfcomm', 'bumble.avdtp', 'bumble.avrcp', 'bumble.avc', 'bumble.avctp', 'bumble.l2cap', 'bumble.smp'):
        m = p.modules.get(mn)
        if m is None:
            R.bad(rule, mn, 'anchor missing')
            continue
        for cn, ci in sorted(p.classes.items()):
            if ci.module is not m:
                continue
            fb = ci.methods.get('from_bytes')
            if fb is None:
                continue
            strips = [c for c in calls_in(fb) if call_attr(c) in ('strip', 'rstrip', 'lstrip') and isinstance(c.func.value, ast.Name) and c.func.value.id in [a.arg for a in fb.args.args]]
            for c in strips:
                n += 1
                ser = ci.methods.get('__bytes__') or ci.methods.get('to_bytes')
                want = PAIR.get(call_attr(c))
                ok = want is not None and ser is not None and any(call_attr(x) == want for x in calls_in(ser))
                R.check(ok, rule, f'{cn} | {norm(c)[:40]}', f'the serialiser pads with {want}()', f'{ci.name}.from_bytes removes padding with `{norm(c)[:50]}` but the serialiser does not put it back{"" if want else " (a two-sided strip() also removes leading octets, which no padding restores)"}: the padded wire form re-serialises to other (shorter) bytes', p.loc(c))
    ctl = ast.parse('class A:\n    @classmethod\n    def from_bytes(cls, data):\n        return cls(data.strip(b"\\0"))\n    def __bytes__(self):\n        return self.v\n')
    k = [c for c in ast.walk(ctl) if isinstance(c, ast.Call) and isinstance(c.func, ast.Attribute) and c.func.attr == 'strip']
    R.check(n >= 1 and len(k) == 1, rule, 'codec modules | parsers that remove padding', f'{n} site(s), each with a padding serialiser (positive control matched)', f'{n} sites found')


def no_constructor_range(ctx):
    """A data type whose from_bytes hands fixed-width integers straight to the constructor accepts every value of those
    widths: its constructor does not raise on a range check (sentinels such as 0xFFFF = "no specific value" are
    well-formed on the wire)."""
    R, p = ctx.r, ctx.p
    rule = 'C18.no-constructor-range'
    n = 0
    for cn, ci in sorted(p.classes.items()):
        if not cn.startswith('bumble.data_types.'):
            continue
        fb = ci.methods.get('from_bytes')
        if fb is None or not any(isinstance(c, ast.Call) and (dotted(c.func) or '').startswith('struct.unpack') for c in ast.walk(fb)):
            continue
        n += 1
        for ctor in [ci.methods.get('__post_init__'), ci.methods.get('__init__')]:
            if ctor is None:
                continue
            rs = [x for x in walk_local(ctor) if isinstance(x, ast.Raise)]
            R.check(not rs, rule, f'{cn}.{ctor.name}', 'no validation that rejects values', f'{ci.name}.{ctor.name} raises on some values of its fixed-width fields: a structure carrying them (a sentinel like 0xFFFF) can neither be built nor parsed, although it is well-formed', p.loc(rs[0]) if rs else p.loc(ctor))
    R.check(n >= 1, rule, 'bumble.data_types | fixed-width structures', f'{n} classes', f'only {n} found')


def avdtp_start_layout(ctx):
    """The two halves of the AVDTP fragmentation codec agree on the START packet header: the sender writes
    [header, signal identifier, packet count]; the assembler reads the signal identifier and the count at those indices."""
    R, p = ctx.r, ctx.p
    rule = 'C18.avdtp-start-layout'
    snd = p.find('bumble.avdtp.Protocol.send_message')
    rcv = p.find('bumble.avdtp.MessageAssembler.on_pdu')
    if snd is None or rcv is None:
        R.bad(rule, 'bumble.avdtp.Protocol.send_message / MessageAssembler.on_pdu', 'anchor missing')
        return
    lists = [c.args[0] for c in ast.walk(snd) if isinstance(c, ast.Call) and dotted(c.func) == 'bytes' and c.args and isinstance(c.args[0], ast.List) and len(c.args[0].elts) == 3]
    if len(lists) != 1:
        R.bad(rule, 'bumble.avdtp.Protocol.send_message | START header', f'{len(lists)} three-octet headers (anchor)', p.loc(snd))
        return
    elts = [norm(e) for e in lists[0].elts]
    i_sig = next((i for i, e in enumerate(elts) if 'signal_identifier' in e), None)
    i_cnt = next((i for i, e in enumerate(elts) if 'count' in e), None)
    sig_reads = sorted({const(s_.slice) for st in walk_local(rcv) if isinstance(st, ast.Assign) and dotted(st.targets[0]) == 'self.signal_identifier' for s_ in ast.walk(st.value) if isinstance(s_, ast.Subscript) and dotted(s_.value) == 'pdu' and is_const(s_.slice)})
    cnt_reads = sorted({const(s_.slice) for st in walk_local(rcv) if isinstance(st, ast.Assign) and dotted(st.targets[0]) == 'self.number_of_signal_packets' for s_ in ast.walk(st.value) if isinstance(s_, ast.Subscript) and dotted(s_.value) == 'pdu' and is_const(s_.slice)})
    R.check(sig_reads == [i_sig] and cnt_reads == [i_cnt], rule, 'bumble.avdtp | START packet header', f'signal identifier at {i_sig}, packet count at {i_cnt} on both sides', f'the sender writes the signal identifier at octet {i_sig} and the count at octet {i_cnt}, the assembler reads them at {sig_reads} and {cnt_reads}: a fragmented message is reassembled with the wrong identifier / count and never delivered', p.loc(rcv))


def sdp_int_widths(ctx):
    """The four places that convert an SDP integer (parse / serialise, unsigned / signed) accept the same widths, and those
    are the widths the size-index table of DataElement.__bytes__ has for integers (1, 2, 4, 8, 16 octets)."""
    R, p = ctx.r, ctx.p
    rule = 'C18.sdp-int-widths'
    ser = p.find('bumble.sdp.DataElement.__bytes__')
    pu = p.find('bumble.sdp.DataElement.unsigned_integer_from_bytes')
    ps = p.find('bumble.sdp.DataElement.signed_integer_from_bytes')
    if ser is None or pu is None or ps is None:
        R.bad(rule, 'bumble.sdp.DataElement integer codecs', 'anchor missing')
        return

    def widths(match_):
        return sorted(const(c.pattern.value) for c in match_.cases if isinstance(c.pattern, ast.MatchValue) and is_const(c.pattern.value) and isinstance(const(c.pattern.value), int))
    got = {}
    for label, fn in (('parse unsigned', pu), ('parse signed', ps)):
        ms = [m_ for m_ in walk_local(fn) if isinstance(m_, ast.Match)]
        got[label] = widths(ms[0]) if ms else []
    for m_ in [x for x in walk_local(ser) if isinstance(x, ast.Match) and norm(x.subject) == 'self.value_size']:
        kind = 'unsigned' if any('>Q' in norm(c) or "'B'" in norm(c) for c in ast.walk(m_) if isinstance(c, ast.Call)) else 'signed'
        got[f'serialise {kind}'] = widths(m_)
    # the size-index table: sizes compared with `size` in the integer / UUID arm
    table = sorted({const(c.comparators[0]) for c in ast.walk(ser) if isinstance(c, ast.Compare) and norm(c.left) == 'size' and isinstance(c.ops[0], (ast.Eq, ast.LtE)) and is_const(c.comparators[0]) and const(c.comparators[0]) in (1, 2, 4, 8, 16)})
    R.check(len(got) == 4 and table == [1, 2, 4, 8, 16], rule, 'bumble.sdp.DataElement | integer codecs', f'4 conversions, size table {table}', f'{sorted(got)} / size table {table} (anchor)', p.loc(ser))
    for label, w in sorted(got.items()):
        R.check(w == table, rule, f'bumble.sdp.DataElement | {label}', f'widths {w}', f'{label} handles widths {w} but an SDP integer may be {table} octets wide: a well-formed element of a missing width cannot be parsed / built', p.loc(ser))


def bytes_not_via_str(ctx):
    """The str-based data types override __str__ with the debug rendering (`Uri('...')`): their __bytes__ encodes the value
    itself (`self.encode(...)`), never `str(self)` / an f-string of self."""
    R, p = ctx.r, ctx.p
    rule = 'C18.bytes-not-via-str'
    n = 0
    for cn, ci in sorted(p.classes.items()):
        if not cn.startswith('bumble.data_types.') or '__bytes__' not in ci.methods:
            continue
        has_str = any('__str__' in x.methods for x in p.mro(cn) if x.qual.startswith('bumble.'))
        if not has_str:
            continue
        n += 1
        fn = ci.methods['__bytes__']
        bad = [c for c in calls_in(fn) if dotted(c.func) in ('str', 'repr', 'format') and c.args and norm(c.args[0]) == 'self'] + [v for v in ast.walk(fn) if isinstance(v, ast.FormattedValue) and norm(v.value) == 'self']
        R.check(not bad, rule, f'{cn}.__bytes__', 'encodes the value itself', f'{ci.name}.__bytes__ goes through `{norm(bad[0])[:30] if bad else ""}`, and str() of these types is the debug rendering (label and quotes): the structure is serialised as that text, not as its value', p.loc(bad[0]) if bad else p.loc(fn))
    R.check(n >= 10, rule, 'bumble.data_types | types with __bytes__ and an overridden __str__', f'{n}', f'only {n} found')


RULES = [
    ('C18.bytes-not-via-str', bytes_not_via_str),
    ('C18.sdp-int-widths', sdp_int_widths),
    ('C18.avdtp-start-layout', avdtp_start_layout),
    ('C18.no-constructor-range', no_constructor_range),
    ('C18.padding-agreement', padding_agreement),
    ('C18.typeless-address', typeless_address),
    ('C18.subunit-form', subunit_form),
    ('C18.media-type-position', media_type_position),
    ('C18.config-options', config_options),
    ('C18.sdp-containment', sdp_containment_rule),
    ('C18.offset-contract', offset_contract),
    ('C18.open-enum-pure', open_enum_pure),
    ('C18.wire-fields-init', wire_fields_init_rule),
    ('C18.class-identity', class_identity_rule),
    ('C18.bytes-of-number', bytes_of_number_rule),
    ('C18.division-guard', division_guard_rule),
    ('C18.decorator-order', decorator_order_rule),
    ('C18.avdtp-fragments', avdtp_fragments),
    ('C18.sdp-depth', sdp_depth),
    ('C18.length-prefix', length_prefix),
    ('C18.fields', fields_rule),
    ('C18.registry', registry),
    ('C18.bits', bits_rule),
    ('C18.and-disjoint', and_disjoint),
    ('C18.stride', stride),
    ('C18.ctor-coverage', ctor_coverage),
    ('C18.interning', interning),
    ('C18.sdp-tables', sdp_tables),
    ('C18.generic', generic),
    ('C18.rtp-tail', rtp_tail),
    ('C18.fresh-values', fresh_values),
    ('C18.enum-distinct', enum_distinct),
    ('C18.defined-at-return', defined_at_return),
]

VARIANTS = [
    ('S-frame poll/final swapped on parse', 'bumble/l2cap.py', "            poll=(data[0] >> 4) & 0b1,\n            final=(data[0] >> 7) & 0b1,\n", "            poll=(data[0] >> 7) & 0b1,\n            final=(data[0] >> 4) & 0b1,\n", 'fire', 'C18.bits'),
    ('MSC rtr bit moved', 'bumble/rfcomm.py', "rtr=data[1] >> 3 & 1,", "rtr=data[1] >> 4 & 1,", 'fire', 'C18.bits'),
    ('extended length AND-ed again', 'bumble/rfcomm.py', "            length = (data[3] << 7) | (length >> 1)\n", "            length = (data[3] << 7) & (length >> 1)\n", 'fire', 'C18.and-disjoint'),
    ('csrc stride 1 again', 'bumble/rtp.py', "12 + 4 * i", "12 + i", 'fire', 'C18.stride'),
    ('from_bytes forgets with_credits', 'bumble/rfcomm.py', "            information,\n            with_credits=(frame_type == FrameType.UIH and p_f == 1),\n        )", "            information,\n        )", 'fire', 'C18.ctor-coverage'),
    ('uuid interning by equality', 'bumble/core.py', "            if self.uuid_bytes == uuid.uuid_bytes:\n", "            if self == uuid:\n", 'fire', 'C18.interning'),
    ('sdp 16-bit size read little-endian', 'bumble/sdp.py', "                value_size = struct.unpack_from('>H', self.data, self.offset)[0]\n", "                value_size = struct.unpack_from('<H', self.data, self.offset)[0]\n", 'fire', 'C18.sdp-tables'),
    ('smp unknown payload keeps the code', 'bumble/smp.py', "            instance.payload = pdu[1:]\n            return instance", "            instance.payload = pdu\n            return instance", 'fire', 'C18.generic'),
    ('AD walk needs two more bytes', 'bumble/core.py', "        while offset + 1 < len(data):", "        while offset + 2 < len(data):", 'fire', 'C18.generic'),
    ('benign: rename local in rtp', 'bumble/rtp.py', "        ssrc = struct.unpack_from('>I', data, 8)[0]\n", "        ssrc = struct.unpack_from('>I', data, 8)[0]  # synchronization source\n", 'silent', ''),
]
