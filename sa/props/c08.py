"""C08 — classic L2CAP channels (Basic / ERTM)."""
from __future__ import annotations

import ast

from .. import bits, paths
from ..core import call_attr, calls_in, const, dotted, is_const, kwarg, norm, slice_parts, text, walk_local

EXPLANATION = [
    'C08.allocator-scan: every CID a find_free_* allocator returns was individually tested `not in` the table it was given (shared with C09; includes find_free_br_edr_cid).',
    'C08.processor-arguments: ChannelManager.make_mode_processor passes its peer_* parameters (peer_mps in particular) to the ERTM processor unmodified.',
    'C08.reset-before-sink: EnhancedRetransmissionProcessor.on_pdu empties its reassembly buffer before the completed SDU is handed to the channel on every path.',
    'C08.frames-via-channel: every frame sent by a *Processor class of bumble.l2cap goes through self.channel.send_pdu (which applies the negotiated FCS); none is handed to the channel manager directly.',
    "C08.disconnecting-stays-registered: the failure handler of create_classic_channel does not remove a channel that is in WAIT_DISCONNECT: the peer's Disconnection Response still finds it and closes it, so a mode mismatch ends with both ends closed.",
    'C08.config-options: (shared with C18) the configuration-option decoder loops while a 2-byte header is left and takes exactly the announced value bytes: the 3-byte FCS option (always last) is never dropped, so both ends agree on the FCS setting.',
    'C08.piggyback-ack: every site of EnhancedRetransmissionProcessor that serialises a pending I-frame sets its req_seq from the current receive state (self._req_seq_num) first.',
    'C08.fcs-negotiation: FCS negotiation converges: a refusal of the FCS option suggests a value the refusing side accepts (never an echo), a request for no FCS is always accepted, and the requester adopts the suggested setting into fcs_enabled before it configures again.',
    'C08.bytes-of-number: no single-argument bytes() call is applied to a flag (an attribute or parameter declared bool, a comparison, a boolean expression): bytes(True) is one zero byte, not the byte 0x01.',
    'C08.one-shot: no name bound to a generator expression or to filter() / map() / zip() / reversed() / enumerate() is read in more than one consuming position or inside a loop that evaluates it repeatedly: such an iterator is empty after its first walk.',
    'C08.response-echo: both channel classes answer a Disconnection Request by echoing the request\'s own destination_cid and source_cid (same rule as C09.response-echo): with different CIDs at the two ends the requester still finds the channel that asked, so a failed set-up ends with both ends closed.',
    'C08.poll: the receiver-ready poll carries P=1 (F=0), both bits are forwarded into the S-frame, a frame received with P=1 is answered with F=1, and a frame with F=1 cancels the sender\'s monitor timer and resumes output on every path of _update_ack_seq that does not reject the acknowledgement (also when it acknowledges nothing new): the poll/final handshake closes.',
    'C08.peer-params: the TxWindow / MaxTransmit / MPS the ERTM sender obeys are the ones unpacked from the peer\'s Configure Request (same field order as packed), forwarded by name through the factory and stored under their own names.',
    'C08.ctrl-bits: parse and serialise bit layouts of the I-frame and S-frame '
    'enhanced control fields agree field by field and no two serialised fields '
    'share a bit.',
    'C08.seq: MAX_SEQ_NUM == 1 << width(tx_seq) == 1 << width(I-frame req_seq); '
    '_get_next_tx_seq is the only writer of _next_tx_seq and every pending PDU '
    'takes its tx_seq from it; all sequence arithmetic is reduced mod MAX_SEQ_NUM.',
    'C08.window: I-frames are sent only from _process_output, inside an islice '
    'bounded by peer_tx_window_size - len(_tx_window); the window grows only '
    'there and an acknowledgement removes exactly num_frames_acked (<= len) entries.',
    'C08.ack: every accepted in-sequence I-frame leads to an acknowledgement on every path; a poll is answered with a final.',
    'C08.segmentation: stride == slice width == peer_mps; SAR decided from '
    'offsets; SDU length is written only with START and skipped only for START.',
    'C08.fcs: FCS appended and counted in the length under the same flag it is '
    'stripped under.',
    'C08.config-fsm: both transitions to OPEN resolve the connection result and '
    'emit open; mode mismatch aborts the result and disconnects.',
    'Not decided: exactly-once in-order delivery and wrap-around behaviour (runtime).',
]
ASSUMPTIONS = ['retransmission is not implemented in the code base (TODO in source): loss-free lower layer']

ERTM = 'bumble.l2cap.EnhancedRetransmissionProcessor'
IF = 'bumble.l2cap.InformationEnhancedControlField'
SF = 'bumble.l2cap.SupervisoryEnhancedControlField'
CC = 'bumble.l2cap.ClassicChannel'


def layouts(p, R, rule, q):
    ci = p.cls(q)
    if ci is None or 'from_bytes' not in ci.methods or '__bytes__' not in ci.methods:
        R.bad(rule, q, f'anchor missing: {q}.from_bytes/__bytes__')
        return None, None
    P = bits.parse_layout(ci.methods['from_bytes'])
    S, clashes = bits.ser_layout(ci.methods['__bytes__'])
    return (P, S, clashes, ci)


def ctrl_bits(ctx):
    R, p = ctx.r, ctx.p
    rule = 'C08.ctrl-bits'
    for q, want in ((IF, {'tx_seq', 'final', 'req_seq', 'sar'}), (SF, {'supervision_function', 'poll', 'final', 'req_seq'})):
        r = layouts(p, R, rule, q)
        if r[0] is None:
            continue
        P, S, clashes, ci = r
        for f in sorted(want):
            if f not in P or f not in S:
                R.bad(rule, f'{q}.{f}', f'field `{f}` not found on {"parse" if f not in P else "serialise"} side (layout not recognised)', p.loc(ci.node))
        probs = {f: msg for f, _, _, msg in bits.compare(P, S)}
        for f in sorted(set(P) & set(S)):
            R.check(f not in probs, rule, f'{q}.{f}', f'byte {P[f][0]} bit {P[f][1]} width {P[f][2]} on both sides', f'{f}: {probs.get(f)}', p.loc(ci.node))
        for idx, sh, f1, f2 in clashes:
            R.bad(rule, f'{q} | overlap {f1}/{f2}', f'`{f1}` and `{f2}` are both serialised at bit {sh} of byte {idx}', p.loc(ci.methods['__bytes__']))
        for f1, f2, b in bits.overlaps(P):
            R.bad(rule, f'{q} | parse overlap {f1}/{f2}', f'`{f1}` and `{f2}` are parsed from overlapping bits of byte {b}', p.loc(ci.methods['from_bytes']))
    # dispatch on the frame-type bit
    ecf = p.find('bumble.l2cap.EnhancedControlField.from_bytes')
    if ecf is None:
        R.bad(rule, 'bumble.l2cap.EnhancedControlField.from_bytes', 'anchor missing')
    else:
        ft = [norm(n.value) for n in walk_local(ecf) if isinstance(n, ast.Assign) and dotted(n.targets[0]) == 'frame_type']
        R.check(ft == ['data[0] & 1'], rule, 'bumble.l2cap.EnhancedControlField.from_bytes | frame type bit', 'frame type = data[0] & 1 (bit 0, where both classes serialise frame_type)', f'frame type read as {ft}', p.loc(ecf))
    R.floor(rule, 9, 'bit fields')


def seq(ctx):
    R, p = ctx.r, ctx.p
    rule = 'C08.seq'
    ci = p.cls(ERTM)
    if ci is None:
        R.bad(rule, ERTM, f'anchor missing: {ERTM}')
        return
    try:
        maxseq = const(ci.assigns['MAX_SEQ_NUM'])
    except Exception:
        R.bad(rule, f'{ERTM}.MAX_SEQ_NUM', 'anchor missing: MAX_SEQ_NUM')
        return
    r = layouts(p, R, rule, IF)
    if r[0] is not None:
        P = r[0]
        for f in ('tx_seq', 'req_seq'):
            w = P.get(f, (None, None, None))[2]
            R.check(w is not None and maxseq == 1 << w, rule, f'{ERTM}.MAX_SEQ_NUM vs {f}', f'{maxseq} == 1 << {w}', f'MAX_SEQ_NUM={maxseq} but I-frame {f} has {w} bits', '')
    # single writer
    writers = []
    for name, m in ci.methods.items():
        for n in walk_local(m):
            if isinstance(n, (ast.Assign, ast.AugAssign)):
                tg = n.targets if isinstance(n, ast.Assign) else [n.target]
                if any(dotted(t) == 'self._next_tx_seq' for t in tg):
                    writers.append((name, n))
    R.check([w[0] for w in writers] == ['_get_next_tx_seq'], rule, f'{ERTM}._next_tx_seq | single writer', 'only _get_next_tx_seq advances the transmit sequence number', f'_next_tx_seq written in {[w[0] for w in writers]}', p.loc(ci.node))
    for name, n in writers:
        if name == '_get_next_tx_seq':
            R.check(isinstance(n, ast.Assign) and norm(n.value) == '(self._next_tx_seq + 1) % self.MAX_SEQ_NUM', rule, f'{ERTM}._get_next_tx_seq | +1 mod', 'advances by one modulo MAX_SEQ_NUM', f'advance is `{norm(n)}`', p.loc(n))
    g = ci.methods.get('_get_next_tx_seq')
    if g is not None:
        rets = [norm(n.value) for n in walk_local(g) if isinstance(n, ast.Return)]
        first = [norm(n.value) for n in walk_local(g) if isinstance(n, ast.Assign) and dotted(n.targets[0]) == 'seq_num']
        R.check(rets == ['seq_num'] and first == ['self._next_tx_seq'], rule, f'{ERTM}._get_next_tx_seq | returns pre-increment value', 'returns the value before the increment', f'returns {rets} (seq_num = {first})', p.loc(g))
    n_pdus = 0
    for name, m in ci.methods.items():
        for c in calls_in(m):
            if call_attr(c) == '_PendingPdu':
                n_pdus += 1
                t = kwarg(c, 'tx_seq')
                R.check(t is not None and norm(t) == 'self._get_next_tx_seq()', rule, f'{ERTM}.{name} | _PendingPdu.tx_seq #{n_pdus}', 'takes the next sequence number at creation', f'tx_seq = {text(t)}', p.loc(c))
    R.check(n_pdus >= 2, rule, f'{ERTM} | pending PDU sites', f'{n_pdus}', f'only {n_pdus} _PendingPdu constructions found')
    # modular arithmetic on receive side
    onp = ci.methods.get('on_pdu')
    upd = ci.methods.get('_update_ack_seq')
    if onp is not None:
        v = [norm(n.value) for n in walk_local(onp) if isinstance(n, ast.Assign) and dotted(n.targets[0]) == 'self._req_seq_num']
        R.check(v == ['(control_field.tx_seq + 1) % self.MAX_SEQ_NUM'], rule, f'{ERTM}.on_pdu | expected seq', 'next expected = (tx_seq + 1) mod MAX_SEQ_NUM', f'_req_seq_num = {v}', p.loc(onp))
        guards = [norm(n.test) for n in walk_local(onp) if isinstance(n, ast.If)]
        R.check('control_field.tx_seq != self._req_seq_num' in guards, rule, f'{ERTM}.on_pdu | in-sequence test', 'out-of-sequence I-frames are not delivered', 'I-frame accepted without comparing tx_seq with the expected sequence number', p.loc(onp))
    if upd is not None:
        v = [norm(n.value) for n in walk_local(upd) if isinstance(n, ast.Assign) and dotted(n.targets[0]) == 'num_frames_acked']
        R.check(v == ['(new_seq - self._last_acked_tx_seq) % self.MAX_SEQ_NUM'], rule, f'{ERTM}._update_ack_seq | acked count', 'acked = (req_seq - last_acked) mod MAX_SEQ_NUM', f'num_frames_acked = {v}', p.loc(upd))


def window(ctx, rule='C08.window'):
    R, p = ctx.r, ctx.p
    ci = p.cls(ERTM)
    if ci is None:
        R.bad(rule, ERTM, f'anchor missing: {ERTM}')
        return
    callers = sorted({name for name, m in ci.methods.items() for c in calls_in(m, include_lambda=True) if dotted(c.func) == 'self._send_i_frame'})
    R.check(callers == ['_process_output'], rule, f'{ERTM}._send_i_frame | callers', 'only _process_output sends I-frames', f'_send_i_frame called from {callers}', '')
    appenders = sorted({name for name, m in ci.methods.items() for c in calls_in(m) if dotted(c.func) in ('self._tx_window.append', 'self._tx_window.extend', 'self._tx_window.insert')})
    R.check(appenders == ['_send_i_frame'], rule, f'{ERTM}._tx_window | growth', 'window grows only when an I-frame is sent', f'_tx_window grows in {appenders}', '')
    po = ci.methods.get('_process_output')
    if po is None:
        R.bad(rule, f'{ERTM}._process_output', 'anchor missing')
        return
    ok = False
    for lp in walk_local(po):
        if isinstance(lp, ast.For) and isinstance(lp.iter, ast.Call) and call_attr(lp.iter) == 'islice' and len(lp.iter.args) == 2:
            src, bound = norm(lp.iter.args[0]), lp.iter.args[1]
            bdef = [norm(n.value) for n in walk_local(po) if isinstance(n, ast.Assign) and dotted(n.targets[0]) == dotted(bound)]
            sends = [c for c in calls_in(lp) if dotted(c.func) == 'self._send_i_frame']
            if src == 'self._pending_pdus' and bdef == ['self.peer_tx_window_size - len(self._tx_window)'] and len(sends) == 1 and dotted(sends[0].args[0]) == dotted(lp.target):
                ok = True
                # the sent prefix is dropped from the pending list
                keep = [slice_parts(n.value) for n in walk_local(po) if isinstance(n, ast.Assign) and dotted(n.targets[0]) == 'self._pending_pdus']
                R.check(keep == [('self._pending_pdus', dotted(bound), None)], rule, f'{ERTM}._process_output | pending prefix dropped', 'pending = pending[n:] with the same n', f'pending list update is {keep}', p.loc(po))
    R.check(ok, rule, f'{ERTM}._process_output | bounded by window', 'at most peer_tx_window_size - len(_tx_window) I-frames are sent', 'I-frame burst is not bounded by the free part of the peer\'s transmit window', p.loc(po))
    upd = ci.methods.get('_update_ack_seq')
    if upd is not None:
        dels = [n for n in walk_local(upd) if isinstance(n, ast.Delete)]
        ok = len(dels) == 1 and slice_parts(dels[0].targets[0]) == ('self._tx_window', '0', 'num_frames_acked')
        R.check(ok, rule, f'{ERTM}._update_ack_seq | removes acked', 'del _tx_window[:num_frames_acked]', 'acknowledgement does not remove exactly the acknowledged prefix', p.loc(upd))
        if dels:
            g = [(norm(t), pol) for t, pol in paths.flat_guards(dels[0])]
            R.check(('num_frames_acked > len(self._tx_window)', False) in g, rule, f'{ERTM}._update_ack_seq | bounded', 'acknowledged count is checked against the window length first', f'removal not guarded by num_frames_acked <= len(window): {g}', p.loc(dels[0]))
        R.check(any(dotted(c.func) == 'self._process_output' for c in calls_in(upd)), rule, f'{ERTM}._update_ack_seq | resumes output', 'output resumes after the window opens', 'acknowledgement does not resume output', p.loc(upd))


def ack(ctx):
    """Every accepted I-frame is acknowledged: after the expected sequence
    number advances, every normal exit of on_pdu has either sent a frame
    carrying the new req_seq (S-frame, or an I-frame from the sink) or passed
    the `_req_seq_num != _last_acked_rx_seq` test that decides it."""
    R, p = ctx.r, ctx.p
    rule = 'C08.ack'
    ci = p.cls(ERTM)
    onp = ci.methods.get('on_pdu') if ci else None
    if onp is None:
        R.bad(rule, f'{ERTM}.on_pdu', 'anchor missing')
        return

    class D(paths.Domain):
        def event(self, node, v):
            if isinstance(node, ast.Assign) and any(dotted(t) == 'self._req_seq_num' for t in node.targets):
                return ('advanced',)
            if isinstance(node, ast.Call) and dotted(node.func) in ('self._send_s_frame', 'self._send_i_frame'):
                return ('acked',) if v == 'advanced' else (v,)
            return (v,)

        def assume(self, atom, truth, v):
            t = norm(atom)
            if v == 'advanced' and t in ('self._req_seq_num != self._last_acked_rx_seq', 'self._last_acked_rx_seq != self._req_seq_num'):
                # true branch must send; false branch means an I-frame already carried the ack
                return ('must-send',) if truth else ('acked',)
            return (v,)

    class D2(D):
        def event(self, node, v):
            if v == 'must-send' and isinstance(node, ast.Call) and dotted(node.func) in ('self._send_s_frame', 'self._send_i_frame'):
                return ('acked',)
            return super().event(node, v)

    res = paths.run(onp, D2(), 'init')
    bad = [f'{k} via {" ".join(w)}' for k, st in res.items() if not k.startswith('raise') for v, w in st.items() if v in ('advanced', 'must-send')]
    R.check(not bad, rule, f'{ERTM}.on_pdu | every accepted I-frame is acknowledged', 'after the expected sequence number advances every exit acknowledges (S-frame RR or piggy-backed on an I-frame)',
            'an in-sequence I-frame can be accepted without any acknowledgement being sent: the peer\'s transmit window never reopens (stall when an SDU needs more segments than the window)', p.loc(onp), bad)
    # the poll bit is answered with a final
    polls = [n for n in walk_local(onp) if isinstance(n, ast.If) and norm(n.test) == 'control_field.poll']
    ok = len(polls) == 1 and any(dotted(c.func) == 'self._send_s_frame' and norm(kwarg(c, 'final')) == '1' for c in calls_in(polls[0]))
    R.check(ok, rule, f'{ERTM}.on_pdu | poll answered with final', 'RR/RNR with P=1 is answered with F=1', 'a poll is not answered with a final S-frame', p.loc(onp))


def segmentation(ctx):
    R, p = ctx.r, ctx.p
    rule = 'C08.segmentation'
    ci = p.cls(ERTM)
    ss = ci.methods.get('send_sdu') if ci else None
    onp = ci.methods.get('on_pdu') if ci else None
    if not ss or not onp:
        R.bad(rule, f'{ERTM}.send_sdu/on_pdu', 'anchor missing')
        return
    loops = [n for n in walk_local(ss) if isinstance(n, ast.For) and isinstance(n.iter, ast.Call) and call_attr(n.iter) == 'range']
    ok = False
    for lp in loops:
        a = [norm(x) for x in lp.iter.args]
        off = dotted(lp.target)
        sl = [slice_parts(n.value) for n in walk_local(lp) if isinstance(n, ast.Assign) and dotted(n.targets[0]) == 'payload']
        if a == ['0', 'len(sdu)', 'self.peer_mps'] and sl == [('sdu', off, f'{off} + self.peer_mps')]:
            ok = True
            from .. import sym
            res = paths.run_block(lp.body, sym.Sym(substitute=False), sym.Sym.init())
            bad = []
            kinds = set()
            end_form = sym.ineq(f'{off} + len(payload) >= len(sdu)')
            for k_, facts, store, extra, w in sym.exits(res):
                sar = (store.get('sar') or '').split('.')[-1]
                kinds.add(sar)
                first = facts.get(sym.canon_text(f'{off} == 0')[0])
                at_end = any(sym.same_ineq(sym.ineq(a_, t_), end_form) for a_, t_ in facts.items() if sym.ineq(a_, t_) is not None)
                not_end = any(sym.same_ineq(sym.ineq(a_, not t_), end_form) for a_, t_ in facts.items() if sym.ineq(a_, t_) is not None)
                if sar == 'START' and first is not True:
                    bad.append('START chosen without offset == 0')
                elif sar == 'END' and not (first is False and at_end):
                    bad.append(f'END chosen under {sorted(facts.items())}')
                elif sar == 'CONTINUATION' and not (first is False and not_end):
                    bad.append(f'CONTINUATION chosen under {sorted(facts.items())}')
                elif sar not in ('START', 'END', 'CONTINUATION'):
                    bad.append(f'segment labelled {sar}')
            R.check(kinds == {'START', 'END', 'CONTINUATION'} and not bad, rule, f'{ERTM}.send_sdu | SAR from offsets', 'START iff offset == 0, END iff offset + len(payload) >= len(sdu), CONTINUATION otherwise', f'SAR tests are {sorted(set(bad)) or sorted(kinds)}', p.loc(lp))
            c = [c for c in calls_in(lp) if call_attr(c) == '_PendingPdu']
            R.check(len(c) == 1 and norm(kwarg(c[0], 'sdu_length')) == 'len(sdu)' and norm(kwarg(c[0], 'payload')) == 'payload', rule, f'{ERTM}.send_sdu | segment fields', 'each segment carries its slice and the total SDU length', 'segment PDU fields changed', p.loc(lp))
    R.check(ok, rule, f'{ERTM}.send_sdu | stride == width == peer_mps', 'range(0, len(sdu), peer_mps) with sdu[offset:offset + peer_mps]: no gap, no overlap, each segment <= peer_mps', 'segmentation stride and slice width differ or are not peer_mps', p.loc(ss))
    first_if = next((n for n in ss.body if isinstance(n, ast.If)), None)
    from ..sym import same_ineq, ineq
    fits = False
    if first_if is not None and ineq(first_if.test) is not None:
        pos = same_ineq(first_if.test, 'len(sdu) <= self.peer_mps')
        neg = same_ineq(ineq(first_if.test, False), ineq('len(sdu) <= self.peer_mps'))
        branch = first_if.body if pos else first_if.orelse if neg else []
        fits = any('UNSEGMENTED' in norm(x) for x in branch) and not any(isinstance(x, ast.For) for st_ in branch for x in ast.walk(st_))
    R.check(fits, rule, f'{ERTM}.send_sdu | unsegmented iff fits', 'unsegmented iff len(sdu) <= peer_mps', 'the unsegmented/segmented decision is not len(sdu) <= peer_mps', p.loc(ss))
    # SDU length written only with START <-> skipped only for START
    pb = p.find(f'{ERTM}._PendingPdu.__bytes__')
    if pb is None:
        R.bad(rule, f'{ERTM}._PendingPdu.__bytes__', 'anchor missing')
    else:
        ife = [n for n in ast.walk(pb) if isinstance(n, ast.IfExp)]
        ok = len(ife) == 1 and norm(ife[0].body) == "struct.pack('<H', self.sdu_length)" and norm(ife[0].test).endswith('SegmentationAndReassembly.START') and norm(ife[0].test).startswith('self.sar ==') and norm(ife[0].orelse) == "b''"
        R.check(ok, rule, f'{ERTM}._PendingPdu.__bytes__ | SDU length only with START', "2-byte '<H' SDU length iff sar == START", 'SDU length field is not written exactly for START segments', p.loc(pb))
    # every write of received payload into the reassembly buffer: which segment kinds reach it (guards), at which offset
    # it cuts the frame, and whether it starts the buffer afresh or appends
    writes = []
    for st in walk_local(onp):
        tgt = st.targets[0] if isinstance(st, ast.Assign) and len(st.targets) == 1 else st.target if isinstance(st, ast.AugAssign) else None
        if tgt is None or dotted(tgt) != 'self._in_sdu' or slice_parts(st.value) is None or slice_parts(st.value)[0] != 'pdu':
            continue
        kinds = {'START', 'UNSEGMENTED', 'CONTINUATION', 'END'}
        for t, pol in paths.flat_guards(st, stop=onp):
            tt = norm(t)
            if 'control_field.sar ==' in tt or '== control_field.sar' in tt:
                k = tt.rsplit('.', 1)[-1]
                kinds = (kinds & {k}) if pol else (kinds - {k})
        writes.append((kinds, slice_parts(st.value)[1], isinstance(st, ast.Assign), st))
    covered = set().union(*[k for k, _, _, _ in writes]) if writes else set()
    off_ok = all(off == ('4' if k == {'START'} else '2') and 'START' not in (k - {'START'}) for k, off, _, _ in writes)
    R.check(bool(writes) and covered == {'START', 'UNSEGMENTED', 'CONTINUATION', 'END'} and off_ok, rule, f'{ERTM}.on_pdu | header skip', 'START skips control(2)+length(2), others skip control(2)', f'payload offsets on receive: {[(sorted(k), off) for k, off, _, _ in writes]}', p.loc(onp))
    fresh_ok = all(fresh == (k <= {'START', 'UNSEGMENTED'}) for k, _, fresh, _ in writes)
    R.check(bool(writes) and fresh_ok, rule, f'{ERTM}.on_pdu | a frame that starts an SDU starts the buffer', 'START / UNSEGMENTED assign, CONTINUATION / END append', 'a START or UNSEGMENTED I-frame is appended to whatever was being reassembled (or a continuation replaces it): an SDU the peer never finished is delivered in front of the next one', p.loc(onp))
    deliver = [n for n in walk_local(onp) if isinstance(n, ast.If) and 'control_field.sar in' in norm(n.test)]
    ok = len(deliver) == 1 and '.END' in norm(deliver[0].test) and '.UNSEGMENTED' in norm(deliver[0].test) and any(dotted(c.func) == 'self.channel.on_sdu' for c in calls_in(deliver[0])) and any(isinstance(x, ast.Assign) and any(dotted(t) == 'self._in_sdu' or (isinstance(t, ast.Tuple) and any(dotted(e_) == 'self._in_sdu' for e_ in t.elts)) for t in x.targets) for x in deliver[0].body)
    R.check(ok, rule, f'{ERTM}.on_pdu | delivery', 'SDU delivered and buffer reset on END/UNSEGMENTED', 'SDU delivery condition changed', p.loc(onp))


def fcs(ctx):
    R, p = ctx.r, ctx.p
    rule = 'C08.fcs'
    tb = p.find('bumble.l2cap.L2CAP_PDU.to_bytes')
    fb = p.find('bumble.l2cap.L2CAP_PDU.from_bytes')
    onp = p.find(f'{CC}.on_pdu')
    sp = p.find(f'{CC}.send_pdu')
    if not (tb and fb and onp and sp):
        R.bad(rule, 'bumble.l2cap.L2CAP_PDU / ClassicChannel', 'anchor missing')
        return
    ifs = [n for n in walk_local(tb) if isinstance(n, ast.If) and norm(n.test) == 'with_fcs']
    adds = [norm(x) for n in ifs for x in n.body]
    R.check('length += 2' in adds and "body += struct.pack('<H', utils.crc_16(body))" in adds, rule, 'bumble.l2cap.L2CAP_PDU.to_bytes | FCS accounting', 'with_fcs: length += 2 and CRC-16 of header+payload appended', f'FCS handling in to_bytes: {adds}', p.loc(tb))
    hdr = [norm(n.value) for n in walk_local(tb) if isinstance(n, ast.Assign) and dotted(n.targets[0]) == 'header']
    rd = [norm(n.value) for n in walk_local(fb) if isinstance(n, ast.Assign) and isinstance(n.targets[0], ast.Tuple)]
    R.check(hdr == ["struct.pack('<HH', length, self.cid)"] and rd == ["struct.unpack_from('<HH', data, 0)"], rule, 'bumble.l2cap.L2CAP_PDU | header', "'<HH' length, cid on both sides", f'header: write {hdr} read {rd}', p.loc(tb))
    pl = [slice_parts(n.value) for n in walk_local(fb) if isinstance(n, ast.Assign) and dotted(n.targets[0]) == 'l2cap_pdu_payload']
    R.check(pl == [('data', '4', '4 + length')], rule, 'bumble.l2cap.L2CAP_PDU.from_bytes | payload', 'payload = data[4:4 + length]', f'payload slice {pl}', p.loc(fb))
    strip = [n for n in walk_local(onp) if isinstance(n, ast.If) and norm(n.test) == 'self.fcs_enabled']
    ok = len(strip) == 1 and [slice_parts(x.value) for x in strip[0].body if isinstance(x, ast.Assign)] == [('pdu', '0', '-2')]
    R.check(ok, rule, f'{CC}.on_pdu | strip', 'FCS (2 bytes) stripped iff fcs_enabled', 'receive side does not strip exactly 2 bytes under fcs_enabled', p.loc(onp))
    snd = [c for c in calls_in(sp) if dotted(c.func) == 'self.manager.send_pdu']
    ok = len(snd) == 1 and len(snd[0].args) == 4 and norm(snd[0].args[3]) == 'self.fcs_enabled'
    R.check(ok, rule, f'{CC}.send_pdu | flag', 'send side passes fcs_enabled to the PDU serialiser', 'send side does not pass fcs_enabled', p.loc(sp))
    msp = p.find('bumble.l2cap.ChannelManager.send_pdu')
    if msp is not None:
        R.check('to_bytes(with_fcs=with_fcs)' in norm(msp), rule, 'bumble.l2cap.ChannelManager.send_pdu | forwards flag', 'with_fcs forwarded to L2CAP_PDU.to_bytes', 'with_fcs not forwarded', p.loc(msp))


def re_findall(a):
    import re
    return re.findall(r'State\.(\w+)', a)


def config_fsm(ctx):
    R, p = ctx.r, ctx.p
    rule = 'C08.config-fsm'
    ci = p.cls(CC)
    if ci is None:
        R.bad(rule, CC, 'anchor missing')
        return
    n_open = 0
    for hname in ('on_configure_request', 'on_configure_response'):
        fn = ci.methods.get(hname)
        if fn is None:
            R.bad(rule, f'{CC}.{hname}', 'anchor missing')
            continue
        for c in calls_in(fn):
            if dotted(c.func) == 'self._change_state' and c.args and norm(c.args[0]).endswith('State.OPEN'):
                n_open += 1
                stmt = c._parent
                blk = stmt._parent.body if stmt in getattr(stmt._parent, 'body', []) else stmt._parent.orelse
                rest = blk[blk.index(stmt) + 1:]
                settles = any(isinstance(x, ast.Call) and norm(x.func) == 'self.connection_result.set_result' for s in rest for x in ast.walk(s))
                emits = any(isinstance(x, ast.Call) and dotted(x.func) == 'self.emit' and x.args and norm(x.args[0]) == 'self.EVENT_OPEN' for s in rest for x in ast.walk(s))
                R.check(settles and emits, rule, f'{CC}.{hname} | -> OPEN #{n_open}', 'transition to OPEN resolves connection_result and emits open', 'a transition to OPEN leaves the connecting caller waiting (connection_result not resolved) or does not announce the channel', p.loc(c))
    R.check(n_open == 2, rule, f'{CC} | OPEN transitions', 'request side and response side', f'{n_open} OPEN transitions found in the configure handlers (expected 2)')

    # transition table of the configuration exchange (the state names say what is still awaited)
    TABLE = {
        'on_configure_request': {'WAIT_CONFIG': 'WAIT_CONFIG_RSP', 'WAIT_CONFIG_REQ': 'OPEN', 'WAIT_CONFIG_REQ_RSP': 'WAIT_CONFIG_RSP'},
        'on_configure_response': {'WAIT_CONFIG_REQ_RSP': 'WAIT_CONFIG_REQ', 'WAIT_CONFIG_RSP': 'OPEN', 'WAIT_CONTROL_IND': 'OPEN'},
    }
    from .. import sym
    for hname, table in TABLE.items():
        fnh = ci.methods.get(hname)
        if fnh is None:
            continue
        got = {}

        class T(sym.Sym):
            def on_event(self, node, extra, facts, store):
                if isinstance(node, ast.Call) and dotted(node.func) == 'self._change_state' and node.args:
                    return norm(node.args[0]).split('.')[-1]
                return extra
        res = paths.run(fnh, T(fact_filter=lambda t: 'self.state' in t, store_filter=lambda t: False), sym.Sym.init())
        for k_, facts, store, last, w in sym.exits(res):
            if last is None:
                continue
            eq_true = [re_findall(a_)[0] for a_, t_ in facts.items() if t_ and ' == ' in a_ and 'self.state' in a_ and re_findall(a_)]
            eq_false = {re_findall(a_)[0] for a_, t_ in facts.items() if not t_ and ' == ' in a_ and 'self.state' in a_ and re_findall(a_)}
            in_true = [set(re_findall(a_)) for a_, t_ in facts.items() if t_ and ' in ' in a_ and 'self.state' in a_]
            if eq_true:
                cands = set(eq_true)
            elif in_true:
                cands = set.intersection(*in_true) - eq_false
            else:
                cands = set()
            for st_ in cands:
                got.setdefault(st_, set()).add(last)
        for st_, tgt in sorted(table.items()):
            R.check(got.get(st_) == {tgt}, rule, f'{CC}.{hname} | {st_} ->', f'{st_} -> {tgt}', f'{hname} moves a channel from {st_} to {sorted(got.get(st_, []))} (expected {tgt}): when the peer\'s response and request arrive in the other order the two ends do not both reach OPEN', p.loc(fnh))
    fn = ci.methods.get('on_configure_request')
    if fn is not None:
        mism = [n for n in walk_local(fn) if isinstance(n, ast.If) and norm(n.test) == 'new_mode != self.mode']
        ok = len(mism) == 1 and any(dotted(c.func) == 'self._abort_connection_result' for c in calls_in(mism[0])) and any(dotted(c.func) == 'self._disconnect_sync' for c in calls_in(mism[0])) and isinstance(mism[0].body[-1], ast.Return)
        R.check(ok, rule, f'{CC}.on_configure_request | mode mismatch', 'mismatching mode aborts the connection result, disconnects and stops', 'mode mismatch no longer fails the connection on this side', p.loc(fn))
        # state table: the three accepted states each have an outgoing transition
        tests = [norm(n.test) for n in walk_local(fn) if isinstance(n, ast.If) and 'self.state ==' in norm(n.test)]
        want = {'self.state == self.State.WAIT_CONFIG', 'self.state == self.State.WAIT_CONFIG_REQ', 'self.state == self.State.WAIT_CONFIG_REQ_RSP'}
        R.check(want <= set(tests), rule, f'{CC}.on_configure_request | states handled', 'WAIT_CONFIG, WAIT_CONFIG_REQ, WAIT_CONFIG_REQ_RSP each have a transition', f'state tests: {tests}', p.loc(fn))
    # processor parameters come from the peer's option in the right slots
    if fn is not None:
        mk = [c for c in calls_in(fn) if call_attr(c) == 'make_mode_processor']
        ok = len(mk) == 1 and all(norm(kwarg(mk[0], k)) == k for k in ('peer_tx_window_size', 'peer_max_retransmission', 'peer_mps'))
        unp = [n for n in walk_local(fn) if isinstance(n, ast.Assign) and isinstance(n.targets[0], ast.Tuple) and 'unpack_from' in norm(n.value)]
        order = [dotted(e) for e in unp[0].targets[0].elts] if unp else []
        R.check(ok and order == ['mode', 'peer_tx_window_size', 'peer_max_retransmission', 'peer_retransmission_timeout', 'peer_monitor_timeout', 'peer_mps'] and "'<BBBHHH'" in norm(unp[0].value), rule, f'{CC}.on_configure_request | RFC option slots', 'option unpacked as <BBBHHH in the order mode, window, max-retx, retx-timeout, monitor-timeout, mps and passed by name', 'retransmission option fields are bound to the wrong parameters', p.loc(fn))
    sc = ci.methods.get('send_configure_request')
    if sc is not None:
        pk = [c for c in calls_in(sc) if dotted(c.func) == 'struct.pack' and c.args and norm(c.args[0]) == "'<BBBHHH'"]
        ok = len(pk) == 1 and [norm(a) for a in pk[0].args[1:]] == ['TransmissionMode.ENHANCED_RETRANSMISSION', 'self.spec.tx_window_size', 'self.spec.max_retransmission', 'int(self.spec.retransmission_timeout * 1000)', 'int(self.spec.monitor_timeout * 1000)', 'self.spec.mps']
        R.check(ok, rule, f'{CC}.send_configure_request | RFC option slots', 'same field order on the sending side', 'retransmission option is packed in a different field order than it is unpacked', p.loc(sc))



def peer_params(ctx):
    """The ERTM parameters the sender obeys are the ones the peer put in its Configure Request."""
    R, p = ctx.r, ctx.p
    rule = 'C08.peer-params'
    init = p.find('bumble.l2cap.EnhancedRetransmissionProcessor.__init__')
    if init is None:
        R.bad(rule, 'bumble.l2cap.EnhancedRetransmissionProcessor.__init__', 'anchor missing')
        return
    params = [a.arg for a in init.args.args if a.arg.startswith('peer_')]
    assigns = {dotted(n.targets[0]): norm(n.value) for n in walk_local(init) if isinstance(n, ast.Assign) and len(n.targets) == 1 and dotted(n.targets[0])}
    for prm in params:
        R.check(assigns.get(f'self.{prm}') == prm, rule, f'EnhancedRetransmissionProcessor.__init__ | self.{prm}', f'stored from the constructor parameter {prm}',
                f'self.{prm} = {assigns.get("self." + prm)}: the sender no longer obeys the value the peer announced (e.g. its own receive window instead of the peer\'s)', p.loc(init))
    R.check(len(params) >= 3, rule, 'EnhancedRetransmissionProcessor.__init__ | peer parameters', f'{len(params)} peer_* parameters', f'only {len(params)} peer_* parameters found', p.loc(init))
    # factory passes them through by name
    fac = p.find('bumble.l2cap.ChannelManager.make_mode_processor')
    if fac is None:
        R.bad(rule, 'bumble.l2cap.ChannelManager.make_mode_processor', 'anchor missing')
        return
    ctor = next((c for c in calls_in(fac) if dotted(c.func) == 'EnhancedRetransmissionProcessor'), None)
    names = [a.arg for a in init.args.args[1:]]
    ok = ctor is not None
    if ok:
        for i, a in enumerate(ctor.args):
            if i and i < len(names) and dotted(a) != names[i]:
                ok = False
        for k in ctor.keywords:
            if k.arg in names and k.arg.startswith('peer_') and dotted(k.value) != k.arg:
                ok = False
    R.check(ok, rule, 'ChannelManager.make_mode_processor | pass-through', 'each peer_* argument reaches the constructor parameter of the same name', 'the factory hands a peer parameter to a different constructor parameter', p.loc(fac))
    # the configure-request handler unpacks the option in the order it is packed and forwards by name
    unpack = None
    for f in p.cls('bumble.l2cap.ClassicChannel').methods.values():
        for n in ast.walk(f):
            if isinstance(n, ast.Assign) and isinstance(n.targets[0], ast.Tuple) and isinstance(n.value, ast.Call) and dotted(n.value.func) == 'struct.unpack_from' and const(n.value.args[0]) == '<BBBHHH':
                unpack = (f, n)
    packs = []
    for f in p.cls('bumble.l2cap.ClassicChannel').methods.values():
        for c in calls_in(f):
            if dotted(c.func) == 'struct.pack' and c.args and is_const(c.args[0]) and const(c.args[0]) == '<BBBHHH':
                packs.append((f, c))
    if unpack is None or not packs:
        R.bad(rule, 'bumble.l2cap.ClassicChannel | retransmission option codec', f'unpack site {"found" if unpack else "missing"}, {len(packs)} pack sites', '')
        return
    f, n = unpack
    got = [x.id.replace('peer_', '') for x in n.targets[0].elts]
    for pf, c in packs:
        # identifiers mentioned by each packed argument (last attribute component)
        idents = []
        for a in c.args[1:]:
            ids = {x.attr for x in ast.walk(a) if isinstance(x, ast.Attribute)} | {x.id for x in ast.walk(a) if isinstance(x, ast.Name)}
            idents.append({i.lower() for i in ids})
        ok = len(idents) == len(got)
        if ok:
            for want, have in zip(got, idents):
                if want == 'mode':
                    ok = ok and any('mode' in h for h in have)
                else:
                    ok = ok and want in have
        shown = [sorted(h - {'self', 'spec', 'int'}) for h in idents]
        R.check(ok, rule, f'ClassicChannel.{pf.name} | option field order', f'packed {shown} / unpacked {got}: same order', f'retransmission option packed as {shown} but unpacked as {got}: the peer\'s window / MPS / timers are read from the wrong field', p.loc(c))
    call = next((c for c in calls_in(f) if call_attr(c) == 'make_mode_processor'), None)
    ok = call is not None and all(dotted(k.value) == k.arg for k in call.keywords if k.arg.startswith('peer_')) and {k.arg for k in call.keywords} >= {'peer_tx_window_size', 'peer_max_retransmission', 'peer_mps'}
    R.check(ok, rule, f'ClassicChannel.{f.name} | forwards the peer\'s option', 'peer_* values unpacked from the Configure Request go to the processor under their own names', 'the processor is not given the values the peer sent in its Configure Request', p.loc(f))



def poll_final(ctx):
    """The poll the sender emits is the frame the receiver answers, and the answer is what releases the sender."""
    R, p = ctx.r, ctx.p
    rule = 'C08.poll'
    ci = p.cls(ERTM)
    if ci is None:
        R.bad(rule, ERTM, 'anchor missing')
        return
    sp = ci.methods.get('_send_receiver_ready_poll')
    ss = ci.methods.get('_send_s_frame')
    onp = ci.methods.get('on_pdu')
    upd = ci.methods.get('_update_ack_seq')
    if not (sp and ss and onp and upd):
        R.bad(rule, f'{ERTM}._send_receiver_ready_poll/_send_s_frame/on_pdu/_update_ack_seq', 'anchor missing')
        return
    c = next((c for c in calls_in(sp) if dotted(c.func) == 'self._send_s_frame'), None)
    pl = const(kwarg(c, 'poll')) if c is not None and kwarg(c, 'poll') is not None and is_const(kwarg(c, 'poll')) else None
    fn_ = const(kwarg(c, 'final')) if c is not None and kwarg(c, 'final') is not None and is_const(kwarg(c, 'final')) else None
    R.check(pl == 1 and fn_ == 0, rule, f'{ERTM}._send_receiver_ready_poll | P bit', 'the poll is an RR with P=1, F=0', f'the receiver-ready poll is sent with poll={pl}, final={fn_}: the peer only answers frames with P=1, so the sender waits forever once acknowledgements are late', p.loc(sp))
    ctor = next((c for c in calls_in(ss) if call_attr(c) == 'SupervisoryEnhancedControlField' or dotted(c.func) == 'SupervisoryEnhancedControlField'), None)
    kw = {k.arg: norm(k.value) for k in ctor.keywords} if ctor is not None else {}
    R.check(kw.get('poll') == 'poll' and kw.get('final') == 'final', rule, f'{ERTM}._send_s_frame | bits forwarded', 'poll and final reach the control field', f'S-frame built with {kw}', p.loc(ss))
    # receiver: a polled RR/RNR is answered with F=1
    ans = [c for c in calls_in(onp) if dotted(c.func) == 'self._send_s_frame' and any((norm(t), pol) == ('control_field.poll', True) for t, pol in paths.flat_guards(c))]
    ok = bool(ans) and all(is_const(kwarg(a, 'final')) and const(kwarg(a, 'final')) == 1 for a in ans)
    R.check(ok, rule, f'{ERTM}.on_pdu | poll answered with F=1', 'a frame with P=1 is answered by RR with F=1', 'a polled frame is not answered with the F bit set', p.loc(onp))
    # sender: F=1 cancels the monitor
    first = next((c for c in calls_in(onp) if dotted(c.func) == 'self._update_ack_seq'), None)
    ok = first is not None and len(first.args) == 2 and 'final' in norm(first.args[1]) and any(isinstance(n, ast.If) and 'is_poll_response' in norm(n.test) and any(norm(x) == 'self._monitor_handle = None' for x in n.body) for n in walk_local(upd))
    R.check(ok, rule, f'{ERTM}._update_ack_seq | F=1 releases the sender', 'a frame with F=1 cancels the monitor timer', 'the answer to a poll does not release the sender', p.loc(upd))
    # ... on every path that accepts the acknowledgement (whatever number of frames it acknowledges), and output resumes there
    class Rel(paths.Domain):
        # value: (monitor cleared, output resumed, rejected as exceeding the window)
        def event(self, node, v):
            if isinstance(node, ast.Assign) and dotted(node.targets[0]) == 'self._monitor_handle' and norm(node.value) == 'None':
                return ((True, v[1], v[2]),)
            if isinstance(node, ast.Call) and dotted(node.func) == 'self._process_output':
                return ((v[0], True, v[2]),)
            return (v,)

        def assume(self, atom, truth, v):
            t = norm(atom)
            if t == 'is_poll_response':
                return (v,) if truth else ()
            if t == 'self._monitor_handle':
                return (v,) if truth else ()
            if t == 'num_frames_acked > len(self._tx_window)':
                return ((v[0], v[1], truth),)
            return (v,)
    res = paths.run(upd, Rel(), (False, False, False))
    outs = {(k, v) for k, st in res.items() if not k.startswith('raise') for v in st}
    stuck = sorted(f'{k}: monitor {"cleared" if v[0] else "still armed"}, output {"resumed" if v[1] else "not resumed"}' for k, v in outs if not v[2] and not (v[0] and v[1]))
    R.check(bool(outs) and not stuck, rule, f'{ERTM}._update_ack_seq | F=1 releases on every accepted path', 'with F=1 and the monitor armed, every path that does not reject the acknowledgement clears the monitor and resumes output',
            'an acknowledgement with F=1 can return with the monitor timer still armed (e.g. when it acknowledges nothing new): output stays blocked although the peer answered the poll', p.loc(upd), stuck[:3])


def response_echo_shared(ctx):
    from . import c09
    c09.response_echo(ctx, rule='C08.response-echo')


def one_shot_rule(ctx):
    from ..generic_rules import one_shot_iterators
    one_shot_iterators(ctx, 'C08.one-shot', ['bumble.l2cap'])


def bytes_of_number_rule(ctx):
    from ..generic_rules import bytes_of_number
    bytes_of_number(ctx, 'C08.bytes-of-number', ['bumble.l2cap'])


def fcs_negotiation(ctx):
    """Configuration converges.  A refusal (UNACCEPTABLE_PARAMETERS) must carry a value that the refusing side would accept,
    and the requester must adopt it before it asks again -- an echo of the refused value, or a requester that re-sends its
    own wish, makes the two ends exchange the same two frames for ever."""
    R, p = ctx.r, ctx.p
    rule = 'C08.fcs-negotiation'
    rq = p.find('bumble.l2cap.ClassicChannel.on_configure_request')
    rs = p.find('bumble.l2cap.ClassicChannel.on_configure_response')
    if rq is None or rs is None:
        R.bad(rule, 'bumble.l2cap.ClassicChannel.on_configure_request / on_configure_response', 'anchor missing')
        return
    arms = [c for m_ in ast.walk(rq) if isinstance(m_, ast.Match) for c in m_.cases if norm(c.pattern).endswith('ParameterType.FCS')]
    R.check(len(arms) == 1, rule, 'bumble.l2cap.ClassicChannel.on_configure_request | FCS arm', 'one arm handles the FCS option', f'{len(arms)} arms', p.loc(rq))
    if len(arms) == 1:
        arm = arms[0]
        refusals = [st for st in ast.walk(arm) if isinstance(st, ast.Assign) and dotted(st.targets[0]) == 'replied_options' and any('UNACCEPTABLE' in norm(x) for x in ast.walk(getattr(st, '_parent', arm)) if isinstance(x, ast.Attribute))]
        echo = [st for st in refusals if norm(st.value) == '[option]']
        R.check(bool(refusals) and not echo, rule, 'bumble.l2cap.ClassicChannel.on_configure_request | refusal suggests an acceptable value', 'the refused FCS value is not echoed back',
                'the FCS refusal echoes the refused option: the requester "re-configures with what is suggested", i.e. asks the same thing again, for ever', p.loc(arm.pattern))
        # the refusal is reached only when FCS *is* requested (whatever the shape of the test: `if not enabled or supported`
        # with the refusal in the else, or `if enabled and not supported` with the refusal in the body)
        ok = bool(refusals) and all(any(norm(t) == 'enabled' and pol for t, pol in paths.flat_guards(st, stop=rq)) for st in refusals)
        R.check(ok, rule, 'bumble.l2cap.ClassicChannel.on_configure_request | "no FCS" always acceptable', 'a request for no FCS is accepted whether or not the option is supported',
                'a peer that asks for "no FCS" (the value suggested in a refusal) is refused too when the option is unsupported: the negotiation cannot converge', p.loc(arm.pattern))
    # requester side: the suggested value is adopted
    branch = [n_ for n_ in walk_local(rs) if isinstance(n_, ast.If) and 'FAILURE_UNACCEPTABLE_PARAMETERS' in norm(n_.test)]
    adopt = [x for b in branch for x in ast.walk(ast.Module(body=b.body, type_ignores=[])) if isinstance(x, ast.Assign) and dotted(x.targets[0]) == 'self.fcs_enabled']
    resend = [c for b in branch for s_ in b.body for c in calls_in(s_) if call_attr(c) == 'L2CAP_Configure_Request']
    R.check(bool(adopt) and bool(resend) and adopt[0].lineno < resend[0].lineno, rule, 'bumble.l2cap.ClassicChannel.on_configure_response | suggestion adopted', 'the requester takes over the suggested FCS setting before it configures again',
            'after UNACCEPTABLE_PARAMETERS the requester re-sends a request without adopting the suggested FCS setting: it keeps computing / expecting FCS while the peer does not (SDUs corrupted), or asks the same thing again', p.loc(rs))


def piggyback_ack(ctx):
    """Every I-frame carries the current acknowledgement (ReqSeq) of the reverse direction: it is stamped from the receiver
    state when the frame is (re)sent, not when the SDU was segmented -- a stale ReqSeq acknowledges nothing new (or moves the
    peer's window backwards) when traffic flows both ways."""
    R, p = ctx.r, ctx.p
    rule = 'C08.piggyback-ack'
    ci = p.cls('bumble.l2cap.EnhancedRetransmissionProcessor')
    if ci is None:
        R.bad(rule, 'bumble.l2cap.EnhancedRetransmissionProcessor', 'anchor missing')
        return
    n = 0
    for name, fn in sorted(ci.methods.items()):
        sends = [c for c in calls_in(fn) if dotted(c.func) == 'self.channel.send_pdu' and c.args and isinstance(c.args[0], ast.Call) and dotted(c.args[0].func) == 'bytes' and isinstance(c.args[0].args[0], ast.Name)]
        for c in sends:
            v = c.args[0].args[0].id
            n += 1
            stamp = [s_ for s_ in walk_local(fn) if isinstance(s_, ast.Assign) and dotted(s_.targets[0]) == f'{v}.req_seq' and norm(s_.value) == 'self._req_seq_num' and s_.lineno < c.lineno]
            R.check(bool(stamp), rule, f'bumble.l2cap.EnhancedRetransmissionProcessor.{name} | {v}.req_seq', 'stamped with the current receive state before the frame is serialised',
                    f'{name} serialises the pending PDU `{v}` without setting its req_seq from self._req_seq_num first: the frame acknowledges what was current when the SDU was queued, so with traffic in both directions the peer\'s window is not opened (or goes backwards) and the transfer stalls', p.loc(c))
    R.check(n >= 1, rule, 'bumble.l2cap.EnhancedRetransmissionProcessor | I-frame senders', f'{n} sites serialise a pending PDU', 'no I-frame send site found')


def config_options_rule(ctx):
    from .c18 import config_options
    config_options(ctx, 'C08.config-options')


def disconnecting_stays_registered(ctx):
    """"both ends open in the same mode or both ends closed": an initiator that finds a mode mismatch fails its connect() and
    sends a Disconnection Request; the peer's response is routed through the manager's table.  The failure path of
    create_classic_channel therefore keeps a channel that is in WAIT_DISCONNECT registered (the response handler closes and
    deregisters it); removing it at once leaves the channel object in WAIT_DISCONNECT for ever."""
    R, p = ctx.r, ctx.p
    rule = 'C08.disconnecting-stays-registered'
    fn = p.find('bumble.l2cap.ChannelManager.create_classic_channel')
    if fn is None:
        R.bad(rule, 'bumble.l2cap.ChannelManager.create_classic_channel', 'anchor missing')
        return
    pops = [c for h in ast.walk(fn) if isinstance(h, ast.ExceptHandler) for c in calls_in(h) if call_attr(c) == 'pop' or False] + [d for h in ast.walk(fn) if isinstance(h, ast.ExceptHandler) for d in ast.walk(h) if isinstance(d, ast.Delete)]
    R.check(bool(pops), rule, 'bumble.l2cap.ChannelManager.create_classic_channel | failure path', f'{len(pops)} removal(s) in the failure handler', 'the failure handler no longer removes the channel', p.loc(fn))
    for c in pops:
        g = [norm(t) for t, pol in paths.flat_guards(c, stop=fn)]
        R.check(any('WAIT_DISCONNECT' in x for x in g), rule, 'bumble.l2cap.ChannelManager.create_classic_channel | not while disconnecting', 'the removal is skipped for a channel in WAIT_DISCONNECT',
                'the failure handler removes the channel from the table whatever its state: after a mode mismatch the Disconnection Response finds no channel, the initiator\'s channel stays in WAIT_DISCONNECT while the peer\'s is CLOSED', p.loc(c))


def frames_via_channel(ctx):
    """Every frame a transmission-mode processor sends (I-frames and S-frames alike) goes through ClassicChannel.send_pdu, the
    one place that applies the negotiated FCS setting (and the open-state check): a frame handed to the channel manager
    directly goes out without FCS on a channel that negotiated it, and the receiver then cuts two octets off it."""
    R, p = ctx.r, ctx.p
    rule = 'C08.frames-via-channel'
    m = p.modules.get('bumble.l2cap')
    if m is None:
        R.bad(rule, 'bumble.l2cap', 'anchor missing')
        return
    n = 0
    for cn, ci in sorted(p.classes.items()):
        if not (cn.startswith('bumble.l2cap.') and ci.name.endswith('Processor')):
            continue
        for name, fn in sorted(ci.methods.items()):
            for c in calls_in(fn):
                d = dotted(c.func) or ''
                if d == 'self.channel.send_pdu':
                    n += 1
                elif d.endswith('manager.send_pdu') or d.endswith('manager.send_control_frame') and False:
                    R.bad(rule, f'{cn}.{name} | {d}', f'{name} hands a frame to the channel manager directly (`{d}`): the negotiated FCS is not appended (ChannelManager.send_pdu defaults to no FCS), the receiver strips the last two octets of the frame and cannot parse it - acknowledgements are lost and the transmit window never reopens', p.loc(c))
    send = p.find(f'{CC}.send_pdu')
    ok = send is not None and any((dotted(c.func) or '').endswith('manager.send_pdu') and any('fcs_enabled' in norm(a) for a in list(c.args) + [k.value for k in c.keywords]) for c in calls_in(send))
    R.check(ok, rule, f'{CC}.send_pdu | applies FCS', 'passes self.fcs_enabled to the manager', 'ClassicChannel.send_pdu does not pass the negotiated FCS setting on', p.loc(send) if send is not None else '')
    R.check(n >= 3, rule, 'bumble.l2cap | processor sends', f'{n} sends, all through self.channel.send_pdu', f'only {n} found')


def reset_before_sink(ctx):
    from ..generic_rules import reset_before_handoff
    reset_before_handoff(ctx, 'C08.reset-before-sink', 'bumble.l2cap.EnhancedRetransmissionProcessor.on_pdu', 'self._in_sdu', 'self.channel.on_sdu')


def processor_arguments(ctx):
    """The ERTM processor segments to the MPS the peer gave: ChannelManager.make_mode_processor hands its peer_*
    parameters to the processor as received (an MPS has no lower bound of 48: rounding it up sends I-frames larger than the
    peer accepts)."""
    R, p = ctx.r, ctx.p
    rule = 'C08.processor-arguments'
    fn = p.find('bumble.l2cap.ChannelManager.make_mode_processor')
    if fn is None:
        R.bad(rule, 'bumble.l2cap.ChannelManager.make_mode_processor', 'anchor missing')
        return
    params = [a.arg for a in fn.args.args if a.arg.startswith('peer_')]
    re_ = [s_ for s_ in walk_local(fn) if isinstance(s_, (ast.Assign, ast.AugAssign)) and any(isinstance(x, ast.Name) and isinstance(x.ctx, ast.Store) and x.id in params for t in (s_.targets if isinstance(s_, ast.Assign) else [s_.target]) for x in ast.walk(t))]
    R.check(not re_, rule, 'bumble.l2cap.ChannelManager.make_mode_processor | parameters', 'peer parameters are not modified', f'`{norm(re_[0])[:60] if re_ else ""}` changes what the peer negotiated before the processor gets it: I-frames are cut to another size than the MPS the peer accepts (or the window / retry count differs from the negotiated one)', p.loc(re_[0]) if re_ else p.loc(fn))
    ctor = [c for c in calls_in(fn) if call_attr(c) == 'EnhancedRetransmissionProcessor']
    ok = len(ctor) == 1 and all(isinstance(a, ast.Name) for a in ctor[0].args) and 'peer_mps' in [a.id for a in ctor[0].args if isinstance(a, ast.Name)]
    R.check(ok, rule, 'bumble.l2cap.ChannelManager.make_mode_processor | constructor', 'the processor is built from the parameters themselves', 'the ERTM processor is not built from the plain peer_* parameters', p.loc(ctor[0]) if ctor else p.loc(fn))


def allocator_scan_rule(ctx):
    from .c09 import allocator_scan
    allocator_scan(ctx, 'C08.allocator-scan')


RULES = [
    ('C08.allocator-scan', allocator_scan_rule),
    ('C08.processor-arguments', processor_arguments),
    ('C08.reset-before-sink', reset_before_sink),
    ('C08.frames-via-channel', frames_via_channel),
    ('C08.disconnecting-stays-registered', disconnecting_stays_registered),
    ('C08.config-options', config_options_rule),
    ('C08.piggyback-ack', piggyback_ack),
    ('C08.fcs-negotiation', fcs_negotiation),
    ('C08.bytes-of-number', bytes_of_number_rule),
    ('C08.one-shot', one_shot_rule),
    ('C08.response-echo', response_echo_shared),
    ('C08.poll', poll_final),
    ('C08.peer-params', peer_params),
    ('C08.ctrl-bits', ctrl_bits),
    ('C08.seq', seq),
    ('C08.window', window),
    ('C08.ack', ack),
    ('C08.segmentation', segmentation),
    ('C08.fcs', fcs),
    ('C08.config-fsm', config_fsm),
]

VARIANTS = [
    ('poll back at bit 7', 'bumble/l2cap.py', "                    | (self.poll << 4)\n", "                    | (self.poll << 7)\n", 'fire', 'C08.ctrl-bits'),
    ('I-frame sar parsed with 1 bit', 'bumble/l2cap.py', "            sar=(data[1] >> 6) & 0b11,\n", "            sar=(data[1] >> 7) & 0b1,\n", 'fire', 'C08.ctrl-bits'),
    ('modulus 128', 'bumble/l2cap.py', "    MAX_SEQ_NUM = 64\n", "    MAX_SEQ_NUM = 128\n", 'fire', 'C08.seq'),
    ('tx_seq not reduced', 'bumble/l2cap.py', "        self._next_tx_seq = (self._next_tx_seq + 1) % self.MAX_SEQ_NUM\n", "        self._next_tx_seq = self._next_tx_seq + 1\n", 'fire', 'C08.seq'),
    ('window bound uses own size', 'bumble/l2cap.py', "        pdu_to_send = self.peer_tx_window_size - len(self._tx_window)\n", "        pdu_to_send = self.peer_tx_window_size\n", 'fire', 'C08.window'),
    ('ack removes one frame too many', 'bumble/l2cap.py', "        del self._tx_window[:num_frames_acked]\n", "        del self._tx_window[: num_frames_acked + 1]\n", 'fire', 'C08.window'),
    ('segment slice uses own mps', 'bumble/l2cap.py', "                payload = sdu[offset : offset + self.peer_mps]\n", "                payload = sdu[offset : offset + self.mps]\n", 'fire', 'C08.segmentation'),
    ('receiver skips 4 for every segment', 'bumble/l2cap.py', "                # Drop Control Field(2)\n                self._in_sdu += pdu[2:]\n", "                # Drop Control Field(2)\n                self._in_sdu += pdu[4:]\n", 'fire', 'C08.segmentation'),
    ('fcs not counted in length', 'bumble/l2cap.py', "        if with_fcs:\n            length += 2\n", "        if with_fcs:\n            length += 0\n", 'fire', 'C08.fcs'),
    ('open without resolving result', 'bumble/l2cap.py',
     "        elif self.state == self.State.WAIT_CONFIG_REQ:\n            self._change_state(self.State.OPEN)\n            if self.connection_result:\n                self.connection_result.set_result(None)\n                self.connection_result = None\n",
     "        elif self.state == self.State.WAIT_CONFIG_REQ:\n            self._change_state(self.State.OPEN)\n", 'fire', 'C08.config-fsm'),
    ('benign: comment', 'bumble/l2cap.py', "                # Drop Control Field(2) + SDU Length(2)\n", "                # Drop control field and SDU length\n", 'silent', ''),
    ('sender obeys its own window', 'bumble/l2cap.py', "        self.peer_tx_window_size = peer_tx_window_size\n", "        self.peer_tx_window_size = spec.tx_window_size\n", 'fire', 'C08.peer-params'),
    ('factory swaps window and max retransmission', 'bumble/l2cap.py', "                channel, peer_tx_window_size, peer_max_retransmission, peer_mps\n", "                channel, peer_max_retransmission, peer_tx_window_size, peer_mps\n", 'fire', 'C08.peer-params'),
    ('option unpacked in a different order', 'bumble/l2cap.py', "                        peer_tx_window_size,\n                        peer_max_retransmission,\n                        peer_retransmission_timeout,\n                        peer_monitor_timeout,\n                        peer_mps,\n                    ) = struct.unpack_from", "                        peer_max_retransmission,\n                        peer_tx_window_size,\n                        peer_retransmission_timeout,\n                        peer_monitor_timeout,\n                        peer_mps,\n                    ) = struct.unpack_from", 'fire', 'C08.peer-params'),
]
