"""C11 — GATT attribute permissions gate every read and write path."""
from __future__ import annotations

import ast

from .. import paths
from ..core import FUNC, call_attr, calls_in, const, dotted, is_const, kwarg, norm, text, walk_local

EXPLANATION = [
    "C11.loader-clobber: in device / gatt / gatt_server / att no per-item value of an outer loop is overwritten by a nested loop and used afterwards (a characteristic built with its last descriptor's permissions).",
    'C11.permission-names: Attribute.Permissions.from_string obtains the flag names with split() and looks each up in the enum (no regular expression that can skip a name silently).',
    "C11.gate-argument: every read_value / write_value call of the GATT server's handlers passes the handler's own `bearer` parameter as the link to check.",
    'C11.absent-accessor: AttributeValue / AttributeValueV2 .read and .write raise on every path on which the accessor function is None (the access is refused, never answered as a success).',
    'C11.permissions-writers: `.permissions` of an attribute is assigned only in Attribute.__init__, from the constructor argument (directly or through Permissions.from_string): nothing clears requirement bits afterwards.',
    'C11.except-name: no name bound by `except ... as name` is read after its handler: Python deletes it when the handler ends, so the read raises UnboundLocalError exactly when the exception was caught.',
    "C11.authenticated-source: every assignment to a connection's `authenticated` flag in bumble.device derives from the strength of the key in use (pairing method, key's authenticated flag, link-key type) or is guarded by such a test; BR/EDR-only sites are named exceptions. OPEN FINDINGS on the current tree: Device.on_pairing and the LE branch of Device.on_connection_encryption_change assign True unconditionally.",
    'C11.declared-permissions: Server.add_service registers the very objects the application declared (no loop variable over declared descriptors / characteristics is rebound before add_attribute) and builds attributes of its own, with default permissions, only under the test that the application declared none.',
    'C11.gate: in Attribute.read_value / write_value every path that reaches the value access has evaluated, for each requirement '
    'bit of its own direction (plain access bit, encryption, authentication, authorisation), a test that raises the matching ATT error; '
    'each refusing test is exactly the conjunction {bit set, connection known, link property missing}.',
    'C11.access: no ATT handler of the GATT server touches an attribute\'s `.value` directly: every value read or write goes through '
    'read_value / write_value (who-may-access), so the gate cannot be bypassed; refusals are answered with the error code raised.',
    'C11.bits: the permission flags are distinct single bits and READ_* flags are tested only in read_value, WRITE_* only in write_value.',
    'Not decided: which error a ranged request reports first (value dependent).',
]
ASSUMPTIONS = ['attribute values are only stored in Attribute.value (checked: handlers contain no other value access)']

ATTR = 'bumble.att.Attribute'
SRV = 'bumble.gatt_server.Server'

REQ = {
    'read_value': {
        'READABLE': ('ATT_READ_NOT_PERMITTED_ERROR', None),
        'READ_REQUIRES_ENCRYPTION': ('ATT_INSUFFICIENT_ENCRYPTION_ERROR', 'encryption'),
        'READ_REQUIRES_AUTHENTICATION': ('ATT_INSUFFICIENT_AUTHENTICATION_ERROR', 'authenticated'),
        'READ_REQUIRES_AUTHORIZATION': ('ATT_INSUFFICIENT_AUTHORIZATION_ERROR', None),
    },
    'write_value': {
        'WRITEABLE': ('ATT_WRITE_NOT_PERMITTED_ERROR', None),
        'WRITE_REQUIRES_ENCRYPTION': ('ATT_INSUFFICIENT_ENCRYPTION_ERROR', 'encryption'),
        'WRITE_REQUIRES_AUTHENTICATION': ('ATT_INSUFFICIENT_AUTHENTICATION_ERROR', 'authenticated'),
        'WRITE_REQUIRES_AUTHORIZATION': ('ATT_INSUFFICIENT_AUTHORIZATION_ERROR', None),
    },
}


def _bit_of(atom_text):
    """'self.permissions & self.READ_REQUIRES_ENCRYPTION' -> 'READ_REQUIRES_ENCRYPTION'"""
    t = atom_text.replace('(', '').replace(')', '')
    for pre in ('self.permissions & self.', 'self.permissions & Attribute.', 'self.permissions & self.Permissions.', 'self.permissions & Attribute.Permissions.'):
        if t.startswith(pre):
            return t[len(pre):]
        if t.startswith('not ' + pre):
            return t[len('not ' + pre):]
    return None


class GateDomain(paths.Domain):
    """value = frozenset of requirement bits whose test has been evaluated."""

    def __init__(self):
        self.access_states = []

    def assume(self, atom, truth, v):
        b = _bit_of(norm(atom))
        if b:
            return (v | {b},)
        return (v,)

    def event(self, node, v):
        # value access: self.value read (match subject / call receiver) or write
        hit = False
        if isinstance(node, ast.Match) and False:
            pass
        if isinstance(node, ast.match_case):
            hit = True  # the `match self.value:` subject was evaluated
        if isinstance(node, ast.Assign) and any(dotted(t) == 'self.value' for t in node.targets):
            hit = True
        if isinstance(node, ast.Call) and (dotted(node.func) or '').startswith('self.value.'):
            hit = True
        if isinstance(node, ast.Assign) and dotted(node.value) == 'self.value':
            hit = True
        if hit:
            self.access_states.append((v, getattr(node, 'lineno', 0)))
        return (v,)


def gate(ctx):
    R, p = ctx.r, ctx.p
    rule = 'C11.gate'
    ci = p.cls(ATTR)
    if ci is None:
        R.bad(rule, ATTR, f'anchor missing: {ATTR}')
        return
    for fname, reqs in REQ.items():
        fn = ci.methods.get(fname)
        if fn is None:
            R.bad(rule, f'{ATTR}.{fname}', f'anchor missing: {ATTR}.{fname}')
            continue
        dom = GateDomain()
        paths.run(fn, dom, frozenset())
        if not dom.access_states:
            R.bad(rule, f'{ATTR}.{fname} | value access', 'no access to self.value recognised', p.loc(fn))
            continue
        for bit, (err, conn_attr) in reqs.items():
            missing = [ln for v, ln in dom.access_states if bit not in v]
            key = f'{ATTR}.{fname} | {bit}'
            if missing:
                R.bad(rule, key, f'the value is accessed (line {missing[0]}) on a path that never tests the {bit} permission: an attribute lacking that permission is still {"disclosed" if fname == "read_value" else "modified"}', p.loc(fn))
                continue
            # shape of the refusing test
            tests = [n for n in walk_local(fn) if isinstance(n, ast.If) and any(_bit_of(norm(a)) == bit for a in _atoms(n.test))]
            ok = False
            why = f'{len(tests)} tests'
            for t in tests:
                atoms = {norm(a) for a in _atoms(t.test)}
                raises = [r for r in t.body if isinstance(r, ast.Raise)]
                code = norm(kwarg(raises[0].exc, 'error_code')) if raises and isinstance(raises[0].exc, ast.Call) and kwarg(raises[0].exc, 'error_code') is not None else None
                bit_atom = {a for a in atoms if _bit_of(a) == bit}
                rest = atoms - bit_atom
                negated_plain = any(a.startswith('not ') for a in bit_atom)
                if conn_attr:
                    want_rest = {'connection is not None', f'not connection.{conn_attr}'}
                else:
                    want_rest = set()
                plain = bit in ('READABLE', 'WRITEABLE')
                if code == err and rest == want_rest and (negated_plain == plain) and isinstance(t.test, (ast.BoolOp, ast.BinOp, ast.UnaryOp)) and not (isinstance(t.test, ast.BoolOp) and isinstance(t.test.op, ast.Or)):
                    ok = True
                else:
                    why = f'test atoms {sorted(atoms)} raise {code}'
            R.check(ok, rule, key, f'tested before every value access; refuses with {err} exactly when the bit is set' + (f' and the link is not {conn_attr}' if conn_attr else ''),
                    f'{bit}: the refusing test is not `bit set' + (f' and connection is not None and not connection.{conn_attr}' if conn_attr else '') + f' -> {err}` ({why})', p.loc(fn))


def _atoms(test):
    if isinstance(test, ast.BoolOp):
        out = []
        for v in test.values:
            out += _atoms(v)
        return out
    return [test]


def access(ctx):
    R, p = ctx.r, ctx.p
    rule = 'C11.access'
    srv = p.cls(SRV)
    if srv is None:
        R.bad(rule, SRV, f'anchor missing: {SRV}')
        return
    READERS = {'on_att_find_by_type_value_request', 'on_att_read_by_type_request', 'on_att_read_request', 'on_att_read_blob_request',
               'on_att_read_by_group_type_request', 'on_att_read_multiple_request', 'on_att_read_multiple_variable_request'}
    WRITERS = {'on_att_write_request', 'on_att_write_command'}
    n = 0
    for name, m in sorted(srv.methods.items()):
        if not name.startswith('on_att_'):
            continue
        n += 1
        direct = [x for x in ast.walk(m) if isinstance(x, ast.Attribute) and x.attr in ('value', '_value') and not isinstance(getattr(x, '_parent', None), ast.Call)]
        direct += [x for x in ast.walk(m) if isinstance(x, ast.Attribute) and x.attr in ('value', '_value') and isinstance(getattr(x, '_parent', None), ast.Call) and x._parent.func is not x]
        # enum members like Foo.BAR.value are not attribute values
        direct = [x for x in direct if not (dotted(x.value) or '').isupper()]
        R.check(not direct, rule, f'{SRV}.{name} | no direct value access', 'handler never touches `.value`; values flow only through read_value/write_value',
                f'handler reads or writes an attribute\'s `.value` directly ({text(direct[0]) if direct else ""}), bypassing the permission gate', p.loc(direct[0]) if direct else p.loc(m))
        gates = {call_attr(c) for c in calls_in(m)} & {'read_value', 'write_value'}
        if name in READERS:
            R.check('read_value' in gates, rule, f'{SRV}.{name} | reads through the gate', 'uses Attribute.read_value', 'reading handler does not call Attribute.read_value', p.loc(m))
        if name in WRITERS:
            R.check('write_value' in gates, rule, f'{SRV}.{name} | writes through the gate', 'uses Attribute.write_value', 'writing handler does not call Attribute.write_value', p.loc(m))
        # refusals answered with the error raised by the gate
        for h in [x for x in ast.walk(m) if isinstance(x, ast.ExceptHandler) and x.type is not None and 'ATT_Error' in text(x.type)]:
            resp = [c for c in ast.walk(h) if isinstance(c, ast.Call) and call_attr(c) == 'ATT_Error_Response']
            for c in resp:
                ec = kwarg(c, 'error_code')
                R.check(ec is not None and h.name and norm(ec) == f'{h.name}.error_code', rule, f'{SRV}.{name} | refusal answered with the gate\'s error @{len(R.obs)}', 'Error Response carries error.error_code',
                        f'a refused access is answered with {text(ec)} instead of the error raised by the permission gate', p.loc(c))
    # a refusal raised by the gate inside a task-wrapped handler must be handled there:
    # nothing above a task can answer for it, the client would get no reply at all
    from .c10 import _is_task_wrapped
    for name in sorted((READERS | WRITERS) & set(srv.methods)):
        m = srv.methods[name]
        if not _is_task_wrapped(m):
            continue
        for gi, c in enumerate([c_ for c_ in calls_in(m) if call_attr(c_) in ('read_value', 'write_value')]):
            handled = False
            a = getattr(c, '_parent', None)
            prev = c
            while a is not None and a is not m:
                if isinstance(a, ast.Try) and any(prev is s_ or any(prev is x for x in ast.walk(s_)) for s_ in a.body):
                    for h in a.handlers:
                        ts = h.type.elts if isinstance(h.type, ast.Tuple) else ([h.type] if h.type is not None else [])
                        names = {text(t).split('.')[-1] for t in ts} or {'<bare>'}
                        if names & {'ATT_Error', 'ProtocolError', 'Exception', 'BaseException', '<bare>'}:
                            handled = True
                prev, a = a, getattr(a, '_parent', None)
            R.check(handled, rule, f'{SRV}.{name} | refusal handled in the task #{gi + 1}', 'the gate call is inside try/except ATT_Error of the task-wrapped handler',
                    'a refusal raised by the permission gate escapes the task-wrapped handler: the request is never answered (the client times out instead of receiving the error or a non-match)', p.loc(c))
    # requests that either succeed completely or fail with the error of the refused attribute
    ALWAYS_ERROR = {'on_att_read_request', 'on_att_read_blob_request', 'on_att_read_multiple_request', 'on_att_read_multiple_variable_request', 'on_att_write_request'}
    for name in sorted(ALWAYS_ERROR & set(srv.methods)):
        m = srv.methods[name]
        for hi, h in enumerate([x for x in ast.walk(m) if isinstance(x, ast.ExceptHandler) and x.type is not None and 'ATT_Error' in text(x.type)]):

            class D(paths.Domain):
                def event(self, node, v):
                    if isinstance(node, ast.Call) and call_attr(node) == 'ATT_Error_Response':
                        return (min(v + 1, 2),)
                    return (v,)

                def ret(self, node, v):
                    return 'left'
            in_loop = False
            a_ = getattr(h, '_parent', None)
            while a_ is not None and a_ is not m:
                if isinstance(a_, (ast.For, ast.AsyncFor, ast.While)):
                    in_loop = True
                a_ = getattr(a_, '_parent', None)
            res = paths.run_block(h.body, D(), 0)
            bad = []
            for k, st in res.items():
                for v, w in st.items():
                    if k.startswith('raise'):
                        continue
                    if v != 1 or (in_loop and k != 'ret:left'):
                        bad.append(f'{k} with {v} error response(s) ({" ".join(w)})')
            R.check(not bad, rule, f'{SRV}.{name} | refusal always answered with the error #{hi + 1}', 'every path of the refusal handler produces exactly one Error Response (and, inside a per-attribute loop, leaves the handler)',
                    'a refusal by the permission gate can be turned into a success response carrying what was collected so far (or into no response): the client is not told that an attribute of its request was refused', p.loc(h), bad[:2])
    # list requests: a refusal of the *first* matching attribute is what the client is told (no list, no "not found")
    from collections import namedtuple
    FV = namedtuple('FV', 'attrs resp refused sent')

    def _kind(call):
        if call_attr(call) == 'ATT_Error_Response':
            ec = kwarg(call, 'error_code')
            return 'gate-error' if ec is not None and norm(ec).endswith('.error_code') else 'other-error'
        return 'success' if (call_attr(call) or '').endswith('_Response') else None

    class First(paths.Domain):
        def may_raise(self, call):
            return 'ATT_Error' if call_attr(call) == 'read_value' else False

        def is_subclass(self, tag, name):
            return tag == name or name in ('Exception', 'BaseException')

        def event(self, node, v):
            if isinstance(node, ast.Assign) and len(node.targets) == 1:
                tg = dotted(node.targets[0])
                if tg == 'attributes':
                    return (v._replace(attrs='empty' if isinstance(node.value, (ast.List, ast.Tuple)) and not node.value.elts else 'unknown'),)
                if tg == 'response' and isinstance(node.value, ast.Call) and _kind(node.value):
                    return (v._replace(resp=_kind(node.value)),)
            if isinstance(node, ast.Call):
                if dotted(node.func) == 'attributes.append':
                    return (v._replace(attrs='nonempty'),)
                if dotted(node.func) == 'self.send_response' and len(node.args) == 2:
                    a = node.args[1]
                    k = _kind(a) if isinstance(a, ast.Call) else (v.resp if dotted(a) == 'response' else 'unknown')
                    return (v._replace(sent=v.sent + (k,)),)
            return (v,)

        def assume(self, atom, truth, v):
            if norm(atom) == 'attributes':
                if v.attrs == 'empty':
                    return () if truth else (v,)
                if v.attrs == 'nonempty':
                    return (v,) if truth else ()
            return (v,)

        def enter_handler(self, handler, v):
            if handler.type is not None and 'ATT_Error' in text(handler.type):
                return (v._replace(refused=v.refused or v.attrs == 'empty'),)
            return (v,)
    for name in ('on_att_read_by_type_request', 'on_att_read_by_group_type_request'):
        m = srv.methods.get(name)
        if m is None:
            continue
        res = paths.run(m, First(), FV('unknown', 'none', False, ()))
        outs = {(k, v) for k, st in res.items() if not k.startswith('raise') for v in st}
        bad = sorted(f'{k}: sent {list(v.sent)}' for k, v in outs if v.refused and v.sent != ('gate-error',))
        R.check(any(v.refused for k, v in outs) and not bad, rule, f'{SRV}.{name} | first refusal reaches the client', 'when the gate refuses the first matching attribute, exactly one response is sent and it is the Error Response carrying the gate\'s error',
                'the refusal of the first matching attribute is not what the client receives (overwritten by "attribute not found" or by a list): the client is told there is nothing there instead of being told to raise its security', p.loc(m), bad[:3])
    # value provenance: whatever a reading handler puts into a success response is computed, in this very invocation, from
    # the request, the bearer and what the gate returned; no other server-side state (a cache shared between links, a
    # snapshot taken for another bearer) may feed a response value
    ALLOWED_STATE = {'attributes', 'get_attribute', 'attributes_by_handle'}
    for name in sorted(READERS & set(srv.methods)):
        m = srv.methods[name]
        sinks = [c for c in ast.walk(m) if isinstance(c, ast.Call) and (call_attr(c) or '').endswith('_Response') and call_attr(c) != 'ATT_Error_Response']
        work = [k.value for c in sinks for k in c.keywords] + [a for c in sinks for a in c.args]
        seen, state = set(), {}
        while work:
            e = work.pop()
            for x in ast.walk(e):
                if isinstance(x, ast.Attribute) and isinstance(x.value, ast.Name) and x.value.id == 'self' and x.attr not in ALLOWED_STATE:
                    state.setdefault(x.attr, x)
                if isinstance(x, ast.Name) and x.id not in seen:
                    seen.add(x.id)
                    for n in ast.walk(m):
                        if isinstance(n, ast.Assign) and any(isinstance(y, ast.Name) and y.id == x.id for t_ in n.targets for y in ast.walk(t_)):
                            work.append(n.value)
                        elif isinstance(n, ast.AugAssign) and isinstance(n.target, ast.Name) and n.target.id == x.id:
                            work.append(n.value)
                        elif isinstance(n, ast.NamedExpr) and n.target.id == x.id:
                            work.append(n.value)
                        elif isinstance(n, (ast.For, ast.AsyncFor, ast.comprehension)) and any(isinstance(y, ast.Name) and y.id == x.id for y in ast.walk(n.target)):
                            work.append(n.iter)
                        elif isinstance(n, ast.Call) and isinstance(n.func, ast.Attribute) and n.func.attr in ('append', 'extend', 'insert', 'update', 'setdefault') and isinstance(n.func.value, ast.Name) and n.func.value.id == x.id:
                            work.extend(n.args)
        R.check(bool(sinks) and not state, rule, f'{SRV}.{name} | value provenance', f'{len(sinks)} success response(s) built only from the request, the bearer and the gate\'s result ({len(seen)} locals in the slice)',
                f'a response value is computed from server state `self.{sorted(state)[0] if state else ""}` besides the permission gate: data obtained for one link (or at another time) can be served on a link that the gate would refuse', p.loc(next(iter(state.values()))) if state else p.loc(m))
    missing = (READERS | WRITERS) - set(srv.methods)
    for mname in sorted(missing):
        R.bad(rule, f'{SRV}.{mname}', f'anchor missing: {SRV}.{mname}')
    # notifications read through the gate as well
    for mname in ('_notify_single_subscriber', '_indicate_single_bearer'):
        m = srv.methods.get(mname)
        if m is not None:
            direct = [x for x in ast.walk(m) if isinstance(x, ast.Attribute) and x.attr == 'value' and dotted(x.value) == 'attribute']
            R.check(not direct, rule, f'{SRV}.{mname} | no direct value access', 'server-initiated updates read through read_value', 'notification path reads attribute.value directly', p.loc(m))
    R.floor(rule, 20, 'handler obligations')


def declared_permissions(ctx):
    """What the application declared is what the server registers: add_service adds the application's own attribute objects
    (their permissions included) and constructs attributes of its own only where the application declared none."""
    R, p = ctx.r, ctx.p
    rule = 'C11.declared-permissions'
    fn = p.find(f'{SRV}.add_service')
    if fn is None:
        R.bad(rule, f'{SRV}.add_service', 'anchor missing')
        return
    n = 0
    for loop in [l for l in ast.walk(fn) if isinstance(l, ast.For) and isinstance(l.target, ast.Name)]:
        t = loop.target.id
        adds = [c for c in calls_in(loop) if dotted(c.func) == 'self.add_attribute' and c.args and dotted(c.args[0]) == t]
        if not adds and t not in ('descriptor', 'characteristic'):
            continue
        n += 1
        rebinds = [x for x in ast.walk(loop) if x is not loop and isinstance(x, (ast.Assign, ast.AugAssign, ast.NamedExpr, ast.AnnAssign)) and any(isinstance(y, ast.Name) and y.id == t and isinstance(y.ctx, ast.Store) for y in ast.walk(x))]
        R.check(bool(adds) and not rebinds, rule, f'{SRV}.add_service | {t}', f'every declared {t} is registered as the object the application supplied',
                f'inside the loop over the declared {t}s the variable `{t}` is replaced before it is registered (line {rebinds[0].lineno if rebinds else "?"}): the attribute in the table is not the declared one and its declared permissions are lost' if rebinds else f'declared {t}s are not registered', p.loc(rebinds[0]) if rebinds else p.loc(loop))
    own = [c for c in ast.walk(fn) if isinstance(c, ast.Call) and call_attr(c) in ('Descriptor', 'Characteristic', 'Attribute')]
    for c in own:
        g = [(norm(t_), pol) for t_, pol in paths.flat_guards(c)]
        ok = any('get_descriptor(' in t_ and t_.rstrip().endswith('is None') and pol for t_, pol in g)
        R.check(ok, rule, f'{SRV}.add_service | {call_attr(c)} built by the server @{c.lineno - fn.lineno}', 'constructed only where the application declared no such attribute',
                'the server builds an attribute with permissions of its own although the application may have declared one: the declared security requirements are replaced by the defaults', p.loc(c))
    R.check(n >= 2 and len(own) >= 1, rule, f'{SRV}.add_service | census', f'{n} loops over declared attributes, {len(own)} server-built attribute(s)', f'only {n} loops / {len(own)} constructions recognised')


def bits(ctx):
    R, p = ctx.r, ctx.p
    rule = 'C11.bits'
    pc = p.cls(f'{ATTR}.Permissions')
    if pc is None:
        R.bad(rule, f'{ATTR}.Permissions', 'anchor missing')
        return
    vals = {k: const(v) for k, v in pc.assigns.items() if is_const(v)}
    for k, v in sorted(vals.items()):
        R.check(v > 0 and v & (v - 1) == 0 and list(vals.values()).count(v) == 1, rule, f'{ATTR}.Permissions.{k}', f'0x{v:02X}: one distinct bit', f'{k} = 0x{v:02X} is not a distinct single bit', '')
    R.check(set(vals) == set(REQ['read_value']) | set(REQ['write_value']), rule, f'{ATTR}.Permissions | members', '8 flags: 4 per direction', f'permission flags changed: {sorted(vals)}', '')
    ci = p.cls(ATTR)
    for fname, own in (('read_value', 'READ'), ('write_value', 'WRIT')):
        fn = ci.methods.get(fname)
        if fn is None:
            continue
        used = {x.attr for x in ast.walk(fn) if isinstance(x, ast.Attribute) and x.attr in vals}
        wrong = {u for u in used if not u.startswith(own)}
        R.check(not wrong, rule, f'{ATTR}.{fname} | own direction', f'tests only {sorted(used)}', f'{fname} tests flags of the other direction: {sorted(wrong)}', p.loc(fn))
    # the error codes with which a refusal is reported: values of the specification (Vol 3 Part F 3.4.1.1) and module aliases
    ec = p.cls(f'{ATTR.rsplit(".", 1)[0]}.ErrorCode')
    am = p.modules.get(ATTR.rsplit('.', 1)[0])
    SPEC = {'INSUFFICIENT_AUTHENTICATION': 0x05, 'INSUFFICIENT_AUTHORIZATION': 0x08, 'INSUFFICIENT_ENCRYPTION_KEY_SIZE': 0x0C, 'INSUFFICIENT_ENCRYPTION': 0x0F, 'READ_NOT_PERMITTED': 0x02, 'WRITE_NOT_PERMITTED': 0x03}
    if ec is None or am is None:
        R.bad(rule, 'bumble.att.ErrorCode', 'anchor missing')
    else:
        ev = {k: const(v) for k, v in ec.assigns.items() if is_const(v)}
        wrong = {k: ev.get(k) for k, v in SPEC.items() if ev.get(k) != v}
        R.check(not wrong, rule, 'bumble.att.ErrorCode | security codes', 'the six permission / security error codes have their specified values', f'error code values differ from the specification: {wrong}', p.loc(ec.node))
        al = {k: text(v) for k, v in am.assigns.items() if k.startswith('ATT_') and k.endswith('_ERROR') and text(v).startswith('ErrorCode.')}
        crossed = {k: v for k, v in al.items() if v.split('.')[-1] != k[4:-6]}
        R.check(len(al) >= 15 and not crossed, rule, 'bumble.att | ATT_*_ERROR aliases', f'{len(al)} aliases, each bound to the member of the same name', f'alias bound to a differently named error code: {crossed}: a refusal is reported with the wrong reason', '')
    # legacy aliases map to the same member
    for k in vals:
        a = ci.assigns.get(k)
        R.check(a is not None and norm(a) == f'Permissions.{k}', rule, f'{ATTR}.{k} alias', 'alias of Permissions.' + k, f'Attribute.{k} is not an alias of Permissions.{k}', '')


CLASSIC_ONLY_AUTH = {
    'bumble.device.Device.on_connection_authentication': 'HCI Authentication Complete exists on BR/EDR only; ATT permissions on BR/EDR links are outside what is demonstrated here',
}


def authenticated_source(ctx):
    """The gate tests `connection.authenticated`: on an LE link that flag may become true only from the strength of the key in
    use (pairing method / stored key's authenticated flag), not merely because pairing ended or the link got encrypted."""
    R, p = ctx.r, ctx.p
    rule = 'C11.authenticated-source'
    m = p.modules.get('bumble.device')
    if m is None:
        R.bad(rule, 'bumble.device', 'anchor missing')
        return
    n = 0
    for fn in [x for x in ast.walk(m.tree) if isinstance(x, FUNC)]:
        q = p.qual_of(fn)
        for st in walk_local(fn):
            if not (isinstance(st, ast.Assign) and any(isinstance(t, ast.Attribute) and t.attr == 'authenticated' and not (isinstance(t.value, ast.Name) and t.value.id == 'self') for t in st.targets)):
                continue
            n += 1
            if q in CLASSIC_ONLY_AUTH:
                R.ok(rule, f'{q} | authenticated = {norm(st.value)}', 'named exception: ' + CLASSIC_ONLY_AUTH[q], p.loc(st), trivial=True)
                continue
            guards = [norm(t) for t, pol in paths.flat_guards(st, stop=fn)]
            if any('PhysicalTransport.BR_EDR' in g for g in guards):
                R.ok(rule, f'{q} | authenticated = {norm(st.value)} (BR/EDR)', 'BR/EDR branch (AES-CCM implies a Secure Connections link key); not claimed', p.loc(st), trivial=True)
                continue
            from_key = not (isinstance(st.value, ast.Constant)) and any(w in norm(st.value) for w in ('authenticated', 'pairing_method', 'mitm', 'key_type'))
            guarded = any(any(w in g for w in ('.authenticated', 'pairing_method', 'key_type')) and 'connection.authenticated' not in g for g in guards)
            R.check(from_key or guarded, rule, f'{q} | authenticated = {norm(st.value)}', 'derived from the strength of the key in use',
                    f'{q.split(".")[-1]} sets the connection\'s `authenticated` flag to {norm(st.value)} whatever key protects the link: after Just Works pairing (no MITM protection) attributes that require authentication are readable / writable', p.loc(st))
    R.check(n >= 2, rule, 'bumble.device | writers of Connection.authenticated', f'{n} assignments examined', f'only {n} assignments found')


def except_name_rule(ctx):
    from ..generic_rules import except_name_escape
    except_name_escape(ctx, 'C11.except-name', ['bumble.gatt_server', 'bumble.att', 'bumble.gatt'])


def permissions_writers(ctx):
    """The gate tests `attribute.permissions`: what the application declared is what is tested.  The field is written once,
    in Attribute.__init__, from the constructor argument; nothing narrows it afterwards (by properties or otherwise)."""
    R, p = ctx.r, ctx.p
    rule = 'C11.permissions-writers'
    n = 0
    for mn in ('bumble.att', 'bumble.gatt', 'bumble.gatt_server', 'bumble.gatt_adapters'):
        m = p.modules.get(mn)
        if m is None:
            continue
        for st in [x for x in ast.walk(m.tree) if isinstance(x, (ast.Assign, ast.AugAssign, ast.AnnAssign))]:
            tg = st.targets if isinstance(st, ast.Assign) else [st.target]
            for t in tg:
                if isinstance(t, ast.Attribute) and t.attr == 'permissions':
                    n += 1
                    q = p.qual_of(st)
                    ok = isinstance(st, ast.Assign) and q.endswith('Attribute.__init__') and (norm(st.value) == 'permissions' or 'from_string(permissions)' in norm(st.value))
                    R.check(ok, rule, f'{q} | {norm(st)[:60]}', 'stored from the constructor argument', f'`{norm(st)[:70]}` changes an attribute\'s permissions after / other than by its declaration: the access gate then tests something else than what the application required (requirement bits cleared -> protected value readable / writable on a plain link)', f'{m.rel}:{st.lineno}')
    R.check(n >= 2, rule, 'bumble.att, bumble.gatt | writers of .permissions', f'{n} assignments, all in Attribute.__init__ from the argument', f'only {n} assignments found')


def absent_accessor(ctx):
    """A dynamic value without a read (write) function refuses the access by raising: Attribute.read_value / write_value turn
    that into an Error Response.  Returning instead discloses an (empty) value of an attribute that is not readable."""
    R, p = ctx.r, ctx.p
    rule = 'C11.absent-accessor'
    n = 0
    for cn in ('bumble.att.AttributeValue', 'bumble.att.AttributeValueV2'):
        ci = p.cls(cn)
        if ci is None:
            R.bad(rule, cn, 'anchor missing')
            continue
        for mname, slot in (('read', 'self._read'), ('write', 'self._write')):
            fn = ci.methods.get(mname)
            if fn is None:
                R.bad(rule, f'{cn}.{mname}', 'anchor missing')
                continue
            n += 1
            bad = []

            class D(paths.Domain):
                def assume(self, atom, truth, v):
                    if isinstance(atom, ast.Compare) and norm(atom.left) == slot and isinstance(atom.ops[0], (ast.Is, ast.IsNot)) and norm(atom.comparators[0]) == 'None':
                        return ('absent' if (isinstance(atom.ops[0], ast.Is) == truth) else 'present',)
                    if norm(atom) == slot:
                        return ('present' if truth else 'absent',)
                    return (v,)
            res = paths.run(fn, D(), 'unknown')
            seen_absent = False
            for k, st in res.items():
                for v, w in st.items():
                    if v == 'absent':
                        seen_absent = True
                        if not k.startswith('raise'):
                            bad.append(f'{k} via {" ".join(w)}')
                    if v == 'unknown' and not k.startswith('raise'):
                        bad.append(f'{slot} is used untested ({k})')
            R.check(seen_absent and not bad, rule, f'{cn}.{mname}', f'raises when {slot} is None', f'{mname}() returns although there is no {mname} function ({bad[:1]}): a non-{"read" if mname == "read" else "writ"}able dynamic value is answered as if the access had succeeded (an empty value disclosed / a write acknowledged) instead of an Error Response', p.loc(fn))
    R.check(n == 4, rule, 'bumble.att | dynamic value accessors', '4 accessors', f'{n} found')


def gate_argument(ctx):
    """The permission gate decides on the link the request came in on: every handler of the GATT server passes its own
    `bearer` to Attribute.read_value / write_value (a derived object may be None, which the gate takes for "no link to
    check")."""
    R, p = ctx.r, ctx.p
    rule = 'C11.gate-argument'
    ci = p.cls(SRV)
    if ci is None:
        R.bad(rule, SRV, 'anchor missing')
        return
    n = 0
    for name, fn in sorted(ci.methods.items()):
        params = [a.arg for a in fn.args.args]
        for c in [x for x in calls_in(fn) if call_attr(x) in ('read_value', 'write_value')]:
            if 'bearer' not in params:
                continue
            n += 1
            a0 = c.args[0] if c.args else None
            R.check(isinstance(a0, ast.Name) and a0.id == 'bearer', rule, f'{SRV}.{name} | {call_attr(c)}', 'the handler\'s bearer', f'{name} calls {call_attr(c)}({norm(a0) if a0 is not None else ""}, ...) instead of passing its bearer: when that object is None (or is not the link of the request) the encryption / authentication requirements of the attribute are skipped and a protected value is disclosed or changed', p.loc(c))
    R.check(n >= 9, rule, f'{SRV} | gate calls', f'{n} calls', f'only {n} calls found')


def permission_names(ctx):
    """Attribute.Permissions.from_string recognises every flag name: the names are obtained by splitting the string on its
    separators (`,` and `|`), so that a name the enum does not know raises - never by a pattern that can silently skip a
    name (one that has no `_` in its character class loses all six *_REQUIRES_* flags)."""
    R, p = ctx.r, ctx.p
    rule = 'C11.permission-names'
    fn = p.find('bumble.att.Attribute.Permissions.from_string')
    ci = p.cls('bumble.att.Attribute.Permissions')
    if fn is None or ci is None:
        R.bad(rule, 'bumble.att.Attribute.Permissions.from_string', 'anchor missing')
        return
    names = [k for k, v in ci.assigns.items() if isinstance(v, ast.Constant) and isinstance(v.value, int)]
    R.check(len(names) >= 8 and any('_' in k for k in names), rule, 'bumble.att.Attribute.Permissions | members', f'{len(names)} flags', f'only {len(names)} flags found', p.loc(ci.node))
    rx = [c for c in calls_in(fn) if (dotted(c.func) or '').startswith('re.')]
    splits = [c for c in calls_in(fn) if call_attr(c) == 'split']
    lookups = [s_ for s_ in ast.walk(fn) if isinstance(s_, ast.Subscript) and (dotted(s_.value) or '').endswith('Permissions')]
    R.check(bool(splits) and not rx and bool(lookups), rule, 'bumble.att.Attribute.Permissions.from_string', 'names obtained by split(), each looked up in the enum (an unknown name raises)', f'the flag names are extracted with `{norm(rx[0])[:60] if rx else "?"}`: a name the pattern does not match is dropped without an error, so a protected attribute declared with that flag is created without it and its value is served to anybody', p.loc(rx[0]) if rx else p.loc(fn))


def loader_clobber(ctx):
    from ..generic_rules import inner_loop_clobber
    inner_loop_clobber(ctx, 'C11.loader-clobber', ['bumble.device', 'bumble.gatt', 'bumble.gatt_server', 'bumble.att'])


RULES = [
    ('C11.loader-clobber', loader_clobber),
    ('C11.permission-names', permission_names),
    ('C11.gate-argument', gate_argument),
    ('C11.absent-accessor', absent_accessor),
    ('C11.permissions-writers', permissions_writers),
    ('C11.except-name', except_name_rule),
    ('C11.authenticated-source', authenticated_source),
    ('C11.declared-permissions', declared_permissions),
    ('C11.gate', gate),
    ('C11.access', access),
    ('C11.bits', bits),
]

VARIANTS = [
    ('authentication test gains an extra conjunct', 'bumble/att.py',
     "            (self.permissions & self.WRITE_REQUIRES_AUTHENTICATION)\n            and connection is not None\n            and not connection.authenticated\n        ):",
     "            (self.permissions & self.WRITE_REQUIRES_AUTHENTICATION)\n            and connection is not None\n            and not connection.authenticated\n            and not connection.encryption\n        ):", 'fire', 'C11.gate'),
    ('read encryption test uses write flag', 'bumble/att.py',
     "            (self.permissions & self.READ_REQUIRES_ENCRYPTION)\n", "            (self.permissions & self.WRITE_REQUIRES_ENCRYPTION)\n", 'fire', 'C11.'),
    ('authorization check dropped from read', 'bumble/att.py',
     "        if self.permissions & self.READ_REQUIRES_AUTHORIZATION:\n            # TODO: handle authorization better\n            raise ATT_Error(\n                error_code=ATT_INSUFFICIENT_AUTHORIZATION_ERROR, att_handle=self.handle\n            )\n\n        value: _T | None\n",
     "        value: _T | None\n", 'fire', 'C11.gate'),
    ('read auth check moved after the value access', 'bumble/att.py',
     "        if value is None:\n            return b''\n        try:\n            return self.encode_value(value)\n",
     "        if self.permissions & self.READ_REQUIRES_AUTHORIZATION:\n            raise ATT_Error(error_code=ATT_INSUFFICIENT_AUTHORIZATION_ERROR, att_handle=self.handle)\n        if value is None:\n            return b''\n        try:\n            return self.encode_value(value)\n", 'silent', ''),
    ('handler compares attribute.value directly', 'bumble/gatt_server.py',
     "                if (await attribute.read_value(bearer)) != request.attribute_value:\n", "                if attribute.value != request.attribute_value:\n", 'fire', 'C11.access'),
    ('write command writes the value itself', 'bumble/gatt_server.py',
     "        try:\n            await attribute.write_value(bearer, request.attribute_value)\n        except Exception:\n            logger.exception('!!! ignoring exception')\n",
     "        attribute.value = request.attribute_value\n", 'fire', 'C11.access'),
    ('wrong error code for encryption', 'bumble/att.py',
     "            and not connection.encryption\n        ):\n            raise ATT_Error(\n                error_code=ATT_INSUFFICIENT_ENCRYPTION_ERROR, att_handle=self.handle\n            )\n        if (\n            (self.permissions & self.READ_REQUIRES_AUTHENTICATION)",
     "            and not connection.encryption\n        ):\n            raise ATT_Error(\n                error_code=ATT_INSUFFICIENT_AUTHENTICATION_ERROR, att_handle=self.handle\n            )\n        if (\n            (self.permissions & self.READ_REQUIRES_AUTHENTICATION)", 'fire', 'C11.gate'),
    ('permission bits collide', 'bumble/att.py', "        WRITE_REQUIRES_ENCRYPTION = 0x08\n", "        WRITE_REQUIRES_ENCRYPTION = 0x04\n", 'fire', 'C11.bits'),
    ('refusal escapes the find-by-type-value task', 'bumble/gatt_server.py', "            try:\n                if (await attribute.read_value(bearer)) != request.attribute_value:\n                    continue\n            except att.ATT_Error:\n                # An attribute that cannot be read on this bearer does not match\n                continue\n", "            if (await attribute.read_value(bearer)) != request.attribute_value:\n                continue\n", 'fire', 'C11.access'),
]
