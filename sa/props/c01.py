"""C01 — HCI packets survive serialise/parse unchanged, for every packet class."""
from __future__ import annotations

import ast
import struct

from .. import bits, fields
from ..core import call_attr, calls_in, const, dotted, is_const, kwarg, norm, slice_parts, text, walk_local

EXPLANATION = [
    'C01.error-status-only: HCI_StatusReturnParameters.from_parameters returns a bare HCI_StatusReturnParameters on the error-status branch, without trying the command-specific fields.',
    'C01.absolute-offsets: HCI_Dataclass_Object.parse_from_bytes passes its (data, offset) on unchanged and returns the absolute offset (no parsing of a re-based slice).',
    'C01.empty-payload: the from_bytes of HCI_AclDataPacket / HCI_SynchronousDataPacket / HCI_IsoDataPacket never reject a packet on the truthiness of its payload slice (an empty payload is a legal value).',
    'C01.parsed-verbatim: in every function of bumble.hci that binds names with struct.unpack / unpack_from, no such name is afterwards replaced by a value that does not depend on it (zeroed, defaulted): parsed fields reach the object as read.',
    'C01.return-parameters-fields: every HCI return-parameters dataclass that declares fields of its own gets a wire layout: passed to sync_command(...) or given `fields` explicitly.',
    'C01.walrus: no assignment expression in bumble.hci captures the result of a comparison instead of the compared value (`x := d.get(k) is not None`).',
    'C01.zip-star: no parser in bumble.hci unpacks `zip(*rows)`: list-valued packets keep their zero-entry form (and their columns stay lists).',
    'C01.wire-fields-init: every dataclass field that carries wire metadata is a constructor argument (no init=False): parsers build objects with cls(**fields) and serialisers read the instance dict.',
    'C01.class-identity: no packet class registered by a decorator inherits from another registered class without stating its own code (the registering decorators derive code and name only when the class does not have them yet, so the inherited ones would be used and the parent replaced in the table).',
    'C01.decorator-order: every HCI packet class that is a dataclass and is registered by a decorator is made a dataclass first (innermost decorator), so the registration decorator sees its fields and builds the field table.',
    'C01.zero-valid: fields declared `int | None` in the anchored modules are tested for presence with `is None` / `is not None`, never by truthiness, so 0 (sequence number 0, time stamp 0, length 0) is handled like any other value.',
    'C01.signed-names: every HCI field named *rssi* or *tx_power* is declared with a signed spec (they are signed octets in the specification).',
    'C01.family-registries: every sub-event family (LE Meta, vendor) owns its dispatch table, so an unknown sub-event of one family can never be parsed as a class of another; every from_parameters factory that rebuilds an object from its fields also keeps the received parameter bytes.',
    'C01.codec-arms: HCI_Object.parse_field and serialize_field are sibling `match` tables over the same spec literals; per literal the '
    'struct format, width, signedness and endianness agree and the consumed size equals the produced size; the length-prefixed and '
    'repeated-group codecs agree on one count/length byte.',
    'C01.enum-spec: SpecableEnum/SpecableFlag.type_spec serialise and parse with the same (size, byteorder) and advance by size.',
    'C01.fields: every metadata-declared field of every HCI class is round-trippable: known spec kind; rest-of-packet field last and '
    'outside a repeated group; list_begin/list_end balanced and not nested; an address that reads its type from the preceding byte is '
    'directly preceded by a 1-byte field in the same group; parser-only specs have a type with a matching __bytes__; dict specs with a '
    'parser have a serializer.',
    'C01.registry: every decorated command/event/sub-event class resolves to exactly one code constant; codes are unique per registry; '
    'constants selected by a *_map filter do not share values.',
    'C01.frames: header struct formats, header bit fields (tiling the header word) and payload offsets agree between from_bytes and '
    '__bytes__ for commands, events, extended events, Command Complete, ACL, SCO and ISO packets; unknown opcodes/events keep raw parameters.',
    'Not decided: value-level round trip for all field values (runtime data).',
]
ASSUMPTIONS = ['dataclass field order is declaration order, bases first (Python semantics)']

H = 'bumble.hci'
KNOWN_CALLABLES = {
    # parser -> (bytes consumed, reason the value serialises to the same width)
    'Address.parse_address': (6, 'Address.__bytes__ is the 6 address bytes'),
    'Address.parse_random_address': (6, 'Address.__bytes__ is the 6 address bytes'),
    'Address.parse_address_preceded_by_type': (6, 'Address.__bytes__ is the 6 address bytes'),
    'CodingFormat.parse_from_bytes': (5, 'CodingFormat.__bytes__ packs <BHH'),
}


# ---------------------------------------------------------------------------
def _arms(fn):
    """{literal: case_node} of the (single) match statement on the spec."""
    out = {}
    for m in walk_local(fn):
        if isinstance(m, ast.Match):
            for case in m.cases:
                pt = case.pattern
                if isinstance(pt, ast.MatchValue) and is_const(pt.value):
                    out[const(pt.value)] = case
                elif isinstance(pt, ast.MatchClass) and dotted(pt.cls) == 'int' and case.guard is not None:
                    out['int-range'] = case
    return out


def _fmt_in(node):
    for c in ast.walk(node):
        if isinstance(c, ast.Call) and (dotted(c.func) or '') in ('struct.unpack_from', 'struct.unpack', 'struct.pack') and c.args and is_const(c.args[0]):
            return const(c.args[0]), c
    return None, None


def codec_arms(ctx):
    R, p = ctx.r, ctx.p
    rule = 'C01.codec-arms'
    pf = p.find(f'{H}.HCI_Object.parse_field')
    sf = p.find(f'{H}.HCI_Object.serialize_field')
    if pf is None or sf is None:
        R.bad(rule, f'{H}.HCI_Object.parse_field', 'anchor missing: parse_field / serialize_field')
        return
    pa, sa = _arms(pf), _arms(sf)
    want = {1, -1, 2, '>2', -2, 3, 4, '>4', '*', 'v'}
    R.check(want <= set(pa) and want <= set(sa), rule, f'{H}.HCI_Object | literal sets', f'both tables handle {sorted(map(str, want))}',
            f'spec literals differ: parse-only {sorted(map(str, set(pa) - set(sa) - {"int-range"}))}, serialise-only {sorted(map(str, set(sa) - set(pa)))}, missing {sorted(map(str, want - set(pa) - set(sa)))}', p.loc(pf))
    for lit in sorted(want & set(pa) & set(sa), key=str):
        pc, sc = pa[lit], sa[lit]
        pfmt, _ = _fmt_in(pc)
        sfmt, scall = _fmt_in(sc)
        # parse: returned tuple (value, size)
        rets = [r.value for r in ast.walk(pc) if isinstance(r, ast.Return) and isinstance(r.value, ast.Tuple) and len(r.value.elts) == 2]
        psize = norm(rets[0].elts[1]) if rets else None
        key = f'{H}.HCI_Object | spec {lit!r}'
        if lit in ('*', 'v'):
            if lit == 'v':
                ok = 'field_length + 1' == psize and any(slice_parts(n.value) == ('data', 'offset', 'offset + field_length') for n in ast.walk(pc) if isinstance(n, ast.Assign)) \
                    and any(norm(n.value) == 'data[offset]' for n in ast.walk(pc) if isinstance(n, ast.Assign)) \
                    and any(norm(r.value) == 'bytes([field_length]) + field_bytes' for r in ast.walk(sc) if isinstance(r, ast.Return))
                R.check(ok, rule, key, 'one length byte then that many bytes, on both sides', "'v' field: length prefix written and read differently", p.loc(pc))
            else:
                ok = psize == 'len(field_value)' and any(slice_parts(n.value) == ('data', 'offset', None) for n in ast.walk(pc) if isinstance(n, ast.Assign))
                R.check(ok, rule, key, 'parse takes the rest of the packet', "'*' field does not consume the rest of the packet", p.loc(pc))
            continue
        # produced width
        if sfmt is not None:
            produced = struct.calcsize(sfmt)
            par = getattr(scall, '_parent', None)
            if isinstance(par, ast.Subscript) and slice_parts(par):
                lo, hi = slice_parts(par)[1:]
                produced = int(hi) - int(lo)
        else:
            produced = 1 if any(norm(r.value) == 'bytes([field_value])' for r in ast.walk(sc) if isinstance(r, ast.Return)) else None
        consumed = int(psize) if psize and psize.lstrip('-').isdigit() else None
        if pfmt is not None:
            eff_p = pfmt
        else:
            eff_p = 'B' if any(norm(r.value.elts[0]) == 'data[offset]' for r in ast.walk(pc) if isinstance(r, ast.Return) and isinstance(r.value, ast.Tuple)) else None
        eff_s = sfmt if sfmt is not None else ('B' if produced == 1 else None)

        def canon(f):
            if f is None:
                return None
            f = f.replace('<', '') if len(f.replace('<', '').replace('>', '')) == 1 and struct.calcsize(f) == 1 else f
            return f

        same_fmt = canon(eff_p) == canon(eff_s)
        width_ok = consumed is not None and produced is not None and consumed == produced and consumed == abs(lit if isinstance(lit, int) else int(lit[1]))
        if lit == 3:
            # 24-bit: parse pads 3 bytes to '<I', serialise packs '<I' and keeps [0:3]
            pad_ok = any(slice_parts(x) == ('data', 'offset', 'offset + 3') for x in ast.walk(pc)) and 'bytes([0])' in norm(pc.body[0]) if pc.body else False
            same_fmt = same_fmt and pad_ok
        R.check(same_fmt and width_ok, rule, key, f'{eff_p}/{eff_s}: {consumed} byte(s) consumed = {produced} produced',
                f'spec {lit!r}: parse uses {eff_p} and consumes {consumed}, serialise uses {eff_s} and produces {produced}', p.loc(pc))
    # byte arrays: parse slice width == returned size == pad/truncate width
    if 'int-range' in pa:
        pc = pa['int-range']
        rets = [r.value for r in ast.walk(pc) if isinstance(r, ast.Return) and isinstance(r.value, ast.Tuple)]
        ok = rets and slice_parts(rets[0].elts[0]) == ('data', 'offset', 'offset + field_type') and norm(rets[0].elts[1]) == 'field_type' and norm(pc.guard) == '4 < field_type <= 256'
        R.check(ok, rule, f'{H}.HCI_Object | byte arrays (parse)', 'n-byte array: slice width == consumed == n for 4 < n <= 256', 'fixed byte-array parse arm changed', p.loc(pc))
        src = norm(sf)
        ok = 'field_bytes + bytes(field_type - len(field_bytes))' in src and 'field_bytes[:field_type]' in src and '4 < field_type <= 256' in src
        R.check(ok, rule, f'{H}.HCI_Object | byte arrays (serialise)', 'padded or truncated to exactly n bytes for the same range', 'fixed byte-array serialisation no longer pads/truncates to the declared width', p.loc(sf))
    # dict unwrapping: size wins on parse; serializer wins on serialise
    pre_p = [norm(n.test) for n in pf.body if isinstance(n, ast.If)]
    R.check(any('isinstance(field_type, dict)' in t for t in pre_p) and "'size' in field_type" in norm(pf) and "'parser' in field_type" in norm(pf) and "'serializer' in field_type" in norm(sf), rule,
            f'{H}.HCI_Object | dict specs', 'size / parser on parse, serializer / size on serialise', 'dict spec unwrapping changed', p.loc(pf))
    # repeated groups: one count byte on both sides, same iteration order
    df = p.find(f'{H}.HCI_Object.dict_and_offset_from_bytes')
    dt = p.find(f'{H}.HCI_Object.dict_to_bytes')
    if df is None or dt is None:
        R.bad(rule, f'{H}.HCI_Object.dict_and_offset_from_bytes', 'anchor missing')
    else:
        s1, s2 = norm(df), norm(dt)
        ok = 'item_count = data[offset]' in s1 and 'offset += 1' in s1 and 'for _ in range(item_count):' in s1 and 'offset += size' in s1 and 'offset += field_size' in s1
        R.check(ok, rule, f'{H}.HCI_Object.dict_and_offset_from_bytes', 'one count byte per group, then count x (fields in order), offset advanced by each parsed size', 'group/field offset bookkeeping changed', p.loc(df))
        ok = 'bytes([item_count]) + ' in s2 and 'for i in range(item_count)' in s2 and 'for sub_field_name, sub_field_type in object_field' in s2 and 'len(hci_object[object_field[0][0]])' in s2
        R.check(ok, rule, f'{H}.HCI_Object.dict_to_bytes', 'one count byte per group, items outer / fields inner (same order as the parser)', 'group serialisation order or count byte changed', p.loc(dt))
    fd = p.find(f'{H}.HCI_Object.fields_from_dataclass')
    if fd is not None:
        loop = next((x for x in walk_local(fd) if isinstance(x, ast.For)), None)
        order = [norm(s.test) for s in (loop.body if loop else []) if isinstance(s, ast.If)]
        R.check(order[-3:] == ['metadata.list_begin', 'metadata.spec', 'metadata.list_end'], rule, f'{H}.HCI_Object.fields_from_dataclass', 'group opened before and closed after the field that carries the marker', f'marker handling order is {order}', p.loc(fd))
    lp = p.find(f'{H}.HCI_Object.parse_length_prefixed_bytes')
    ls = p.find(f'{H}.HCI_Object.serialize_length_prefixed_bytes')
    if lp is not None and ls is not None:
        ok = 'length = data[offset]' in norm(lp) and 'offset + 1 + length, data[offset + 1:offset + 1 + length]' in norm(lp) and 'bytes([len(data)]) + data + padding' in norm(ls)
        R.check(ok, rule, f'{H}.HCI_Object | length-prefixed bytes', 'one length byte on both sides', 'length-prefixed bytes codec sides disagree', p.loc(lp))


def enum_spec(ctx):
    R, p = ctx.r, ctx.p
    rule = 'C01.enum-spec'
    # the enum bases of flag / enum typed fields keep every received bit: no `boundary=` other than KEEP (IntFlag's default),
    # and the open enum base accepts unknown values
    for q in (f'{H}.SpecableEnum', f'{H}.SpecableFlag'):
        ci = p.cls(q)
        if ci is None:
            R.bad(rule, q, 'anchor missing')
            continue
        kws = {k.arg: text(k.value).split('.')[-1] for k in ci.node.keywords}
        bases = [text(b).split('.')[-1] for b in ci.node.bases]
        ok = kws.get('boundary', 'KEEP') == 'KEEP' and (bases == ['IntFlag'] if q.endswith('Flag') else bases == ['OpenIntEnum'])
        R.check(ok, rule, f'{q} | keeps unknown bits', f'bases {bases}, boundary {kws.get("boundary", "default (KEEP)")}: a received value with undefined bits / an undefined code is kept as it is',
                f'{q} is declared with bases {bases} and {kws}: values with bits (or codes) that have no named member are altered or rejected when a field is parsed, so a packet does not parse back to the values it was built from', p.loc(ci.node))
    for q in (f'{H}.SpecableEnum', f'{H}.SpecableFlag'):
        fn = p.find(f'{q}.type_spec')
        if fn is None:
            R.bad(rule, f'{q}.type_spec', 'anchor missing')
            continue
        d = next((x for x in walk_local(fn) if isinstance(x, ast.Dict)), None)
        ent = {const(k): norm(v) for k, v in zip(d.keys, d.values)} if d else {}
        ok = ent.get('serializer') == 'lambda x: x.to_bytes(size, byteorder)' and ent.get('parser') == 'lambda data, offset: (offset + size, cls(int.from_bytes(data[offset:offset + size], byteorder)))'
        R.check(ok, rule, f'{q}.type_spec', 'to_bytes(size, byteorder) <-> from_bytes(data[offset:offset+size], byteorder), advance by size', f'enum spec sides disagree: {ent}', p.loc(fn))
        tm = p.find(f'{q}.type_metadata')
        if tm is not None:
            R.check('cls.type_spec(size, byteorder)' in norm(tm) and 'list_begin=list_begin' in norm(tm) and 'list_end=list_end' in norm(tm), rule, f'{q}.type_metadata', 'forwards size, byteorder and list markers', 'type_metadata does not forward its arguments', p.loc(tm))


# ---------------------------------------------------------------------------
def field_rules(ctx, rule, module_names, floor_classes, floor_fields):
    R, p = ctx.r, ctx.p
    n_c = n_f = 0
    for ci in sorted(p.classes.values(), key=lambda c: c.qual):
        if ci.module.name not in module_names:
            continue
        own = fields.own_fields(p, ci)
        if not own:
            continue
        fl = fields.class_fields(p, ci)
        n_c += 1
        n_f += len(own)
        probs = []
        depth = 0
        group_start = None
        for i, f in enumerate(fl):
            b = fields.base_spec(f.spec)
            k = b[0]
            if f.list_begin:
                depth += 1
                group_start = i
                if depth > 1:
                    probs.append(f'{f.name}: nested repeated group')
            if k in ('unknown', 'call'):
                if not (k == 'call' and b[1] in ('_string_spec',)):
                    probs.append(f'{f.name}: spec `{b[1]}` is of a kind the codec does not know')
            if k == 'rest' and (i != len(fl) - 1 or depth > 0):
                probs.append(f'{f.name}: rest-of-packet field is not the last field (it swallows {fl[i + 1].name if i + 1 < len(fl) else "the group"})')
            if k == 'callable':
                name = b[1]
                if name.endswith('parse_address_preceded_by_type'):
                    prev = fl[i - 1] if i > 0 else None
                    same_group = prev is not None and (depth == 0 or (group_start is not None and i - 1 >= group_start)) and not (f.list_begin)
                    if prev is None or fields.width(prev.spec) != 1 or not same_group:
                        probs.append(f'{f.name}: address reads its type from the preceding byte, but the preceding field ({prev.name if prev else None}) is not a 1-byte field in the same group')
                if name in KNOWN_CALLABLES or name.endswith('.parse_from_bytes') or name == '<lambda>':
                    pass
                elif name.split('.')[-1].startswith('parse_'):
                    # other parser-only specs: the annotated type must define __bytes__
                    t = text(f.annotation).split('[')[-1].rstrip(']').split('.')[-1].split(' ')[0]
                    tc = next((c for c in p.classes.values() if c.name == t), None)
                    if tc is None or not p.resolve_method(tc.qual, '__bytes__'):
                        probs.append(f'{f.name}: parser-only spec {name} and type {t} has no __bytes__')
            if k == 'dict':
                keys = b[1]
                if 'parser' in keys and 'serializer' not in keys and 'size' not in keys:
                    probs.append(f'{f.name}: dict spec has a parser but neither serializer nor size')
            if f.list_end:
                depth -= 1
                if depth < 0:
                    probs.append(f'{f.name}: list_end without list_begin')
                    depth = 0
        if depth != 0:
            probs.append('list_begin without list_end')
        R.check(not probs, rule, ci.qual, f'{len(fl)} field(s) round-trippable by construction', '; '.join(probs), p.loc(ci.node))
    R.extra.setdefault('field_census', {})[rule] = {'classes': n_c, 'fields': n_f}
    R.floor(rule, floor_classes, 'classes')
    return n_c, n_f


def hci_fields(ctx):
    field_rules(ctx, 'C01.fields', {H}, 280, 1000)
    # the callable parsers advance by the width their type serialises to
    R, p = ctx.r, ctx.p
    rule = 'C01.fields'
    pw = p.find(f'{H}.Address.parse_address_with_type')
    ab = p.find(f'{H}.Address.__bytes__')
    if pw is None or ab is None:
        R.bad(rule, f'{H}.Address.parse_address_with_type', 'anchor missing')
    else:
        rets = [r.value for r in walk_local(pw) if isinstance(r, ast.Return)]
        ok = rets and isinstance(rets[0], ast.Tuple) and norm(rets[0].elts[0]) == 'offset + 6' and 'data[offset:offset + 6]' in norm(rets[0].elts[1])
        R.check(ok, rule, f'{H}.Address.parse_address_with_type', 'consumes 6 bytes = the slice handed to the constructor', 'address parser advance and slice width differ', p.loc(pw))
    # the type-less address parsers fix the type their name says (fields serialised without a type byte: classic
    # addresses are public, resolvable private addresses are random); the type-preceded one reads the byte before the address
    FIXED = {'parse_address': 'PUBLIC_DEVICE_ADDRESS', 'parse_random_address': 'RANDOM_DEVICE_ADDRESS'}
    for nm, want in FIXED.items():
        fn = p.find(f'{H}.Address.{nm}')
        if fn is None:
            R.bad(rule, f'{H}.Address.{nm}', 'anchor missing')
            continue
        calls = [c for c in calls_in(fn) if call_attr(c) in ('parse_address_with_type',) or dotted(c.func) in ('cls', 'Address')]
        got = [text(c.args[-1]).split('.')[-1] if c.args else (text(kwarg(c, 'address_type')).split('.')[-1] if kwarg(c, 'address_type') is not None else '?') for c in calls]
        R.check(got == [want], rule, f'{H}.Address.{nm} | fixed type', f'addresses parsed by {nm} are {want}', f'{nm} gives the parsed address the type {got}, not {want}: a field built with one address type parses back with another', p.loc(fn))
    pt = p.find(f'{H}.Address.parse_address_preceded_by_type')
    if pt is not None:
        ok = any(isinstance(n, ast.Assign) and 'data[offset - 1]' in norm(n.value) for n in walk_local(pt)) and any(call_attr(c) == 'parse_address_with_type' and c.args and norm(c.args[-1]) == 'address_type' for c in calls_in(pt))
        R.check(ok, rule, f'{H}.Address.parse_address_preceded_by_type', 'type = the byte before the address, handed to the constructor', 'the type byte preceding an address is not applied', p.loc(pt))
    # hand-written codecs: an address that has a type field next to it is parsed together with that type
    hm = p.modules.get(H)
    n_hand = 0
    for q, ci in sorted(p.classes.items()):
        if ci.module is not hm:
            continue
        fp = ci.methods.get('from_parameters')
        if fp is None:
            continue
        assigned = {dotted(n.targets[0]): n.value for n in walk_local(fp) if isinstance(n, ast.Assign) and len(n.targets) == 1 and isinstance(n.targets[0], ast.Name)}
        for nm, val in sorted(assigned.items()):
            if nm.endswith('_address') and f'{nm}_type' in assigned:
                n_hand += 1
                t = norm(val)
                ok = 'parse_address_preceded_by_type' in t or f'{nm}_type' in t
                R.check(ok, rule, f'{q}.from_parameters | {nm}', f'{nm} is parsed together with {nm}_type', f'`{nm} = {t[:80]}` ignores {nm}_type: every peer address parses back as the constructor\'s default type (a public peer becomes random)', p.loc(fp))
    R.check(n_hand >= 1, rule, f'{H} | hand-written address fields', f'{n_hand} typed address field(s) in hand-written codecs', 'no hand-written typed address field found')
    cf = p.cls(f'{H}.CodingFormat')
    if cf is not None and 'parse_from_bytes' in cf.methods and '__bytes__' in cf.methods:
        f1, _ = _fmt_in(cf.methods['parse_from_bytes'])
        f2, _ = _fmt_in(cf.methods['__bytes__'])
        adv = [norm(r.value.elts[0]) for r in walk_local(cf.methods['parse_from_bytes']) if isinstance(r, ast.Return) and isinstance(r.value, ast.Tuple)]
        R.check(f1 == f2 and f1 is not None and adv == [f'offset + {struct.calcsize(f1)}'], rule, f'{H}.CodingFormat', f'{f1} on both sides, advance {struct.calcsize(f1) if f1 else "?"}', f'CodingFormat codec sides disagree ({f1} / {f2} / {adv})', p.loc(cf.node))


# ---------------------------------------------------------------------------
def registry(ctx):
    R, p = ctx.r, ctx.p
    rule = 'C01.registry'
    hm = p.modules.get(H)
    consts = {k: const(v) for k, v in hm.assigns.items() if is_const(v) and isinstance(const(v), int) and not isinstance(const(v), bool)}
    # opcode helpers: hci_command_op_code(ogf, ocf) = ogf << 10 | ocf (checked), vendor = OGF 0x3F
    oc = p.find(f'{H}.hci_command_op_code')
    ocf_ok = oc is not None and any(norm(r.value) == 'ogf << 10 | ocf' for r in walk_local(oc) if isinstance(r, ast.Return))
    R.check(ocf_ok, rule, f'{H}.hci_command_op_code', 'opcode = ogf << 10 | ocf', 'opcode composition changed', p.loc(oc) if oc else '')
    for k, v in hm.assigns.items():
        if isinstance(v, ast.Call) and all(is_const(a) or dotted(a) in consts for a in v.args):
            a = [const(x) if is_const(x) else consts[dotted(x)] for x in v.args]
            if call_attr(v) == 'hci_command_op_code' and len(a) == 2:
                consts[k] = a[0] << 10 | a[1]
            elif call_attr(v) == 'hci_vendor_command_op_code' and len(a) == 1:
                consts[k] = consts.get('HCI_VENDOR_OGF', 0x3F) << 10 | a[0]
    regs = {'command': {}, 'event': {}, 'le_subevent': {}}
    counts = {'command': 0, 'event': 0, 'le_subevent': 0}
    for ci in sorted(p.classes.values(), key=lambda c: c.qual):
        if ci.module.name != H:
            continue
        deco = [text(d) for d in ci.node.decorator_list]
        kind = None
        if any(d.endswith('HCI_Command.command') or 'sync_command(' in d for d in deco):
            kind = 'command'
        elif any(d == 'HCI_Event.event' for d in deco):
            kind = 'event'
        elif any(d == 'HCI_LE_Meta_Event.event' for d in deco):
            kind = 'le_subevent'
        if kind is None:
            continue
        counts[kind] += 1
        explicit = None
        for attr in ('op_code', 'event_code', 'subevent_code'):
            if attr in ci.assigns:
                try:
                    v = ci.assigns[attr]
                    explicit = consts.get(dotted(v)) if dotted(v) else const(v)
                except Exception:
                    pass
        cname = ci.name.upper()
        code = explicit if explicit is not None else consts.get(cname)
        R.check(code is not None, rule, f'{ci.qual} | code', f'resolves to {cname} = 0x{code:04X}' if code is not None else '', f'decorated class has no code constant named {cname} (registration raises at import)', p.loc(ci.node))
        if code is not None:
            if code in regs[kind]:
                R.bad(rule, f'{ci.qual} | unique', f'{kind} code 0x{code:04X} is shared with {regs[kind][code]}: one of them can never be parsed', p.loc(ci.node))
            regs[kind][code] = ci.name
    # *_map filters: names -> value must be injective per filter (maps are value -> name)
    filt = {
        'command_map': lambda n: n.startswith('HCI_') and n.endswith('_COMMAND'),
        'event_map': lambda n: n.startswith('HCI_') and not n.startswith('HCI_LE_') and n.endswith('_EVENT'),
        'le_subevent_map': lambda n: n.startswith('HCI_LE_') and n.endswith('_EVENT'),
    }
    for fname, pred in filt.items():
        seen = {}
        dups = []
        for n, v in consts.items():
            if pred(n):
                if v in seen:
                    dups.append((seen[v], n))
                seen[v] = n
        # known alias pairs are reported as observations only when both names have classes
        bad = [d for d in dups if all(any(c.name.upper() == x for c in p.classes.values() if c.module.name == H) for x in d)]
        R.check(not bad, rule, f'{H} | {fname} injective', f'{len(seen)} codes, no two registered classes share one', f'constants with equal values both have classes: {bad}', '')
    R.extra['registry_counts'] = counts
    R.check(counts['command'] >= 190 and counts['event'] >= 40 and counts['le_subevent'] >= 35, rule, f'{H} | registry sizes', str(counts), f'registries shrank: {counts}', '')
    # sync commands name a return-parameter class that exists
    n = 0
    for ci in p.classes.values():
        if ci.module.name != H:
            continue
        for d in ci.node.decorator_list:
            if isinstance(d, ast.Call) and 'sync_command' in text(d.func) and d.args:
                n += 1
                rp = dotted(d.args[0])
                R.check(rp is not None and (f'{H}.{rp}' in p.classes), rule, f'{ci.qual} | return parameters', f'{rp}', f'return parameter class {rp} not found', p.loc(ci.node), )
    R.floor(rule, 400, 'registry obligations')


# ---------------------------------------------------------------------------
def _word_fields_parse(fn, word):
    """{name: (shift, width)} from `x = [wrap(] (word >> s) & m [)]` / `word & m`."""
    out = {}
    for n in walk_local(fn):
        if isinstance(n, ast.Assign) and len(n.targets) == 1 and isinstance(n.targets[0], ast.Name):
            e = bits._strip_wrappers(n.value)
            shift, mask = 0, None
            if isinstance(e, ast.BinOp) and isinstance(e.op, ast.BitAnd) and is_const(e.right):
                mask = const(e.right)
                e = bits._strip_wrappers(e.left)
                if isinstance(e, ast.BinOp) and isinstance(e.op, ast.RShift) and is_const(e.right):
                    shift = const(e.right)
                    e = e.left
                if dotted(e) == word and bits._mask_width(mask):
                    out[n.targets[0].id] = (shift, bits._mask_width(mask))
    return out


def _word_fields_ser(expr):
    """{name: shift} from `(self.a << s) | self.b | ...`"""
    out = {}
    for t in bits._or_terms(expr):
        f, sh, w, c = bits.ser_term(t)
        if f:
            out[f] = sh
    return out


def frames(ctx):
    R, p = ctx.r, ctx.p
    rule = 'C01.frames'
    # --- command
    cf = p.find(f'{H}.HCI_Command.from_bytes')
    cb = p.find(f'{H}.HCI_Command.__bytes__')
    if cf is None or cb is None:
        R.bad(rule, f'{H}.HCI_Command', 'anchor missing: from_bytes / __bytes__')
    else:
        f1, c1 = _fmt_in(cf)
        f2, _ = _fmt_in(cb)
        off = const(c1.args[2]) if c1 is not None and len(c1.args) > 2 and is_const(c1.args[2]) else None
        pl = [slice_parts(n.value) for n in walk_local(cf) if isinstance(n, ast.Assign) and dotted(n.targets[0]) == 'parameters']
        ok = f1 == '<HB' and f2 == '<BHB' and off == 1 and pl == [('packet', str(1 + struct.calcsize('<HB')), None)]
        R.check(ok, rule, f'{H}.HCI_Command | header', "'<HB' at 1 <-> '<BHB'; parameters start at 4", f'command header: parse {f1}@{off}, serialise {f2}, parameters {pl}', p.loc(cf))
        src = norm(cf)
        R.check('HCI_Command(parameters, op_code=op_code)' in src and "len(parameters) != length" in src, rule, f'{H}.HCI_Command.from_bytes | unknown opcode', 'generic command keeps the raw parameters and the opcode; length is checked', 'unknown opcodes are not carried as generic commands with their raw parameters', p.loc(cf))
        args = [norm(a) for c in calls_in(cb) if dotted(c.func) == 'struct.pack' for a in c.args[1:]]
        R.check(args == ['HCI_COMMAND_PACKET', 'self.op_code', 'len(parameters)'], rule, f'{H}.HCI_Command.__bytes__ | fields', 'type, opcode, len(parameters)', f'header arguments {args}', p.loc(cb))
    # --- event
    ef = p.find(f'{H}.HCI_Event.from_bytes')
    eb = p.find(f'{H}.HCI_Event.__bytes__')
    if ef is None or eb is None:
        R.bad(rule, f'{H}.HCI_Event', 'anchor missing')
    else:
        src = norm(ef)
        ok = 'event_code = packet[1]' in src and 'parameters_length = packet[2]' in src and 'parameters = packet[3:3 + parameters_length]' in src
        R.check(ok, rule, f'{H}.HCI_Event.from_bytes | header', 'code at 1, length at 2, parameters at 3', 'event header offsets changed', p.loc(ef))
        sb = norm(eb)
        ok = 'bytes([HCI_EVENT_PACKET, self.event_code, len(parameters)]) + parameters' in sb
        R.check(ok, rule, f'{H}.HCI_Event.__bytes__ | header', 'type, code, len(parameters), parameters', 'event serialisation header changed', p.loc(eb))
        R.check('HCI_Event(event_code=event_code, parameters=parameters)' in src and 'HCI_LE_Meta_Event(subevent_code=subevent_code, parameters=parameters)' in src and 'HCI_Vendor_Event(data=parameters)' in src, rule,
                f'{H}.HCI_Event.from_bytes | unknown codes', 'unknown event / sub-event / vendor event keep their raw parameters', 'unknown events are not carried as generic events with their raw parameters', p.loc(ef))
        # a vendor factory that cannot parse the event (truncated, unknown layout) falls through to the generic vendor event
        fc = [c for c in ast.walk(ef) if isinstance(c, ast.Call) and dotted(c.func) == 'vendor_factory']
        okc = bool(fc)
        for c in fc:
            cont = False
            a, prev = getattr(c, '_parent', None), c
            while a is not None and a is not ef:
                if isinstance(a, ast.Try) and any(prev is s_ or any(prev is x for x in ast.walk(s_)) for s_ in a.body):
                    for h in a.handlers:
                        nm = {text(t).split('.')[-1] for t in (h.type.elts if isinstance(h.type, ast.Tuple) else [h.type])} if h.type is not None else {'<bare>'}
                        leaves = any(isinstance(x, (ast.Raise, ast.Return)) for x in ast.walk(h))
                        if nm & {'Exception', 'BaseException', '<bare>'} and not leaves:
                            cont = True
                prev, a = a, getattr(a, '_parent', None)
            okc = okc and cont
        R.check(okc, rule, f'{H}.HCI_Event.from_bytes | vendor factory contained', 'an exception raised by a registered vendor factory is caught and the generic vendor event is returned',
                'a vendor factory that raises on an event it cannot parse (empty or truncated vendor event) makes HCI_Event.from_bytes raise instead of returning a generic HCI_Vendor_Event with the raw bytes', p.loc(fc[0]) if fc else p.loc(ef))
    # --- extended event: parameters = [subevent] + fields  <->  parse at offset 1
    xf = p.find(f'{H}.HCI_Extended_Event.from_parameters')
    xi = p.find(f'{H}.HCI_Extended_Event.__init__')
    xc = p.cls(f'{H}.HCI_Extended_Event')
    if xf is None or xi is None or xc is None:
        R.bad(rule, f'{H}.HCI_Extended_Event', 'anchor missing')
    else:
        ok = 'HCI_Object.dict_from_bytes(parameters, 1, cls.fields)' in norm(xf)
        ok2 = 'bytes([self.subevent_code]) + HCI_Object.dict_to_bytes(kwargs, self.fields)' in norm(xi)
        prop = next((m for m in xc.node.body if isinstance(m, ast.FunctionDef) and m.name == 'parameters' and any('property' in text(d) for d in m.decorator_list)), None)
        ok3 = prop is not None and 'bytes([self.subevent_code]) + HCI_Object.dict_to_bytes(self.__dict__, self.fields)' in norm(prop)
        R.check(ok and ok2 and ok3, rule, f'{H}.HCI_Extended_Event | sub-event byte', 'fields parsed from offset 1 <-> one sub-event byte prepended on both construction paths', 'sub-event code byte is not skipped/prepended consistently', p.loc(xf))
    # --- command complete
    ccf = p.find(f'{H}.HCI_Command_Complete_Event.from_parameters')
    cc = p.cls(f'{H}.HCI_Command_Complete_Event')
    if ccf is None or cc is None:
        R.bad(rule, f'{H}.HCI_Command_Complete_Event', 'anchor missing')
    else:
        fl = fields.class_fields(p, cc)
        pre, _ = fields.fixed_prefix_width(fl)
        sl = [slice_parts(n.value) for n in walk_local(ccf) if isinstance(n, ast.Assign) and dotted(n.targets[0]) == 'return_parameters_bytes']
        R.check(sl == [('parameters', str(pre), None)], rule, f'{H}.HCI_Command_Complete_Event | return parameter offset', f'return parameters start at {pre} = width of the fields before them', f'return parameters sliced at {sl}, fixed fields are {pre} bytes', p.loc(ccf))
        src = norm(ccf)
        R.check('HCI_Command.command_classes.get(event.command_opcode)' in src and 'HCI_GenericReturnParameters(data=return_parameters_bytes)' in src and 'subclass.parse_return_parameters(return_parameters_bytes)' in src, rule,
                f'{H}.HCI_Command_Complete_Event | class lookup', 'return-parameter class looked up by the event\'s own opcode; unknown opcodes keep raw bytes', 'return parameter parsing no longer keyed by the command opcode', p.loc(ccf))
    # --- data packets
    spec = {
        'HCI_AclDataPacket': ('<HH', '<BHH', 'h', {'connection_handle': (0, 12), 'pb_flag': (12, 2), 'bc_flag': (14, 2)}, 5),
        'HCI_SynchronousDataPacket': ('<HB', '<BHB', 'h', {'connection_handle': (0, 12), 'packet_status': (12, 2)}, 4),
        'HCI_IsoDataPacket': ('<HH', '<BHH', 'pdu_info', {'connection_handle': (0, 12), 'pb_flag': (12, 2), 'ts_flag': (14, 1)}, None),
    }
    for cname, (pfmt, sfmt, word, lay, data_off) in spec.items():
        fb = p.find(f'{H}.{cname}.from_bytes')
        bb = p.find(f'{H}.{cname}.__bytes__')
        if fb is None or bb is None:
            R.bad(rule, f'{H}.{cname}', 'anchor missing')
            continue
        f1, c1 = _fmt_in(fb)
        sfirst = None
        for n in walk_local(bb):
            if isinstance(n, ast.Assign) and dotted(n.targets[0]) == 'fmt' and is_const(n.value):
                sfirst = const(n.value)
        if sfirst is None:
            sfirst, _ = _fmt_in(bb)
        R.check(f1 == pfmt and sfirst == sfmt and sfmt == '<B' + pfmt[1:], rule, f'{H}.{cname} | header format', f'{pfmt} after the type byte <-> {sfmt}', f'header formats: parse {f1}, serialise {sfirst}', p.loc(fb))
        P = _word_fields_parse(fb, word)
        # serialised word
        sexpr = None
        for n in ast.walk(bb):
            if isinstance(n, ast.Assign) and dotted(n.targets[0]) == 'h':
                sexpr = n.value
            if isinstance(n, ast.BinOp) and isinstance(n.op, ast.BitOr) and sexpr is None and 'connection_handle' in norm(n) and 'iso_sdu_length' not in norm(n):
                sexpr = n
        S = _word_fields_ser(sexpr) if sexpr is not None else {}
        for f, (sh, w) in lay.items():
            got = P.get(f)
            R.check(got == (sh, w) and S.get(f) == sh, rule, f'{H}.{cname}.{f}', f'bit {sh}, {w} bits parsed; shift {sh} serialised', f'{f}: parsed as {got}, serialised at shift {S.get(f)}, layout is bit {sh} width {w}', p.loc(fb))
        # tiling: no overlap among parsed fields
        items = sorted(P.items(), key=lambda kv: kv[1])
        ov = [(a, b) for i, (a, (s1, w1)) in enumerate(items) for b, (s2, w2) in items[i + 1:] if a in lay and b in lay and s1 + w1 > s2]
        R.check(not ov, rule, f'{H}.{cname} | header word tiling', 'parsed fields do not overlap', f'overlapping header fields {ov}', p.loc(fb))
        if data_off is not None:
            dl = [slice_parts(n.value) for n in walk_local(fb) if isinstance(n, ast.Assign) and dotted(n.targets[0]) == 'data']
            R.check(dl == [('packet', str(data_off), None)] and data_off == 1 + struct.calcsize(pfmt), rule, f'{H}.{cname} | payload offset', f'payload at {data_off} = 1 + header size', f'payload slice {dl}', p.loc(fb))
            R.check('len(data) != data_total_length' in norm(fb), rule, f'{H}.{cname} | length check', 'payload length checked against the header', 'data_total_length is not checked against the payload', p.loc(fb))
    # ISO optional sections
    fb = p.find(f'{H}.HCI_IsoDataPacket.from_bytes')
    bb = p.find(f'{H}.HCI_IsoDataPacket.__bytes__')
    if fb is not None and bb is not None:
        s1, s2 = norm(fb), norm(bb)
        ok = "struct.unpack_from('<I', packet, pos)" in s1 and "fmt += 'I'" in s2 and "struct.unpack_from('<HH', packet, pos)" in s1 and "fmt += 'HH'" in s2
        order_p = s1.find("'<I'") < s1.find("packet_sequence_number, sdu_info")
        order_s = s2.find("fmt += 'I'") < s2.find("fmt += 'HH'")
        R.check(ok and order_p and order_s, rule, f'{H}.HCI_IsoDataPacket | optional sections', 'time stamp (I) then sequence/SDU info (HH) in the same order on both sides', 'ISO optional sections differ between parse and serialise', p.loc(fb))
        P = _word_fields_parse(fb, 'sdu_info')
        # Core Vol 4 Part E 5.4.5: ISO_SDU_Length bits 0-11, RFU 12-13, Packet_Status_Flag bits 14-15 (oracle)
        ok = P.get('iso_sdu_length') == (0, 12) and P.get('packet_status_flag') == (14, 2) and 'self.iso_sdu_length | self.packet_status_flag << 14' in s2
        R.check(ok, rule, f'{H}.HCI_IsoDataPacket | SDU info word', 'length 12 bits @0, 2-bit status @14 on both sides (as specified)', f'SDU info word: parsed {P} (specified: length (0, 12), status (14, 2))', p.loc(fb))
        R.check('should_include_sdu_info = not pb_flag & 1' in s1, rule, f'{H}.HCI_IsoDataPacket | SDU info presence', 'SDU info present iff first fragment / complete SDU (pb_flag bit 0 clear)', 'presence rule of the SDU info section changed', p.loc(fb))
        # the flag announced in the header and the presence of the section are the same predicate
        pi = p.find(f'{H}.HCI_IsoDataPacket.__post_init__')
        flag_pred = next((norm(n.value) for n in walk_local(pi) if isinstance(n, ast.Assign) and dotted(n.targets[0]) == 'self.ts_flag'), None) if pi is not None else None
        ts_guard = next((norm(n.test) for n in walk_local(bb) if isinstance(n, ast.If) and any("fmt += 'I'" == norm(x) for x in n.body)), None)
        rd_guard = next((norm(n.test) for n in walk_local(fb) if isinstance(n, ast.If) and any("'<I'" in norm(x) for x in n.body)), None)
        R.check(flag_pred is not None and flag_pred == ts_guard and rd_guard == 'ts_flag', rule, f'{H}.HCI_IsoDataPacket | time-stamp presence', f'TS flag := `{flag_pred}` = condition under which the 4 time-stamp bytes are written; parser reads them iff the flag is set',
                f'the TS flag is computed as `{flag_pred}` but the time stamp is written when `{ts_guard}` (read when `{rd_guard}`): for some value the header announces a time stamp that is not there', p.loc(bb))
        steps = s1.count('pos += 4')
        R.check(steps == 3, rule, f'{H}.HCI_IsoDataPacket | position bookkeeping', 'pos advances by 4 after the header and after each 4-byte optional section', f'{steps} position advances (expected 3)', p.loc(fb))
    # packet dispatch by type byte
    pf = p.find(f'{H}.HCI_Packet.from_bytes')
    if pf is not None:
        s = norm(pf)
        want = ['HCI_COMMAND_PACKET', 'HCI_ACL_DATA_PACKET', 'HCI_SYNCHRONOUS_DATA_PACKET', 'HCI_EVENT_PACKET', 'HCI_ISO_DATA_PACKET']
        R.check(all(w in s for w in want) and 'packet[0]' in s, rule, f'{H}.HCI_Packet.from_bytes | dispatch', 'all five packet types dispatched on byte 0', 'packet type dispatch lost a type', p.loc(pf))
    R.floor(rule, 25, 'frame obligations')



def family_registries(ctx):
    """Each family of sub-events dispatches through its own table; parsed events keep the bytes they were parsed from."""
    R, p = ctx.r, ctx.wide if False else ctx.p
    rule = 'C01.family-registries'
    base = p.cls(f'{H}.HCI_Extended_Event')
    if base is None:
        R.bad(rule, f'{H}.HCI_Extended_Event', 'anchor missing')
        return
    # family roots: direct subclasses of HCI_Extended_Event that have subclasses of their own (in bumble/)
    roots = [c for c in p.subclasses(base.qual, transitive=False) if p.subclasses(c.qual, transitive=False)]
    for c in roots:
        own = 'subevent_classes' in c.assigns and isinstance(c.assigns['subevent_classes'], ast.Dict)
        R.check(own, rule, f'{c.qual} | own sub-event table', 'defines its own `subevent_classes = {}`',
                f'{c.name} does not define its own sub-event table: it shares HCI_Extended_Event.subevent_classes with every other family, so a sub-event code registered by another family (e.g. a vendor event) is parsed as that foreign class instead of being kept as an unknown event with its raw parameters', p.loc(c.node))
    R.check(len(roots) >= 2, rule, f'{H} | sub-event families', f'{len(roots)} families with their own dispatch table', f'only {len(roots)} sub-event families found')
    # factories keep the received bytes
    n = 0
    hm = p.modules.get(H)
    for c in hm_classes(p, hm):
        fp = c.methods.get('from_parameters')
        if fp is None:
            continue
        built = [n_ for n_ in walk_local(fp) if isinstance(n_, ast.Assign) and isinstance(n_.value, ast.Call) and dotted(n_.value.func) == 'cls' and any(k.arg is None and 'dict_from_bytes' in norm(k.value) for k in n_.value.keywords)]
        if not built:
            continue
        n += 1
        var = dotted(built[0].targets[0])
        prm = fp.args.args[1].arg
        keeps = any(isinstance(n_, ast.Assign) and dotted(n_.targets[0]) == f'{var}.parameters' and norm(n_.value) == prm for n_ in walk_local(fp))
        R.check(keeps, rule, f'{c.qual}.from_parameters | keeps the received bytes', f'{var}.parameters = {prm}: a parsed packet re-serialises to the bytes it came from',
                f'{c.name}.from_parameters rebuilds the object from its fields but drops the received parameter bytes: whatever the fields do not capture (trailing return parameters of a failed command, reserved bits) is lost when the packet is serialised again', p.loc(fp))
    R.check(n >= 3, rule, f'{H} | field-built factories', f'{n} from_parameters factories built from dict_from_bytes', f'only {n} such factories found')


def hm_classes(p, hm):
    return [c for q, c in p.classes.items() if c.module is hm]



def signed_names(ctx):
    """Quantities that are signed in the specification (RSSI, transmit power) are declared with a signed field spec."""
    R, p = ctx.r, ctx.p
    rule = 'C01.signed-names'
    hm = p.modules.get(H)
    n = 0
    for c in hm_classes(p, hm):
        for s_ in c.node.body:
            if isinstance(s_, ast.AnnAssign) and isinstance(s_.target, ast.Name) and s_.value is not None:
                nm = s_.target.id
                if not ('rssi' in nm or 'tx_power' in nm):
                    continue
                md = [x for x in ast.walk(s_.value) if isinstance(x, ast.Call) and call_attr(x) in ('metadata',) or (isinstance(x, ast.Call) and dotted(x.func) == 'metadata')]
                if not md or not md[0].args:
                    continue
                a = md[0].args[0]
                n += 1
                signed = (isinstance(a, ast.UnaryOp) and isinstance(a.op, ast.USub)) or not is_const(a)
                R.check(signed, rule, f'{c.qual}.{nm}', 'signed field spec', f'{c.name}.{nm} is declared with the unsigned spec {norm(a)}: a negative value (dBm) cannot be serialised and parses back as value + 256', p.loc(s_))
    R.check(n >= 15, rule, f'{H} | signed quantities', f'{n} rssi / tx_power fields', f'only {n} such fields found')


def zero_valid_rule(ctx):
    from ..zero_valid import zero_valid
    zero_valid(ctx, 'C01.zero-valid', ['bumble.hci'])


def decorator_order_rule(ctx):
    from .. import generic_rules as g
    g.decorator_order(ctx, 'C01.decorator-order', ['bumble.hci'])


def class_identity_rule(ctx):
    from ..generic_rules import registered_class_identity
    registered_class_identity(ctx, 'C01.class-identity', ['bumble.hci'])


def wire_fields_init_rule(ctx):
    from ..generic_rules import wire_fields_init
    wire_fields_init(ctx, 'C01.wire-fields-init', ['bumble.hci'])


def zip_star_rule(ctx):
    from ..generic_rules import zip_star_unpack
    zip_star_unpack(ctx, 'C01.zip-star', ['bumble.hci'])


def walrus_rule(ctx):
    from ..generic_rules import walrus_compare
    walrus_compare(ctx, 'C01.walrus', ['bumble.hci'])


def return_parameters_fields(ctx):
    """A return-parameters dataclass gets its wire layout (`fields`) when it is passed to HCI_SyncCommand.sync_command();
    one that declares fields of its own and is never passed there must declare the layout itself (class attribute or a
    module-level `X.fields = ...`), or it silently serialises and parses as its base class."""
    R, p = ctx.r, ctx.p
    rule = 'C01.return-parameters-fields'
    registered, explicit = set(), set()
    for mn, m in p.modules.items():
        for c in ast.walk(m.tree):
            if isinstance(c, ast.Call) and (dotted(c.func) or '').endswith('sync_command'):
                registered |= {norm(a).split('.')[-1] for a in c.args}
            if isinstance(c, ast.Assign) and isinstance(c.targets[0], ast.Attribute) and c.targets[0].attr == 'fields' and isinstance(c.targets[0].value, ast.Name):
                explicit.add(c.targets[0].value.id)
    n = 0
    for cn, ci in sorted(p.classes.items()):
        if not any(x.qual == 'bumble.hci.HCI_ReturnParameters' for x in p.mro(cn)[1:]):
            continue
        n += 1
        if not ci.annots:
            continue
        ok = ci.name in registered or ci.name in explicit or 'fields' in ci.assigns
        R.check(ok, rule, cn, 'layout declared (sync_command / explicit fields)', f'{ci.name} declares {sorted(ci.annots)} but never gets a `fields` layout of its own: it inherits its base class\'s, so these values are dropped from the bytes and parsing it raises for the missing argument', p.loc(ci.node))
    R.check(n >= 60 and len(registered) >= 100, rule, 'bumble.hci | return parameter classes', f'{n} classes, {len(registered)} registered through sync_command', f'only {n} classes / {len(registered)} registrations found')


def parsed_verbatim(ctx):
    from ..generic_rules import rebound_parsed_names
    rebound_parsed_names(ctx, 'C01.parsed-verbatim', ['bumble.hci'], floor=5)


def empty_payload(ctx):
    """An empty payload is a value: the from_bytes of the three HCI data packet classes reject a packet on its length
    fields only, never on the truthiness of the payload (`not data` is true for a zero-length ACL / SCO / ISO payload)."""
    R, p = ctx.r, ctx.p
    rule = 'C01.empty-payload'
    n = 0
    for cn in ('HCI_AclDataPacket', 'HCI_SynchronousDataPacket', 'HCI_IsoDataPacket'):
        fn = p.find(f'bumble.hci.{cn}.from_bytes')
        if fn is None:
            R.bad(rule, f'bumble.hci.{cn}.from_bytes', 'anchor missing')
            continue
        n += 1
        sliced = {t.id for st in walk_local(fn) if isinstance(st, ast.Assign) and isinstance(st.value, ast.Subscript) and isinstance(st.value.slice, ast.Slice) for t in st.targets if isinstance(t, ast.Name)}
        bad = []
        for i_ in [x for x in walk_local(fn) if isinstance(x, ast.If) and any(isinstance(y, ast.Raise) for y in ast.walk(x))]:
            atoms = [i_.test]
            while atoms:
                a = atoms.pop()
                if isinstance(a, ast.BoolOp):
                    atoms += a.values
                elif isinstance(a, ast.UnaryOp) and isinstance(a.op, ast.Not):
                    atoms.append(a.operand)
                elif isinstance(a, ast.Name) and a.id in sliced:
                    bad.append(i_)
        R.check(not bad, rule, f'bumble.hci.{cn}.from_bytes', 'rejects on lengths only', f'`{norm(bad[0].test)[:60] if bad else ""}` rejects a packet whose payload is empty: a zero-length {cn} that Bumble itself builds no longer parses back', p.loc(bad[0]) if bad else p.loc(fn))
    R.check(n == 3, rule, 'bumble.hci | data packet parsers', '3 parsers', f'{n} found')


def absolute_offsets(ctx):
    """Field parsers return the absolute offset after the field (HCI_Object.parse_field computes a field's size as
    new_offset - offset): HCI_Dataclass_Object.parse_from_bytes passes its `data` and `offset` on unchanged - parsing a
    slice from 0 returns a size, and every element of a list after the first then starts at the wrong place."""
    R, p = ctx.r, ctx.p
    rule = 'C01.absolute-offsets'
    fn = p.find('bumble.hci.HCI_Dataclass_Object.parse_from_bytes')
    if fn is None:
        R.bad(rule, 'bumble.hci.HCI_Dataclass_Object.parse_from_bytes', 'anchor missing')
        return
    params = [a.arg for a in fn.args.args if a.arg not in ('cls', 'self')]
    calls = [c for c in calls_in(fn) if call_attr(c) in ('dict_and_offset_from_bytes', 'dict_from_bytes')]
    ok = len(calls) == 1 and len(params) >= 2 and len(calls[0].args) >= 2 and norm(calls[0].args[0]) == params[0] and norm(calls[0].args[1]) == params[1]
    R.check(ok, rule, 'bumble.hci.HCI_Dataclass_Object.parse_from_bytes', f'parses ({params[0]}, {params[1]}) as given', f'the object is parsed from `{norm(calls[0].args[0]) if calls else "?"}` at `{norm(calls[0].args[1]) if calls and len(calls[0].args) > 1 else "?"}`: what comes back is an offset relative to that view, but the caller takes it for an absolute one - the second and later reports of a multi-report event are read from the wrong position', p.loc(fn))
    sub = [s_ for s_ in ast.walk(fn) if isinstance(s_, ast.Subscript) and isinstance(s_.slice, ast.Slice) and norm(s_.value) == params[0]] if params else []
    R.check(not sub, rule, 'bumble.hci.HCI_Dataclass_Object.parse_from_bytes | no re-based view', 'the buffer is not sliced', f'`{norm(sub[0]) if sub else ""}` re-bases the buffer', p.loc(sub[0]) if sub else p.loc(fn))


def error_status_only(ctx):
    """A Command Complete with an error status carries the status only: HCI_StatusReturnParameters.from_parameters returns
    a bare HCI_StatusReturnParameters on that branch and does not try the command-specific layout (byte-array and enum
    fields parse "successfully" out of no data at all)."""
    R, p = ctx.r, ctx.p
    rule = 'C01.error-status-only'
    fn = p.find('bumble.hci.HCI_StatusReturnParameters.from_parameters')
    if fn is None:
        R.bad(rule, 'bumble.hci.HCI_StatusReturnParameters.from_parameters', 'anchor missing')
        return
    branches = [i_ for i_ in walk_local(fn) if isinstance(i_, ast.If) and 'SUCCESS' in norm(i_.test)]
    R.check(len(branches) == 1, rule, 'bumble.hci.HCI_StatusReturnParameters.from_parameters | status test', 'one test of the status', f'{len(branches)} tests', p.loc(fn))
    for i_ in branches:
        err = i_.body if isinstance(i_.test, ast.Compare) and isinstance(i_.test.ops[0], ast.NotEq) else i_.orelse
        parses = [c for s_ in err for c in calls_in(s_) if call_attr(c) in ('dict_from_bytes', 'dict_and_offset_from_bytes') or norm(c.func) == 'cls']
        rets = [r for s_ in err for r in ast.walk(s_) if isinstance(r, ast.Return)]
        ok = bool(rets) and not parses and all(isinstance(r.value, ast.Call) and call_attr(r.value) == 'HCI_StatusReturnParameters' for r in rets)
        R.check(ok, rule, 'bumble.hci.HCI_StatusReturnParameters.from_parameters | error branch', 'returns the bare status', f'with an error status the command-specific layout is tried (`{norm(parses[0])[:50] if parses else ""}`): fields whose parsers accept missing data are filled with invented values, the event no longer parses back to what was sent', p.loc(parses[0]) if parses else p.loc(i_))


RULES = [
    ('C01.error-status-only', error_status_only),
    ('C01.absolute-offsets', absolute_offsets),
    ('C01.empty-payload', empty_payload),
    ('C01.parsed-verbatim', parsed_verbatim),
    ('C01.return-parameters-fields', return_parameters_fields),
    ('C01.walrus', walrus_rule),
    ('C01.zip-star', zip_star_rule),
    ('C01.wire-fields-init', wire_fields_init_rule),
    ('C01.class-identity', class_identity_rule),
    ('C01.decorator-order', decorator_order_rule),
    ('C01.zero-valid', zero_valid_rule),
    ('C01.signed-names', signed_names),
    ('C01.family-registries', family_registries),
    ('C01.codec-arms', codec_arms),
    ('C01.enum-spec', enum_spec),
    ('C01.fields', hci_fields),
    ('C01.registry', registry),
    ('C01.frames', frames),
]

VARIANTS = [
    ("big-endian 16 serialised little-endian", 'bumble/hci.py', "            case '>2':\n                # 16-bit unsigned big-endian\n                return struct.pack('>H', field_value)\n", "            case '>2':\n                # 16-bit unsigned big-endian\n                return struct.pack('<H', field_value)\n", 'fire', 'C01.codec-arms'),
    ('24-bit parse consumes 4', 'bumble/hci.py', "                return (struct.unpack('<I', padded)[0], 3)\n", "                return (struct.unpack('<I', padded)[0], 4)\n", 'fire', 'C01.codec-arms'),
    ('signed 8 parsed unsigned', 'bumble/hci.py', "                return (struct.unpack_from('b', data, offset)[0], 1)\n", "                return (struct.unpack_from('B', data, offset)[0], 1)\n", 'fire', 'C01.codec-arms'),
    ('enum parser ignores byteorder', 'bumble/hci.py',
     "class SpecableEnum(utils.OpenIntEnum):\n    @classmethod\n    def type_spec(cls, size: int, byteorder: Literal['little', 'big'] = 'little'):\n        return {\n            'serializer': lambda x: x.to_bytes(size, byteorder),\n            'parser': lambda data, offset: (\n                offset + size,\n                cls(int.from_bytes(data[offset : offset + size], byteorder)),",
     "class SpecableEnum(utils.OpenIntEnum):\n    @classmethod\n    def type_spec(cls, size: int, byteorder: Literal['little', 'big'] = 'little'):\n        return {\n            'serializer': lambda x: x.to_bytes(size, byteorder),\n            'parser': lambda data, offset: (\n                offset + size,\n                cls(int.from_bytes(data[offset : offset + size], 'little')),", 'fire', 'C01.enum-spec'),
    ('ACL pb flag parsed at bit 13', 'bumble/hci.py', "        pb_flag = (h >> 12) & 3\n        bc_flag = (h >> 14) & 3\n        data = packet[5:]", "        pb_flag = (h >> 13) & 3\n        bc_flag = (h >> 14) & 3\n        data = packet[5:]", 'fire', 'C01.frames'),
    ('command complete return parameters at 2', 'bumble/hci.py', "        return_parameters_bytes = parameters[3:]\n", "        return_parameters_bytes = parameters[2:]\n", 'fire', 'C01.frames'),
    ('extended event parsed from offset 0', 'bumble/hci.py', "        event = cls(**HCI_Object.dict_from_bytes(parameters, 1, cls.fields))\n", "        event = cls(**HCI_Object.dict_from_bytes(parameters, 0, cls.fields))\n", 'fire', 'C01.frames'),
    ('address type byte removed before address', 'bumble/hci.py',
     "    address_type: int = field(metadata=metadata(Address.ADDRESS_TYPE_SPEC))\n    address: Address = field(metadata=metadata(Address.parse_address_preceded_by_type))\n\n\n# -----------------------------------------------------------------------------\n@HCI_SyncCommand.sync_command(HCI_StatusReturnParameters)\n@dataclasses.dataclass\nclass HCI_LE_Remove_Device_From_Filter_Accept_List_Command(",
     "    address_type: int = field(metadata=metadata(2))\n    address: Address = field(metadata=metadata(Address.parse_address_preceded_by_type))\n\n\n# -----------------------------------------------------------------------------\n@HCI_SyncCommand.sync_command(HCI_StatusReturnParameters)\n@dataclasses.dataclass\nclass HCI_LE_Remove_Device_From_Filter_Accept_List_Command(", 'fire', 'C01.fields'),
    ('benign: docstring', 'bumble/hci.py', "    See Bluetooth spec @ 7.7.14 Command Complete Event\n    '''\n\n    num_hci_command_packets", "    See Bluetooth spec @ 7.7.14 (Command Complete)\n    '''\n\n    num_hci_command_packets", 'silent', ''),
]
